//! Correspondence harness: runs case lines (see lean/Bma400/Proto.lean for the
//! format) through the real `bma400` crate against a simulated chip and prints
//! one canonical observation line per case.  The simulated chip and the output
//! format mirror `Chip` / `fmtObs` of the Lean model exactly.

use std::cell::RefCell;
use std::io::{BufRead, BufWriter, Write as IoWrite};
use std::panic::{catch_unwind, AssertUnwindSafe};
use std::rc::Rc;

use bma400::*;
use embedded_hal::blocking::delay::DelayMs;
use embedded_hal::blocking::{i2c, spi};
use embedded_hal::digital::v2::OutputPin;

// ---------------------------------------------------------------- simulated chip

const CFG_ADDRS: [u8; 57] = [
    0x19, 0x1A, 0x1B, 0x1F, 0x20, 0x21, 0x22, 0x23, 0x24, 0x26, 0x27, 0x28, 0x29, 0x2A, 0x2B, 0x2C,
    0x2D, 0x2F, 0x30, 0x31, 0x32, 0x33, 0x35, 0x36, 0x38, 0x39, 0x3A, 0x3B, 0x3C, 0x3D, 0x3E, 0x3F,
    0x40, 0x41, 0x42, 0x43, 0x44, 0x45, 0x46, 0x47, 0x48, 0x49, 0x4A, 0x4B, 0x4C, 0x4D, 0x4E, 0x4F,
    0x50, 0x51, 0x52, 0x53, 0x54, 0x55, 0x56, 0x57, 0x58,
];

fn reset_val(a: usize) -> u8 {
    match a {
        0x1A => 0x49,
        0x24 => 0x22,
        0x58 => 0x06,
        _ => 0,
    }
}

struct Sim {
    regs: [u8; 128],
    pos: Vec<u8>,
    neg: Vec<u8>,
    fifo: Vec<u8>,
    cs_high: bool,
    win_len: usize,
    win_first: u8,
    win_last: u8,
    spi_mode: bool,
    dummy: u8,
    // fault injection and journal of the current call
    idx: usize,
    fails: Vec<usize>,
    journal: Vec<String>,
}

impl Sim {
    fn power_on(low: &[u8], pos: Vec<u8>, neg: Vec<u8>, fifo: Vec<u8>) -> Sim {
        let mut regs = [0u8; 128];
        for a in 0..128 {
            regs[a] = if a >= 0x19 { reset_val(a) } else { *low.get(a).unwrap_or(&0) };
        }
        Sim {
            regs,
            pos,
            neg,
            fifo,
            cs_high: true,
            win_len: 0,
            win_first: 0,
            win_last: 0,
            spi_mode: false,
            dummy: 0,
            idx: 0,
            fails: vec![],
            journal: vec![],
        }
    }
    fn reg(&self, a: usize) -> u8 {
        if a < 128 {
            self.regs[a]
        } else {
            0
        }
    }
    fn data_at(&self, a: usize) -> u8 {
        if (4..=9).contains(&a) {
            if self.regs[0x7D] == 0x07 {
                *self.pos.get(a - 4).unwrap_or(&0)
            } else if self.regs[0x7D] == 0x0F {
                *self.neg.get(a - 4).unwrap_or(&0)
            } else {
                self.reg(a)
            }
        } else {
            self.reg(a)
        }
    }
    fn burst(&self, a: usize, n: usize) -> Vec<u8> {
        if a == 0x14 {
            (0..n).map(|i| *self.fifo.get(i).unwrap_or(&0)).collect()
        } else {
            (0..n).map(|i| self.data_at(a + i)).collect()
        }
    }
    fn write(&mut self, a: usize, v: u8) {
        if a == 0x7E {
            if v == 0xB6 {
                for x in 0x19..128 {
                    self.regs[x] = reset_val(x);
                }
            }
        } else if a < 0x19 || a >= 0x80 {
        } else {
            self.regs[a] = v;
        }
    }
    fn clock(&mut self, b: u8) -> u8 {
        if self.cs_high {
            return 0;
        }
        if self.win_len == 0 {
            self.win_len = 1;
            self.win_first = b;
            self.win_last = b;
            return 0;
        }
        if self.win_first & 0x80 != 0 {
            let a0 = (self.win_first & 0x7F) as usize;
            let out = if self.win_len == 1 {
                0
            } else if !self.spi_mode {
                self.dummy
            } else if a0 == 0x14 {
                *self.fifo.get(self.win_len - 2).unwrap_or(&0)
            } else {
                self.data_at(a0 + (self.win_len - 2))
            };
            self.win_len += 1;
            self.win_last = b;
            out
        } else {
            if self.win_len % 2 == 1 {
                let a = (self.win_last & 0x7F) as usize;
                self.write(a, b);
            }
            self.win_len += 1;
            self.win_last = b;
            0
        }
    }
    /// journal a fallible raw operation; returns false if it is scheduled to fail
    fn attempt(&mut self, desc: String) -> Result<(), usize> {
        let i = self.idx;
        self.idx += 1;
        if self.fails.contains(&i) {
            self.journal.push(format!("{}!", desc));
            Err(i)
        } else {
            self.journal.push(desc);
            Ok(())
        }
    }
}

fn hex(bytes: &[u8]) -> String {
    let mut s = String::with_capacity(bytes.len() * 2);
    for b in bytes {
        s.push_str(&format!("{:02x}", b));
    }
    s
}

fn fmt_sent(bytes: &[u8]) -> String {
    if bytes.len() > 2 && bytes.iter().all(|b| *b == 0) {
        format!("z{}", bytes.len())
    } else {
        hex(bytes)
    }
}

type Shared = Rc<RefCell<Sim>>;

#[derive(Debug, Clone, Copy)]
pub struct Fault(usize);
#[derive(Debug, Clone, Copy)]
pub struct PinFault(usize);

struct SimI2c(Shared);
struct SimSpi(Shared);
struct SimPin(Shared);
struct SimDelay(Shared);

impl i2c::Write for SimI2c {
    type Error = Fault;
    fn write(&mut self, addr: u8, bytes: &[u8]) -> Result<(), Fault> {
        let mut s = self.0.borrow_mut();
        s.attempt(format!("iw{:02x}:{}", addr, hex(bytes))).map_err(Fault)?;
        if bytes.len() == 2 {
            s.write(bytes[0] as usize, bytes[1]);
        }
        Ok(())
    }
}

impl i2c::WriteRead for SimI2c {
    type Error = Fault;
    fn write_read(&mut self, addr: u8, bytes: &[u8], buffer: &mut [u8]) -> Result<(), Fault> {
        let mut s = self.0.borrow_mut();
        s.attempt(format!("ir{:02x}:{}:{}", addr, hex(bytes), buffer.len())).map_err(Fault)?;
        if bytes.len() == 1 {
            let d = s.burst(bytes[0] as usize, buffer.len());
            buffer.copy_from_slice(&d);
        } else {
            for b in buffer.iter_mut() {
                *b = 0;
            }
        }
        Ok(())
    }
}

impl spi::Write<u8> for SimSpi {
    type Error = Fault;
    fn write(&mut self, words: &[u8]) -> Result<(), Fault> {
        let mut s = self.0.borrow_mut();
        s.attempt(format!("sw:{}", hex(words))).map_err(Fault)?;
        for w in words {
            s.clock(*w);
        }
        Ok(())
    }
}

impl spi::Transfer<u8> for SimSpi {
    type Error = Fault;
    fn transfer<'w>(&mut self, words: &'w mut [u8]) -> Result<&'w [u8], Fault> {
        let mut s = self.0.borrow_mut();
        s.attempt(format!("st:{}", fmt_sent(words))).map_err(Fault)?;
        for w in words.iter_mut() {
            *w = s.clock(*w);
        }
        Ok(words)
    }
}

impl OutputPin for SimPin {
    type Error = PinFault;
    fn set_low(&mut self) -> Result<(), PinFault> {
        let mut s = self.0.borrow_mut();
        s.attempt("L".to_string()).map_err(PinFault)?;
        if s.cs_high {
            s.cs_high = false;
            s.win_len = 0;
        }
        Ok(())
    }
    fn set_high(&mut self) -> Result<(), PinFault> {
        let mut s = self.0.borrow_mut();
        s.attempt("H".to_string()).map_err(PinFault)?;
        s.cs_high = true;
        s.win_len = 0;
        s.spi_mode = true;
        Ok(())
    }
}

impl DelayMs<u8> for SimDelay {
    fn delay_ms(&mut self, ms: u8) {
        self.0.borrow_mut().journal.push(format!("d{}", ms));
    }
}

// ---------------------------------------------------------------- result formatting

trait FmtErr {
    fn fmt_err(&self) -> String;
}
fn cfg_err(e: &ConfigError) -> &'static str {
    match e {
        ConfigError::Filt1InterruptInvalidODR => "err:cfg:filt1",
        ConfigError::TapIntEnabledInvalidODR => "err:cfg:tap",
        ConfigError::FifoReadWhilePwrDisable => "err:cfg:fifopwr",
    }
}
impl FmtErr for BMA400Error<Fault, ()> {
    fn fmt_err(&self) -> String {
        match self {
            BMA400Error::IOError(Fault(i)) => format!("err:io:{}", i),
            BMA400Error::ChipSelectPinError(()) => "err:pin:unit".to_string(),
            BMA400Error::ConfigBuildError(e) => cfg_err(e).to_string(),
            BMA400Error::ChipIdReadFailed => "err:chipid".to_string(),
            BMA400Error::SelfTestFailedError => "err:selftest".to_string(),
        }
    }
}
impl FmtErr for BMA400Error<Fault, PinFault> {
    fn fmt_err(&self) -> String {
        match self {
            BMA400Error::IOError(Fault(i)) => format!("err:io:{}", i),
            BMA400Error::ChipSelectPinError(PinFault(i)) => format!("err:pin:{}", i),
            BMA400Error::ConfigBuildError(e) => cfg_err(e).to_string(),
            BMA400Error::ChipIdReadFailed => "err:chipid".to_string(),
            BMA400Error::SelfTestFailedError => "err:selftest".to_string(),
        }
    }
}

fn res_unit<E: FmtErr>(r: Result<(), E>) -> String {
    match r {
        Ok(()) => "ok:".to_string(),
        Err(e) => e.fmt_err(),
    }
}
fn res_ints<E: FmtErr>(r: Result<Vec<i64>, E>) -> String {
    match r {
        Ok(v) => format!("ok:{}", v.iter().map(|x| x.to_string()).collect::<Vec<_>>().join(",")),
        Err(e) => e.fmt_err(),
    }
}
fn b(x: bool) -> i64 {
    x as i64
}
fn opt<T: ToString>(o: Option<T>) -> String {
    match o {
        Some(v) => v.to_string(),
        None => "_".to_string(),
    }
}
fn optb(o: Option<bool>) -> String {
    match o {
        Some(v) => (v as u8).to_string(),
        None => "_".to_string(),
    }
}

/// are the two verification hooks of the crate compiled in?  Without them (a tree whose hook code
/// no longer compiles) the harness still runs, in quiet mode only: no recorded-configuration
/// dumps, no frame extents.
const HOOKS: bool = cfg!(bma400_verif);

#[cfg(bma400_verif)]
macro_rules! shadow_of {
    ($dev:expr) => {
        Some($dev.verif_shadow())
    };
}
#[cfg(not(bma400_verif))]
macro_rules! shadow_of {
    ($dev:expr) => {{
        let _ = &$dev;
        None::<[(u8, u8); 57]>
    }};
}

#[cfg(bma400_verif)]
fn frame_extent(buf_ptr: usize, frame: &Frame) -> (usize, usize) {
    let sl = frame.verif_slice();
    let start = sl.as_ptr() as usize - buf_ptr;
    (start, start + sl.len())
}
#[cfg(not(bma400_verif))]
fn frame_extent(_buf_ptr: usize, _frame: &Frame) -> (usize, usize) {
    (0, 0)
}

fn fmt_frame(buf_ptr: usize, frame: &Frame) -> String {
    let (start, stop) = frame_extent(buf_ptr, frame);
    let r = catch_unwind(AssertUnwindSafe(|| {
        let t = match frame.frame_type() {
            FrameType::Data => "D",
            FrameType::Time => "T",
            FrameType::Control => "C",
        };
        format!(
            "{}:{},{},{},{},{},{},{}",
            t,
            opt(frame.x()),
            opt(frame.y()),
            opt(frame.z()),
            opt(frame.time()),
            optb(frame.fifo_src_chg()),
            optb(frame.filt1_bw_chg()),
            optb(frame.acc1_chg())
        )
    }));
    match r {
        Ok(s) => format!("F{}-{}:{}", start, stop, s),
        Err(_) => format!("F{}-{}:PANIC", start, stop),
    }
}

// ---------------------------------------------------------------- argument decoding

struct Setter<'a> {
    name: &'a str,
    args: Vec<i64>,
}

fn parse_setter(tok: &str) -> Setter {
    let (name, args) = match tok.find(':') {
        Some(i) => (&tok[..i], &tok[i + 1..]),
        None => (tok, ""),
    };
    let args = if args.is_empty() { vec![] } else { args.split(',').map(|a| a.parse::<i64>().expect("int arg")).collect() };
    Setter { name, args }
}

fn pm(i: i64) -> PowerMode {
    [PowerMode::Sleep, PowerMode::LowPower, PowerMode::Normal].into_iter().nth(i as usize).unwrap()
}
fn osr(i: i64) -> OversampleRate {
    [OversampleRate::OSR0, OversampleRate::OSR1, OversampleRate::OSR2, OversampleRate::OSR3].into_iter().nth(i as usize).unwrap()
}
fn bw(i: i64) -> Filter1Bandwidth {
    [Filter1Bandwidth::High, Filter1Bandwidth::Low].into_iter().nth(i as usize).unwrap()
}
fn odr(i: i64) -> OutputDataRate {
    [
        OutputDataRate::Hz12_5,
        OutputDataRate::Hz25,
        OutputDataRate::Hz50,
        OutputDataRate::Hz100,
        OutputDataRate::Hz200,
        OutputDataRate::Hz400,
        OutputDataRate::Hz800,
    ]
    .into_iter()
    .nth(i as usize)
    .unwrap()
}
fn scale(i: i64) -> Scale {
    [Scale::Range2G, Scale::Range4G, Scale::Range8G, Scale::Range16G].into_iter().nth(i as usize).unwrap()
}
fn src(i: i64) -> DataSource {
    [DataSource::AccFilt1, DataSource::AccFilt2, DataSource::AccFilt2Lp].into_iter().nth(i as usize).unwrap()
}
fn pins(i: i64) -> InterruptPins {
    [InterruptPins::None, InterruptPins::Int1, InterruptPins::Int2, InterruptPins::Both].into_iter().nth(i as usize).unwrap()
}
fn pincfg(i: i64) -> PinOutputConfig {
    match i {
        0 => PinOutputConfig::PushPull(PinOutputLevel::ActiveLow),
        1 => PinOutputConfig::PushPull(PinOutputLevel::ActiveHigh),
        2 => PinOutputConfig::OpenDrain(PinOutputLevel::ActiveLow),
        3 => PinOutputConfig::OpenDrain(PinOutputLevel::ActiveHigh),
        _ => panic!("pincfg"),
    }
}
fn alptrig(i: i64) -> AutoLPTimeoutTrigger {
    [
        AutoLPTimeoutTrigger::TimeoutDisabled,
        AutoLPTimeoutTrigger::TimeoutEnabledNoReset,
        AutoLPTimeoutTrigger::TimeoutEnabledGen2IntReset,
    ]
    .into_iter()
    .nth(i as usize)
    .unwrap()
}
fn wkref(i: i64) -> WakeupIntRefMode {
    [WakeupIntRefMode::Manual, WakeupIntRefMode::OneTime, WakeupIntRefMode::EveryTime].into_iter().nth(i as usize).unwrap()
}
fn orref(i: i64) -> OrientIntRefMode {
    [OrientIntRefMode::Manual, OrientIntRefMode::AccFilt2, OrientIntRefMode::AccFilt2Lp].into_iter().nth(i as usize).unwrap()
}
fn obs(i: i64) -> ActChgObsPeriod {
    [
        ActChgObsPeriod::Samples32,
        ActChgObsPeriod::Samples64,
        ActChgObsPeriod::Samples128,
        ActChgObsPeriod::Samples256,
        ActChgObsPeriod::Samples512,
    ]
    .into_iter()
    .nth(i as usize)
    .unwrap()
}
fn sens(i: i64) -> TapSensitivity {
    [
        TapSensitivity::SENS0,
        TapSensitivity::SENS1,
        TapSensitivity::SENS2,
        TapSensitivity::SENS3,
        TapSensitivity::SENS4,
        TapSensitivity::SENS5,
        TapSensitivity::SENS6,
        TapSensitivity::SENS7,
    ]
    .into_iter()
    .nth(i as usize)
    .unwrap()
}
fn axis(i: i64) -> Axis {
    [Axis::X, Axis::Y, Axis::Z].into_iter().nth(i as usize).unwrap()
}
fn mintap(i: i64) -> MinTapDuration {
    [MinTapDuration::Samples4, MinTapDuration::Samples8, MinTapDuration::Samples12, MinTapDuration::Samples16].into_iter().nth(i as usize).unwrap()
}
fn dtap(i: i64) -> DoubleTapDuration {
    [DoubleTapDuration::Samples60, DoubleTapDuration::Samples80, DoubleTapDuration::Samples100, DoubleTapDuration::Samples120]
        .into_iter()
        .nth(i as usize)
        .unwrap()
}
fn maxtap(i: i64) -> MaxTapDuration {
    [MaxTapDuration::Samples6, MaxTapDuration::Samples9, MaxTapDuration::Samples12, MaxTapDuration::Samples18].into_iter().nth(i as usize).unwrap()
}
fn genref(i: i64) -> GenIntRefMode {
    [GenIntRefMode::Manual, GenIntRefMode::OneTime, GenIntRefMode::EveryTimeFromSrc, GenIntRefMode::EveryTimeFromLp]
        .into_iter()
        .nth(i as usize)
        .unwrap()
}
fn hyst(i: i64) -> Hysteresis {
    [Hysteresis::None, Hysteresis::Hyst24mg, Hysteresis::Hyst48mg, Hysteresis::Hyst96mg].into_iter().nth(i as usize).unwrap()
}
fn crit(i: i64) -> GenIntCriterionMode {
    [GenIntCriterionMode::Inactivity, GenIntCriterionMode::Activity].into_iter().nth(i as usize).unwrap()
}
fn logic(i: i64) -> GenIntLogicMode {
    [GenIntLogicMode::Or, GenIntLogicMode::And].into_iter().nth(i as usize).unwrap()
}
fn t(i: i64) -> bool {
    match i {
        0 => false,
        1 => true,
        _ => panic!("bool arg"),
    }
}

// ---------------------------------------------------------------- running operations on the real driver

// The driver's transport traits are private, so the operation runner cannot be a
// generic function; it is a macro instantiated for the I2C and the SPI device types.
macro_rules! gen_setters {
    ($bld:expr, $setters:expr) => {{
        let mut bld = $bld;
        for s in $setters {
            let a = &s.args;
            bld = match s.name {
                "axes" => bld.with_axes(t(a[0]), t(a[1]), t(a[2])),
                "src" => bld.with_src(src(a[0])),
                "ref" => bld.with_ref_mode(genref(a[0])),
                "hyst" => bld.with_hysteresis(hyst(a[0])),
                "crit" => bld.with_criterion_mode(crit(a[0])),
                "logic" => bld.with_logic_mode(logic(a[0])),
                "thr" => bld.with_threshold(a[0] as u8),
                "dur" => bld.with_duration(a[0] as u16),
                "refacc" => bld.with_ref_accel(a[0] as i16, a[1] as i16, a[2] as i16),
                other => panic!("unknown gen setter {}", other),
            };
        }
        res_unit(bld.write())
    }};
}

macro_rules! run_op {
    ($dev:expr, $sim:expr, $toks:expr) => {{
        let dev = &mut $dev;
        let toks: &Vec<&str> = $toks;
        let (name, arg) = match toks[0].find(':') {
            Some(i) => (&toks[0][..i], &toks[0][i + 1..]),
            None => (toks[0], ""),
        };
        let setters: Vec<Setter> = toks[1..].iter().map(|s| parse_setter(s)).collect();
        match name {
            "id" => res_ints(dev.get_id().map(|v| vec![v as i64])),
            "cmderr" => res_ints(dev.get_cmd_error().map(|v| vec![b(v)])),
            "status" => res_ints(dev.get_status().map(|s| {
                vec![
                    b(s.drdy_stat()),
                    b(s.cmd_rdy()),
                    match s.power_mode() {
                        PowerMode::Sleep => 0,
                        PowerMode::LowPower => 1,
                        PowerMode::Normal => 2,
                    },
                    b(s.int_active()),
                ]
            })),
            "unscaled" => res_ints(dev.get_unscaled_data().map(|m| vec![m.x as i64, m.y as i64, m.z as i64])),
            "data" => res_ints(dev.get_data().map(|m| vec![m.x as i64, m.y as i64, m.z as i64])),
            "clock" => res_ints(dev.get_sensor_clock().map(|v| vec![v as i64])),
            "resetstat" => res_ints(dev.get_reset_status().map(|v| vec![b(v)])),
            "is0" => res_ints(dev.get_int_status0().map(|s| {
                vec![
                    b(s.drdy_stat()),
                    b(s.fwm_stat()),
                    b(s.ffull_stat()),
                    b(s.ieng_overrun_stat()),
                    b(s.gen2_stat()),
                    b(s.gen1_stat()),
                    b(s.orientch_stat()),
                    b(s.wkup_stat()),
                ]
            })),
            "is1" => res_ints(dev.get_int_status1().map(|s| {
                vec![
                    b(s.ieng_overrun_stat()),
                    b(s.d_tap_stat()),
                    b(s.s_tap_stat()),
                    match s.step_int_stat() {
                        StepIntStatus::None => 0,
                        StepIntStatus::OneStepDetect => 1,
                        StepIntStatus::ManyStepDetect => 2,
                    },
                ]
            })),
            "is2" => res_ints(dev.get_int_status2().map(|s| {
                vec![b(s.ieng_overrun_stat()), b(s.actch_z_stat()), b(s.actch_y_stat()), b(s.actch_x_stat())]
            })),
            "fifolen" => res_ints(dev.get_fifo_len().map(|v| vec![v as i64])),
            "rfifo" => {
                let n: usize = arg.parse().expect("rfifo length");
                let mut buf = vec![0u8; n];
                let ptr = buf.as_ptr() as usize;
                match dev.read_fifo_frames(&mut buf) {
                    Ok(mut frames) => {
                        let mut out: Vec<String> = Vec::new();
                        for _ in 0..n + 2 {
                            match frames.next() {
                                Some(f) => out.push(fmt_frame(ptr, &f)),
                                None => out.push("N".to_string()),
                            }
                        }
                        format!("ok:{}", out.join(" "))
                    }
                    Err(e) => e.fmt_err(),
                }
            }
            "flush" => res_unit(dev.flush_fifo()),
            "steps" => res_ints(dev.get_step_count().map(|v| vec![v as i64])),
            "clrsteps" => res_unit(dev.clear_step_count()),
            "activity" => res_ints(dev.get_step_activity().map(|a| {
                vec![match a {
                    Activity::Still => 0,
                    Activity::Walk => 1,
                    Activity::Run => 2,
                }]
            })),
            "rawtemp" => res_ints(dev.get_raw_temp().map(|v| vec![v as i64])),
            "celsius" => match dev.get_temp_celsius() {
                Ok(v) => {
                    let d = v * 2.0;
                    if d.fract() == 0.0 {
                        format!("ok:{}", d as i64)
                    } else {
                        format!("ok:float:{}", v)
                    }
                }
                Err(e) => e.fmt_err(),
            },
            "selftest" => {
                let mut delay = SimDelay($sim.clone());
                res_unit(dev.perform_self_test(&mut delay))
            }
            "reset" => res_unit(dev.soft_reset()),
            "acc" => {
                let mut bld = dev.config_accel();
                for s in &setters {
                    let a = &s.args;
                    bld = match s.name {
                        "pm" => bld.with_power_mode(pm(a[0])),
                        "osrlp" => bld.with_osr_lp(osr(a[0])),
                        "bw" => bld.with_filt1_bw(bw(a[0])),
                        "odr" => bld.with_odr(odr(a[0])),
                        "osr" => bld.with_osr(osr(a[0])),
                        "scale" => bld.with_scale(scale(a[0])),
                        "src" => bld.with_reg_dta_src(src(a[0])),
                        other => panic!("unknown acc setter {}", other),
                    };
                }
                res_unit(bld.write())
            }
            "int" => {
                let mut bld = dev.config_interrupts();
                for s in &setters {
                    let a = &s.args;
                    bld = match s.name {
                        "drdy" => bld.with_dta_rdy_int(t(a[0])),
                        "fwm" => bld.with_fwm_int(t(a[0])),
                        "ffull" => bld.with_ffull_int(t(a[0])),
                        "gen2" => bld.with_gen2_int(t(a[0])),
                        "gen1" => bld.with_gen1_int(t(a[0])),
                        "orient" => bld.with_orientch_int(t(a[0])),
                        "latch" => bld.with_latch_int(t(a[0])),
                        "actch" => bld.with_actch_int(t(a[0])),
                        "dtap" => bld.with_d_tap_int(t(a[0])),
                        "stap" => bld.with_s_tap_int(t(a[0])),
                        "step" => bld.with_step_int(t(a[0])),
                        other => panic!("unknown int setter {}", other),
                    };
                }
                res_unit(bld.write())
            }
            "pin" => {
                let mut bld = dev.config_int_pins();
                for s in &setters {
                    let a = &s.args;
                    bld = match s.name {
                        "drdy" => bld.with_drdy(pins(a[0])),
                        "fwm" => bld.with_fifo_wm(pins(a[0])),
                        "ffull" => bld.with_ffull(pins(a[0])),
                        "ovrrn" => bld.with_ieng_ovrrn(pins(a[0])),
                        "gen2" => bld.with_gen2(pins(a[0])),
                        "gen1" => bld.with_gen1(pins(a[0])),
                        "orient" => bld.with_orientch(pins(a[0])),
                        "wkup" => bld.with_wkup(pins(a[0])),
                        "actch" => bld.with_actch(pins(a[0])),
                        "tap" => bld.with_tap(pins(a[0])),
                        "step" => bld.with_step(pins(a[0])),
                        "int1" => bld.with_int1_cfg(pincfg(a[0])),
                        "int2" => bld.with_int2_cfg(pincfg(a[0])),
                        other => panic!("unknown pin setter {}", other),
                    };
                }
                res_unit(bld.write())
            }
            "fifo" => {
                let mut bld = dev.config_fifo();
                for s in &setters {
                    let a = &s.args;
                    bld = match s.name {
                        "rddis" => bld.with_read_disabled(t(a[0])),
                        "axes" => bld.with_axes(t(a[0]), t(a[1]), t(a[2])),
                        "8bit" => bld.with_8bit_mode(t(a[0])),
                        "src" => bld.with_src(src(a[0])),
                        "time" => bld.with_send_time_on_empty(t(a[0])),
                        "stop" => bld.with_stop_on_full(t(a[0])),
                        "flush" => bld.with_auto_flush(t(a[0])),
                        "wm" => bld.with_watermark_thresh(a[0] as u16),
                        other => panic!("unknown fifo setter {}", other),
                    };
                }
                res_unit(bld.write())
            }
            "alp" => {
                let mut bld = dev.config_auto_lp();
                for s in &setters {
                    let a = &s.args;
                    bld = match s.name {
                        "timeout" => bld.with_timeout(a[0] as u16),
                        "trig" => bld.with_auto_lp_trigger(alptrig(a[0])),
                        "gen1" => bld.with_gen1_int_trigger(t(a[0])),
                        "drdy" => bld.with_drdy_trigger(t(a[0])),
                        other => panic!("unknown alp setter {}", other),
                    };
                }
                res_unit(bld.write())
            }
            "awk" => {
                let mut bld = dev.config_autowkup();
                for s in &setters {
                    let a = &s.args;
                    bld = match s.name {
                        "period" => bld.with_wakeup_period(a[0] as u16),
                        "periodic" => bld.with_periodic_wakeup(t(a[0])),
                        "actint" => bld.with_activity_int(t(a[0])),
                        other => panic!("unknown awk setter {}", other),
                    };
                }
                res_unit(bld.write())
            }
            "wkup" => {
                let mut bld = dev.config_wkup_int();
                for s in &setters {
                    let a = &s.args;
                    bld = match s.name {
                        "ref" => bld.with_ref_mode(wkref(a[0])),
                        "n" => bld.with_num_samples(a[0] as u8),
                        "axes" => bld.with_axes(t(a[0]), t(a[1]), t(a[2])),
                        "thr" => bld.with_threshold(a[0] as u8),
                        "refacc" => bld.with_ref_accel(a[0] as i8, a[1] as i8, a[2] as i8),
                        other => panic!("unknown wkup setter {}", other),
                    };
                }
                res_unit(bld.write())
            }
            "ori" => {
                let mut bld = dev.config_orientchg_int();
                for s in &setters {
                    let a = &s.args;
                    bld = match s.name {
                        "axes" => bld.with_axes(t(a[0]), t(a[1]), t(a[2])),
                        "src" => bld.with_src(src(a[0])),
                        "ref" => bld.with_ref_mode(orref(a[0])),
                        "thr" => bld.with_threshold(a[0] as u8),
                        "dur" => bld.with_duration(a[0] as u8),
                        "refacc" => bld.with_ref_accel(a[0] as i16, a[1] as i16, a[2] as i16),
                        other => panic!("unknown ori setter {}", other),
                    };
                }
                res_unit(bld.write())
            }
            "gen1" => gen_setters!(dev.config_gen1_int(), &setters),
            "gen2" => gen_setters!(dev.config_gen2_int(), &setters),
            "act" => {
                let mut bld = dev.config_actchg_int();
                for s in &setters {
                    let a = &s.args;
                    bld = match s.name {
                        "thr" => bld.with_threshold(a[0] as u8),
                        "axes" => bld.with_axes(t(a[0]), t(a[1]), t(a[2])),
                        "src" => bld.with_src(src(a[0])),
                        "obs" => bld.with_obs_period(obs(a[0])),
                        other => panic!("unknown act setter {}", other),
                    };
                }
                res_unit(bld.write())
            }
            "tap" => {
                let mut bld = dev.config_tap();
                for s in &setters {
                    let a = &s.args;
                    bld = match s.name {
                        "axis" => bld.with_axis(axis(a[0])),
                        "sens" => bld.with_sensitivity(sens(a[0])),
                        "min" => bld.with_min_duration_btn_taps(mintap(a[0])),
                        "dtap" => bld.with_max_double_tap_window(dtap(a[0])),
                        "max" => bld.with_max_tap_duration(maxtap(a[0])),
                        other => panic!("unknown tap setter {}", other),
                    };
                }
                res_unit(bld.write())
            }
            other => panic!("unknown op {}", other),
        }
    }};
}

fn parse_hex(s: &str) -> Vec<u8> {
    (0..s.len() / 2).map(|i| u8::from_str_radix(&s[2 * i..2 * i + 2], 16).expect("hex")).collect()
}

fn parse_faults(tok: &str) -> Vec<usize> {
    let body = &tok[1..];
    if body.is_empty() {
        vec![]
    } else {
        body.split(',').map(|x| x.parse().expect("fault index")).collect()
    }
}

fn obs_line(quiet: bool, sim: &Shared, shadow: &Option<[(u8, u8); 57]>, result: &str) -> String {
    let s = sim.borrow();
    let dumps = if quiet {
        "-;-".to_string()
    } else {
        let sh = match shadow {
            Some(sh) => {
                // order by the canonical address list (also checks the hook's address set)
                let mut bytes = Vec::with_capacity(57);
                for a in CFG_ADDRS.iter() {
                    match sh.iter().find(|(x, _)| x == a) {
                        Some((_, v)) => bytes.push(*v),
                        None => return format!("{};hook-missing-addr-{:02x};-;-", result, a),
                    }
                }
                hex(&bytes)
            }
            None => hex(&CFG_ADDRS.iter().map(|a| match *a { 0x1A => 0x49, 0x24 => 0x22, 0x58 => 0x06, _ => 0 }).collect::<Vec<u8>>()),
        };
        format!("{};{}", sh, hex(&s.regs))
    };
    format!("{};{};{};{}", result, s.journal.join(" "), dumps, if s.cs_high { 1 } else { 0 })
}

macro_rules! run_ops {
    ($dev:expr, $sim:expr, $secs:expr, $quiet:expr, $out:expr) => {{
        let mut dev = $dev;
        for sec in $secs {
            let all: Vec<&str> = sec.split(' ').filter(|x| !x.is_empty()).collect();
            // `@pos=..`, `@neg=..`, `@rHH=VV`: what the DEVICE does by itself before this call
            // (new sensor responses, a read-only register changing) - no bus traffic
            for t in all.iter().filter(|x| x.starts_with('@')) {
                let mut s = $sim.borrow_mut();
                let (k, v) = t[1..].split_once('=').expect("env token");
                match k {
                    "pos" => s.pos = parse_hex(v),
                    "neg" => s.neg = parse_hex(v),
                    _ => {
                        let a = usize::from_str_radix(&k[1..], 16).expect("env register");
                        assert!(k.starts_with('r') && a < 0x19, "env register");
                        s.regs[a] = u8::from_str_radix(v, 16).expect("env value");
                    }
                }
            }
            let mut toks: Vec<&str> = all.into_iter().filter(|x| !x.starts_with('@')).collect();
            let mut faults = vec![];
            if let Some(last) = toks.last() {
                if last.starts_with('!') {
                    faults = parse_faults(last);
                    toks.pop();
                }
            }
            {
                let mut s = $sim.borrow_mut();
                s.idx = 0;
                s.fails = faults;
                s.journal.clear();
            }
            let r = catch_unwind(AssertUnwindSafe(|| run_op!(dev, $sim, &toks)));
            match r {
                Ok(res) => {
                    let sh = shadow_of!(dev);
                    $out.push(obs_line($quiet, &$sim, &sh, &res));
                }
                Err(_) => {
                    let sh = shadow_of!(dev);
                    $out.push(obs_line($quiet, &$sim, &sh, "panic"));
                    break;
                }
            }
        }
    }};
}

fn run_case(line: &str) -> String {
    let secs: Vec<&str> = line.split(" | ").collect();
    let head: Vec<&str> = secs[0].split(' ').filter(|x| !x.is_empty()).collect();
    let id = head[0];
    let ctor = head[1];
    let mut low = vec![0x90u8];
    let (mut pos, mut neg, mut fifo) = (vec![], vec![], vec![]);
    let mut quiet = false;
    let mut dummy = 0u8;
    let mut ctor_faults = vec![];
    for tok in &head[2..] {
        if *tok == "q" {
            quiet = true;
        } else if tok.starts_with('!') {
            ctor_faults = parse_faults(tok);
        } else if let Some(v) = tok.strip_prefix("low=") {
            low = parse_hex(v);
        } else if let Some(v) = tok.strip_prefix("pos=") {
            pos = parse_hex(v);
        } else if let Some(v) = tok.strip_prefix("neg=") {
            neg = parse_hex(v);
        } else if let Some(v) = tok.strip_prefix("fifo=") {
            fifo = parse_hex(v);
        } else if let Some(v) = tok.strip_prefix("dummy=") {
            dummy = u8::from_str_radix(v, 16).expect("dummy");
        } else if tok.starts_with("dev=") || tok.starts_with("fspec=") || tok.starts_with("ftail=") {
            // expected I2C address: used by the model only; the real address is journalled
        } else {
            panic!("bad header token {}", tok);
        }
    }
    if !HOOKS {
        assert!(quiet, "built without the verification hooks: quiet cases only");
    }
    let sim: Shared = Rc::new(RefCell::new(Sim::power_on(&low, pos, neg, fifo)));
    sim.borrow_mut().fails = ctor_faults;
    sim.borrow_mut().dummy = dummy;
    let mut out: Vec<String> = vec![id.to_string()];
    let ops = &secs[1..];
    match ctor {
        "i2c" => {
            let r = catch_unwind(AssertUnwindSafe(|| BMA400::new_i2c(SimI2c(sim.clone()))));
            match r {
                Ok(Ok(dev)) => {
                    out.push(obs_line(quiet, &sim, &shadow_of!(dev), "ok:"));
                    run_ops!(dev, sim, ops, quiet, out);
                }
                Ok(Err(e)) => out.push(obs_line(quiet, &sim, &None, &e.fmt_err())),
                Err(_) => out.push(obs_line(quiet, &sim, &None, "panic")),
            }
        }
        "spi" | "spi3" => {
            let r = catch_unwind(AssertUnwindSafe(|| {
                if ctor == "spi" {
                    BMA400::new_spi(SimSpi(sim.clone()), SimPin(sim.clone()))
                } else {
                    BMA400::new_spi_3wire(SimSpi(sim.clone()), SimPin(sim.clone()))
                }
            }));
            match r {
                Ok(Ok(dev)) => {
                    out.push(obs_line(quiet, &sim, &shadow_of!(dev), "ok:"));
                    run_ops!(dev, sim, ops, quiet, out);
                }
                Ok(Err(e)) => out.push(obs_line(quiet, &sim, &None, &e.fmt_err())),
                Err(_) => out.push(obs_line(quiet, &sim, &None, "panic")),
            }
        }
        other => panic!("bad ctor {}", other),
    }
    out.join(" | ")
}

fn main() {
    let args: Vec<String> = std::env::args().collect();
    if args.len() < 2 || args[1] != "run" {
        eprintln!("usage: harness run < cases");
        std::process::exit(2);
    }
    // panics are expected observations, keep stderr quiet
    std::panic::set_hook(Box::new(|_| {}));
    let stdin = std::io::stdin();
    let stdout = std::io::stdout();
    let mut w = BufWriter::new(stdout.lock());
    for line in stdin.lock().lines() {
        let line = line.expect("read");
        let line = line.trim();
        if line.is_empty() {
            continue;
        }
        let res = catch_unwind(AssertUnwindSafe(|| run_case(line)));
        match res {
            Ok(s) => writeln!(w, "{}", s).unwrap(),
            Err(_) => writeln!(w, "harness-error {}", line).unwrap(),
        }
        // one observation per line, visible at once: the driver of this harness attributes a
        // call that never returns to the first case without an observation
        w.flush().unwrap();
    }
}
