import Bma400.Proto
open Bma400 Proto

partial def loop (h : IO.FS.Stream) (out : IO.FS.Stream) (f : String → String) : IO Unit := do
  let line ← h.getLine
  if line.isEmpty then return ()
  let l := line.trimAscii.toString
  if !l.isEmpty then out.putStrLn (f l)
  loop h out f

def runLine (l : String) : String :=
  match parseCase l with
  | some c => runCase c
  | none => "bad-case " ++ l

def main (args : List String) : IO UInt32 := do
  let stdin ← IO.getStdin
  let stdout ← IO.getStdout
  match args with
  | ["run"] => loop stdin stdout runLine; return 0
  | _ => IO.eprintln "usage: bma400model run < cases"; return 2
