import Bma400.Proto
import Bma400.Judge
open Bma400 Proto

partial def loop (h : IO.FS.Stream) (out : IO.FS.Stream) (f : String → String) : IO Unit := do
  let line ← h.getLine
  if line.isEmpty then return ()
  let l := (line.dropEndWhile (fun c => c == '\n' || c == '\r')).toString
  if !l.isEmpty then out.putStrLn (f l)
  loop h out f

def runLine (l : String) : String :=
  match parseCase l with
  | some c => runCase c
  | none => "bad-case " ++ l

def main (args : List String) : IO UInt32 := do
  let stdin ← IO.getStdin
  let stdout ← IO.getStdout
  match args with
  | ["run"] => loop stdin stdout runLine; return 0
  | ["judge"] => loop stdin stdout Judge.judgeLine; return 0
  | ["accs"] => loop stdin stdout Judge.accsLine; return 0
  | ["step"] => loop stdin stdout Judge.stepLine; return 0
  | _ => IO.eprintln "usage: bma400model run < cases"; return 2
