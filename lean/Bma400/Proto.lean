/-
  Line protocol shared with the Rust harness: parsing of case lines, printing of
  observations.  One case per line in, one observation line out.
-/
import Bma400.Driver
namespace Bma400
namespace Proto

def hexDigit (c : Char) : Option Nat :=
  if '0' ≤ c ∧ c ≤ '9' then some (c.toNat - '0'.toNat)
  else if 'a' ≤ c ∧ c ≤ 'f' then some (c.toNat - 'a'.toNat + 10)
  else if 'A' ≤ c ∧ c ≤ 'F' then some (c.toNat - 'A'.toNat + 10)
  else none

def parseHexNat (s : String) : Option Nat :=
  if s.isEmpty then none
  else s.toList.foldl (fun acc c => do let a ← acc; let d ← hexDigit c; pure (a * 16 + d)) (some 0)

def parseHexBytes (s : String) : Option (List Byte) :=
  let rec go : List Char → Option (List Byte)
    | [] => some []
    | [_] => none
    | a :: b :: rest => do
      let x ← hexDigit a; let y ← hexDigit b
      let r ← go rest
      pure (BitVec.ofNat 8 (x * 16 + y) :: r)
  go s.toList

def hexChar (n : Nat) : Char := if n < 10 then Char.ofNat (48 + n) else Char.ofNat (87 + n)
def hexByte (b : Byte) : String := String.ofList [hexChar (b.toNat / 16), hexChar (b.toNat % 16)]
def hexBytes (l : List Byte) : String := String.join (l.map hexByte)
def hexNat2 (n : Nat) : String := hexByte (BitVec.ofNat 8 n)

def splitArgs (s : String) : List String := if s.isEmpty then [] else s.splitOn ","

def ints (s : String) : Option (List Int) := (splitArgs s).mapM String.toInt?

def toBool : Int → Option Bool | 0 => some false | 1 => some true | _ => none

def enumOf {α} (l : List α) (i : Int) : Option α := if i < 0 then none else l[i.toNat]?

def ePowerMode := enumOf [PowerMode.sleep, .lowPower, .normal]
def eOSR := enumOf [OSR.osr0, .osr1, .osr2, .osr3]
def eBw := enumOf [Filt1Bw.high, .low]
def eODR := enumOf [ODR.hz12_5, .hz25, .hz50, .hz100, .hz200, .hz400, .hz800]
def eScale := enumOf [Scale.r2g, .r4g, .r8g, .r16g]
def eSrc := enumOf [DataSource.filt1, .filt2, .filt2Lp]
def ePins := enumOf [IntPins.none, .int1, .int2, .both]
def ePinCfg := enumOf [PinCfg.pushPull .activeLow, .pushPull .activeHigh, .openDrain .activeLow,
  .openDrain .activeHigh]
def eAlpTrig := enumOf [AutoLpTrig.disabled, .noReset, .gen2Reset]
def eWkRef := enumOf [WkupRefMode.manual, .oneTime, .everyTime]
def eOrRef := enumOf [OrientRefMode.manual, .filt2, .filt2Lp]
def eObs := enumOf [ObsPeriod.s32, .s64, .s128, .s256, .s512]
def eSens := enumOf [TapSens.s0, .s1, .s2, .s3, .s4, .s5, .s6, .s7]
def eAxis := enumOf [Axis.x, .y, .z]
def eMinTap := enumOf [MinTapDur.s4, .s8, .s12, .s16]
def eDTap := enumOf [DTapDur.s60, .s80, .s100, .s120]
def eMaxTap := enumOf [MaxTapDur.s6, .s9, .s12, .s18]
def eGenRef := enumOf [GenRefMode.manual, .oneTime, .everyTimeSrc, .everyTimeLp]
def eHyst := enumOf [Hyst.none, .h24, .h48, .h96]
def eCrit := enumOf [Criterion.inactivity, .activity]
def eLogic := enumOf [Logic.or, .and]

def byteOf (i : Int) : Option Byte := if 0 ≤ i ∧ i < 256 then some (BitVec.ofNat 8 i.toNat) else none
def u16Of (i : Int) : Option Nat := if 0 ≤ i ∧ i < 65536 then some i.toNat else none
def i8Of (i : Int) : Option Int := if -128 ≤ i ∧ i < 128 then some i else none
def i16Of (i : Int) : Option Int := if -32768 ≤ i ∧ i < 32768 then some i else none

def bool3 : List Int → Option (Bool × Bool × Bool)
  | [x, y, z] => do pure (← toBool x, ← toBool y, ← toBool z)
  | _ => none

/-- split "name:args" -/
def nameArgs (tok : String) : String × String :=
  match tok.splitOn ":" with
  | [n] => (n, "")
  | n :: rest => (n, ":".intercalate rest)
  | [] => ("", "")

def pAcc (n : String) (a : List Int) : Option AccSetter :=
  match n, a with
  | "pm", [i] => (ePowerMode i).map .powerMode
  | "osrlp", [i] => (eOSR i).map .osrLp
  | "bw", [i] => (eBw i).map .filt1Bw
  | "odr", [i] => (eODR i).map .odr
  | "osr", [i] => (eOSR i).map .osr
  | "scale", [i] => (eScale i).map .scale
  | "src", [i] => (eSrc i).map .regDtaSrc
  | _, _ => none

def pInt (n : String) (a : List Int) : Option IntSetter :=
  match n, a with
  | "drdy", [i] => (toBool i).map .dtaRdy
  | "fwm", [i] => (toBool i).map .fwm
  | "ffull", [i] => (toBool i).map .ffull
  | "gen2", [i] => (toBool i).map .gen2
  | "gen1", [i] => (toBool i).map .gen1
  | "orient", [i] => (toBool i).map .orientch
  | "latch", [i] => (toBool i).map .latch
  | "actch", [i] => (toBool i).map .actch
  | "dtap", [i] => (toBool i).map .dTap
  | "stap", [i] => (toBool i).map .sTap
  | "step", [i] => (toBool i).map .step
  | _, _ => none

def pPin (n : String) (a : List Int) : Option PinSetter :=
  match n, a with
  | "drdy", [i] => (ePins i).map .drdy
  | "fwm", [i] => (ePins i).map .fifoWm
  | "ffull", [i] => (ePins i).map .ffull
  | "ovrrn", [i] => (ePins i).map .iengOvrrn
  | "gen2", [i] => (ePins i).map .gen2
  | "gen1", [i] => (ePins i).map .gen1
  | "orient", [i] => (ePins i).map .orientch
  | "wkup", [i] => (ePins i).map .wkup
  | "actch", [i] => (ePins i).map .actch
  | "tap", [i] => (ePins i).map .tap
  | "step", [i] => (ePins i).map .step
  | "int1", [i] => (ePinCfg i).map .int1Cfg
  | "int2", [i] => (ePinCfg i).map .int2Cfg
  | _, _ => none

def pFifo (n : String) (a : List Int) : Option FifoSetter :=
  match n, a with
  | "rddis", [i] => (toBool i).map .readDisabled
  | "axes", l => (bool3 l).map (fun (x, y, z) => .axes x y z)
  | "8bit", [i] => (toBool i).map .eightBit
  | "src", [i] => (eSrc i).map .src
  | "time", [i] => (toBool i).map .sendTimeOnEmpty
  | "stop", [i] => (toBool i).map .stopOnFull
  | "flush", [i] => (toBool i).map .autoFlush
  | "wm", [i] => (u16Of i).map .watermark
  | _, _ => none

def pAlp (n : String) (a : List Int) : Option AlpSetter :=
  match n, a with
  | "timeout", [i] => (u16Of i).map .timeout
  | "trig", [i] => (eAlpTrig i).map .trigger
  | "gen1", [i] => (toBool i).map .gen1Trig
  | "drdy", [i] => (toBool i).map .drdyTrig
  | _, _ => none

def pAwk (n : String) (a : List Int) : Option AwkSetter :=
  match n, a with
  | "period", [i] => (u16Of i).map .period
  | "periodic", [i] => (toBool i).map .periodic
  | "actint", [i] => (toBool i).map .activityInt
  | _, _ => none

def pWkup (n : String) (a : List Int) : Option WkupSetter :=
  match n, a with
  | "ref", [i] => (eWkRef i).map .refMode
  | "n", [i] => (byteOf i).map .numSamples
  | "axes", l => (bool3 l).map (fun (x, y, z) => .axes x y z)
  | "thr", [i] => (byteOf i).map .threshold
  | "refacc", [x, y, z] => do pure (.refAccel (← i8Of x) (← i8Of y) (← i8Of z))
  | _, _ => none

def pOri (n : String) (a : List Int) : Option OriSetter :=
  match n, a with
  | "axes", l => (bool3 l).map (fun (x, y, z) => .axes x y z)
  | "src", [i] => (eSrc i).map .src
  | "ref", [i] => (eOrRef i).map .refMode
  | "thr", [i] => (byteOf i).map .threshold
  | "dur", [i] => (byteOf i).map .duration
  | "refacc", [x, y, z] => do pure (.refAccel (← i16Of x) (← i16Of y) (← i16Of z))
  | _, _ => none

def pGen (n : String) (a : List Int) : Option GenSetter :=
  match n, a with
  | "axes", l => (bool3 l).map (fun (x, y, z) => .axes x y z)
  | "src", [i] => (eSrc i).map .src
  | "ref", [i] => (eGenRef i).map .refMode
  | "hyst", [i] => (eHyst i).map .hysteresis
  | "crit", [i] => (eCrit i).map .criterion
  | "logic", [i] => (eLogic i).map .logic
  | "thr", [i] => (byteOf i).map .threshold
  | "dur", [i] => (u16Of i).map .duration
  | "refacc", [x, y, z] => do pure (.refAccel (← i16Of x) (← i16Of y) (← i16Of z))
  | _, _ => none

def pAct (n : String) (a : List Int) : Option ActSetter :=
  match n, a with
  | "thr", [i] => (byteOf i).map .threshold
  | "axes", l => (bool3 l).map (fun (x, y, z) => .axes x y z)
  | "src", [i] => (eSrc i).map .src
  | "obs", [i] => (eObs i).map .obsPeriod
  | _, _ => none

def pTap (n : String) (a : List Int) : Option TapSetter :=
  match n, a with
  | "axis", [i] => (eAxis i).map .axis
  | "sens", [i] => (eSens i).map .sensitivity
  | "min", [i] => (eMinTap i).map .minDur
  | "dtap", [i] => (eDTap i).map .dtapDur
  | "max", [i] => (eMaxTap i).map .maxDur
  | _, _ => none

def pSetters {α} (p : String → List Int → Option α) (toks : List String) : Option (List α) :=
  toks.mapM (fun t => do
    let (n, a) := nameArgs t
    p n (← ints a))

/-- faults token "!0,3" -/
def parseFaults (tok : String) : Option (List Nat) :=
  if tok.startsWith "!" then (splitArgs (tok.drop 1).toString).mapM String.toNat? else none

/-- separate a trailing faults token -/
def splitFaults (toks : List String) : Option (List String × List Nat) :=
  match toks.getLast? with
  | some l => if l.startsWith "!" then do pure (toks.dropLast, ← parseFaults l) else pure (toks, [])
  | none => pure ([], [])

def parseOp (toks : List String) : Option Op :=
  match toks with
  | [] => none
  | h :: rest =>
    let (n, a) := nameArgs h
    match n with
    | "id" => some .getId | "cmderr" => some .getCmdError | "status" => some .getStatus
    | "unscaled" => some .getUnscaled | "data" => some .getData | "clock" => some .getSensorClock
    | "resetstat" => some .getResetStatus | "is0" => some .getIntStatus0 | "is1" => some .getIntStatus1
    | "is2" => some .getIntStatus2 | "fifolen" => some .getFifoLen
    | "rfifo" => a.toNat?.map .readFifo
    | "flush" => some .flushFifo | "steps" => some .getStepCount | "clrsteps" => some .clearStepCount
    | "activity" => some .getStepActivity | "rawtemp" => some .getRawTemp | "celsius" => some .getTempCelsius
    | "selftest" => some .selfTest | "reset" => some .softReset
    | "acc" => (pSetters pAcc rest).map (.config ∘ .acc)
    | "int" => (pSetters pInt rest).map (.config ∘ .int)
    | "pin" => (pSetters pPin rest).map (.config ∘ .pin)
    | "fifo" => (pSetters pFifo rest).map (.config ∘ .fifo)
    | "alp" => (pSetters pAlp rest).map (.config ∘ .alp)
    | "awk" => (pSetters pAwk rest).map (.config ∘ .awk)
    | "wkup" => (pSetters pWkup rest).map (.config ∘ .wkup)
    | "ori" => (pSetters pOri rest).map (.config ∘ .ori)
    | "gen1" => (pSetters pGen rest).map (.config ∘ .gen .g1)
    | "gen2" => (pSetters pGen rest).map (.config ∘ .gen .g2)
    | "act" => (pSetters pAct rest).map (.config ∘ .act)
    | "tap" => (pSetters pTap rest).map (.config ∘ .tap)
    | _ => none

structure Env where
  pos : Option (List Byte) := none
  neg : Option (List Byte) := none
  pokes : List (Nat × Byte) := []

structure Case where
  id : String
  ctor : Ctor
  dev : Nat
  low : List Byte        -- registers 0x00..0x18
  pos : List Byte
  neg : List Byte
  fifo : List Byte
  dummy : Byte := 0#8
  quiet : Bool
  /-- frame specifications the FIFO content was encoded from (C04 streams only) -/
  fspec : Option String := none
  ftail : String := "none"
  ctorFaults : List Nat
  ops : List (Op × List Nat)
  /-- per operation: what the DEVICE does by itself before the call (`@pos=`, `@neg=`: new sensor
      responses; `@rHH=VV`: a read-only register below 0x19 changes) - no bus traffic, not an API call -/
  envs : List Env := []

/-- sensor responses in force at operation k (0-based): the last `@pos=` / `@neg=` up to and including k -/
def Case.posAt (c : Case) (k : Nat) : List Byte := (c.envs.take (k + 1)).foldl (fun acc e => e.pos.getD acc) c.pos
def Case.negAt (c : Case) (k : Nat) : List Byte := (c.envs.take (k + 1)).foldl (fun acc e => e.neg.getD acc) c.neg
def Case.pokesAt (c : Case) (k : Nat) : List (Nat × Byte) := (c.envs.getD k {}).pokes
def poke (r : Regs) (ps : List (Nat × Byte)) : Regs := ps.foldl (fun r p => r.set p.1 p.2) r

def words (s : String) : List String := (s.splitOn " ").filter (· ≠ "")

def parseHeader (toks : List String) : Option Case := do
  let id ← toks[0]?
  let ctor ← match toks[1]? with
    | some "i2c" => some Ctor.newI2c | some "spi" => some Ctor.newSpi | some "spi3" => some Ctor.newSpi3
    | _ => none
  let init : Case := { id := id, ctor := ctor, dev := 0x14, low := [0x90#8], pos := [], neg := [], fifo := [],
                       quiet := false, ctorFaults := [], ops := [] }
  (toks.drop 2).foldlM (fun (c : Case) t =>
    if t = "q" then some { c with quiet := true }
    else if t.startsWith "!" then do pure { c with ctorFaults := ← parseFaults t }
    else
      match t.splitOn "=" with
      | ["dev", v] => do pure { c with dev := ← parseHexNat v }
      | ["low", v] => do pure { c with low := ← parseHexBytes v }
      | ["pos", v] => do pure { c with pos := ← parseHexBytes v }
      | ["neg", v] => do pure { c with neg := ← parseHexBytes v }
      | ["fifo", v] => do pure { c with fifo := ← parseHexBytes v }
      | ["dummy", v] => do pure { c with dummy := BitVec.ofNat 8 (← parseHexNat v) }
      | ["fspec", v] => pure { c with fspec := some v }
      | ["ftail", v] => pure { c with ftail := v }
      | _ => none) init

def parseCase (line : String) : Option Case := do
  let secs := line.splitOn " | "
  let hd ← secs.head?
  let c ← parseHeader (words hd)
  let ops ← (secs.drop 1).mapM (fun s => do
    let (toks, f) ← splitFaults ((words s).filter (fun t => !t.startsWith "@"))
    pure (← parseOp toks, f))
  let envs ← (secs.drop 1).mapM (fun s =>
    ((words s).filter (·.startsWith "@")).foldlM (fun (e : Env) t =>
      match (t.drop 1).toString.splitOn "=" with
      | ["pos", v] => do pure { e with pos := some (← parseHexBytes v) }
      | ["neg", v] => do pure { e with neg := some (← parseHexBytes v) }
      | [r, v] =>
        if r.startsWith "r" then do
          let a ← parseHexNat (r.drop 1).toString
          let b ← parseHexNat v
          if a < 0x19 then pure { e with pokes := e.pokes ++ [(a, BitVec.ofNat 8 b)] } else none
        else none
      | _ => none) ({} : Env))
  pure { c with ops := ops, envs := envs }

/-! ### printing -/

def fmtErr : Err → String
  | .io i => s!"err:io:{i}"
  | .pin i => s!"err:pin:{i}"
  | .cfg .filt1Odr => "err:cfg:filt1"
  | .cfg .tapOdr => "err:cfg:tap"
  | .cfg .fifoPwr => "err:cfg:fifopwr"
  | .chipId => "err:chipid"
  | .selfTest => "err:selftest"

def fmtOutcome : Outcome → String
  | .ok v => s!"ok:{v}"
  | .err e => fmtErr e
  | .panic => "panic"

def fmtSent (l : List Byte) : String :=
  if l.length > 2 ∧ l.all (· == 0#8) then s!"z{l.length}" else hexBytes l

def fmtRaw : Raw → String
  | .i2cWrite d b => s!"iw{hexNat2 d}:{hexBytes b}"
  | .i2cWriteRead d o n => s!"ir{hexNat2 d}:{hexBytes o}:{n}"
  | .csLow => "L"
  | .csHigh => "H"
  | .spiWrite b => s!"sw:{hexBytes b}"
  | .spiTransfer b => s!"st:{fmtSent b}"
  | .delay ms => s!"d{ms}"

def fmtJournal (j : List JEntry) : String :=
  " ".intercalate (j.map (fun e => fmtRaw e.raw ++ (if e.ok then "" else "!")))

def fmtShadow (sh : Regs) : String := hexBytes (DS.cfgAddrs.map sh)
def fmtChip (c : Chip) : String := hexBytes ((List.range 128).map c.regs)

def fmtObs (quiet : Bool) (j : List JEntry) (w : World) (o : Outcome) : String :=
  let dumps := if quiet then "-;-" else s!"{fmtShadow w.shadow};{fmtChip w.chip}"
  s!"{fmtOutcome o};{fmtJournal j};{dumps};{if w.chip.csHigh then 1 else 0}"

def failsOf (l : List Nat) : Nat → Bool := fun i => l.contains i

/-- register file backed by an array (only used to keep long programs fast) -/
def ofArray (arr : Array Byte) : Regs := fun a => arr.getD a 0#8
/-- the first 128 registers of `r` as an array -/
def toArray (r : Regs) : Array Byte := Array.ofFn (n := 128) (fun i => r i.val)

def runCase (c : Case) : String :=
  let chip := Chip.powerOn (fun a => c.low.getD a 0#8) c.pos c.neg c.fifo c.dummy
  let (j, w, o) := runCtor c.dev (failsOf c.ctorFaults) chip c.ctor
  let first := fmtObs c.quiet j w o
  match o with
  | .ok _ =>
    let t := c.ctor.transport c.dev
    let (_, outs) := c.ops.foldl (fun (acc : World × List String) (opf : Op × List Nat) =>
      let (w, outs) := acc
      let k := outs.length
      let w := { w with chip := { w.chip with pos := c.posAt k, neg := c.negAt k, regs := poke w.chip.regs (c.pokesAt k) } }
      let (j, w', o) := runOp t (failsOf opf.2) w opf.1
      -- compact the closure chains (evaluated here, strictly, once per operation);
      -- no address ≥ 128 is ever read or written
      let ca := toArray w'.chip.regs
      let sa := toArray w'.shadow
      let w' := { w' with chip := { w'.chip with regs := ofArray ca }, shadow := ofArray sa }
      (w', outs ++ [fmtObs c.quiet j w' o])) (w, [])
    " | ".intercalate (c.id :: first :: outs)
  | _ => " | ".intercalate [c.id, first]

end Proto
end Bma400
