/-
  INDEPENDENT SPECIFICATION, transcribed from the Bosch BMA400 datasheet
  (register map chapter 5, FIFO chapter 4.7, self-test 4.9, interfaces 6) - not
  from src/registers.rs.  It is the reference the model of the code is proved
  against: register addresses, reset values, bit fields and their codes,
  command codes, self-test thresholds.
-/
import Bma400.Basic
namespace Bma400
namespace DS

/-- a bit field of a configuration register -/
structure Field where
  addr : Nat
  mask : Byte
  shift : Nat
  deriving DecidableEq, Repr

/-- datasheet meaning of "set field f to code c": only the field's bits change -/
def Field.put (f : Field) (code : Nat) (r : Regs) : Regs :=
  fun x => if x = f.addr then (r x &&& ~~~f.mask) ||| ((BitVec.ofNat 8 code <<< f.shift) &&& f.mask) else r x

theorem Field.put_eq_set (f : Field) (code : Nat) (r : Regs) :
    f.put code r = r.set f.addr ((r f.addr &&& ~~~f.mask) ||| ((BitVec.ofNat 8 code <<< f.shift) &&& f.mask)) := by
  funext x; unfold Field.put Regs.set; split <;> simp_all

def Field.get (f : Field) (r : Regs) : Nat := ((r f.addr &&& f.mask) >>> f.shift).toNat

/-! ### register addresses -/
def CHIP_ID := 0x00
def ERR_REG := 0x02
def STATUS := 0x03
def ACC_X_LSB := 0x04
def SENSOR_TIME0 := 0x0A
def EVENT := 0x0D
def INT_STAT0 := 0x0E
def INT_STAT1 := 0x0F
def INT_STAT2 := 0x10
def TEMP_DATA := 0x11
def FIFO_LENGTH0 := 0x12
def FIFO_DATA := 0x14
def STEP_CNT0 := 0x15
def STEP_STAT := 0x18
def ACC_CONFIG0 := 0x19
def ACC_CONFIG1 := 0x1A
def ACC_CONFIG2 := 0x1B
def INT_CONFIG0 := 0x1F
def INT_CONFIG1 := 0x20
def INT1_MAP := 0x21
def INT2_MAP := 0x22
def INT12_MAP := 0x23
def INT12_IO_CTRL := 0x24
def FIFO_CONFIG0 := 0x26
def FIFO_CONFIG1 := 0x27
def FIFO_CONFIG2 := 0x28
def FIFO_PWR_CONFIG := 0x29
def AUTOLOWPOW_0 := 0x2A
def AUTOLOWPOW_1 := 0x2B
def AUTOWAKEUP_0 := 0x2C
def AUTOWAKEUP_1 := 0x2D
def WKUP_INT_CONFIG0 := 0x2F
def WKUP_INT_CONFIG1 := 0x30
def WKUP_INT_CONFIG2 := 0x31
def WKUP_INT_CONFIG3 := 0x32
def WKUP_INT_CONFIG4 := 0x33
def ORIENTCH_CONFIG0 := 0x35
def ORIENTCH_CONFIG1 := 0x36
def ORIENTCH_CONFIG3 := 0x38
def ORIENTCH_CONFIG4 := 0x39
def GEN1INT_CONFIG0 := 0x3F
def GEN2INT_CONFIG0 := 0x4A
def ACTCH_CONFIG0 := 0x55
def ACTCH_CONFIG1 := 0x56
def TAP_CONFIG := 0x57
def TAP_CONFIG1 := 0x58
def IF_CONF := 0x7C
def SELF_TEST := 0x7D
def CMD := 0x7E

/-- command codes (datasheet 5.  CMD register) -/
def CMD_FIFO_FLUSH : Byte := 0xB0#8
def CMD_STEP_CNT_CLEAR : Byte := 0xB1#8
def CMD_SOFTRESET : Byte := 0xB6#8

def CHIP_ID_VALUE : Byte := 0x90#8

/-- I2C device addresses (SDO low / SDO high) -/
def I2C_ADDR_DEFAULT := 0x14
def I2C_ADDR_ALT := 0x15

/-- the 57 writable configuration registers the driver keeps a record of,
    in address order -/
def cfgAddrs : List Nat :=
  [0x19, 0x1A, 0x1B, 0x1F, 0x20, 0x21, 0x22, 0x23, 0x24, 0x26, 0x27, 0x28, 0x29,
   0x2A, 0x2B, 0x2C, 0x2D, 0x2F, 0x30, 0x31, 0x32, 0x33,
   0x35, 0x36, 0x38, 0x39, 0x3A, 0x3B, 0x3C, 0x3D, 0x3E,
   0x3F, 0x40, 0x41, 0x42, 0x43, 0x44, 0x45, 0x46, 0x47, 0x48, 0x49,
   0x4A, 0x4B, 0x4C, 0x4D, 0x4E, 0x4F, 0x50, 0x51, 0x52, 0x53, 0x54,
   0x55, 0x56, 0x57, 0x58]

/-- power-on / soft-reset value of every register at 0x19 and above -/
def resetVal (a : Nat) : Byte :=
  if a = 0x1A then 0x49#8 else if a = 0x24 then 0x22#8 else if a = 0x58 then 0x06#8 else 0#8

/-- bits of each configuration register that the datasheet defines (all others are reserved) -/
def definedMask (a : Nat) : Byte :=
  match a with
  | 0x19 => 0xE3#8 | 0x1A => 0xFF#8 | 0x1B => 0x0C#8
  | 0x1F => 0xEE#8 | 0x20 => 0x9D#8
  | 0x21 => 0xFF#8 | 0x22 => 0xFF#8 | 0x23 => 0xDD#8 | 0x24 => 0x66#8
  | 0x26 => 0xFF#8 | 0x27 => 0xFF#8 | 0x28 => 0x07#8 | 0x29 => 0x01#8
  | 0x2A => 0xFF#8 | 0x2B => 0xFF#8 | 0x2C => 0xFF#8 | 0x2D => 0xF6#8
  | 0x2F => 0xFF#8 | 0x30 => 0xFF#8 | 0x31 => 0xFF#8 | 0x32 => 0xFF#8 | 0x33 => 0xFF#8
  | 0x35 => 0xFC#8 | 0x36 => 0xFF#8 | 0x38 => 0xFF#8
  | 0x39 => 0xFF#8 | 0x3A => 0x0F#8 | 0x3B => 0xFF#8 | 0x3C => 0x0F#8 | 0x3D => 0xFF#8 | 0x3E => 0x0F#8
  | 0x3F => 0xFF#8 | 0x40 => 0x03#8 | 0x41 => 0xFF#8 | 0x42 => 0xFF#8 | 0x43 => 0xFF#8
  | 0x44 => 0xFF#8 | 0x45 => 0x0F#8 | 0x46 => 0xFF#8 | 0x47 => 0x0F#8 | 0x48 => 0xFF#8 | 0x49 => 0x0F#8
  | 0x4A => 0xFF#8 | 0x4B => 0x03#8 | 0x4C => 0xFF#8 | 0x4D => 0xFF#8 | 0x4E => 0xFF#8
  | 0x4F => 0xFF#8 | 0x50 => 0x0F#8 | 0x51 => 0xFF#8 | 0x52 => 0x0F#8 | 0x53 => 0xFF#8 | 0x54 => 0x0F#8
  | 0x55 => 0xFF#8 | 0x56 => 0xFF#8 | 0x57 => 0x1F#8 | 0x58 => 0x3F#8
  | 0x7C => 0x01#8 | 0x7D => 0x0F#8
  | _ => 0#8

/-! ### bit fields -/
namespace F
def filt1_bw : Field := ⟨0x19, 0x80#8, 7⟩
def osr_lp : Field := ⟨0x19, 0x60#8, 5⟩
def power_mode : Field := ⟨0x19, 0x03#8, 0⟩
def acc_range : Field := ⟨0x1A, 0xC0#8, 6⟩
def osr : Field := ⟨0x1A, 0x30#8, 4⟩
def acc_odr : Field := ⟨0x1A, 0x0F#8, 0⟩
def data_src_reg : Field := ⟨0x1B, 0x0C#8, 2⟩
-- INT_CONFIG0
def drdy_int_en : Field := ⟨0x1F, 0x80#8, 7⟩
def fwm_int_en : Field := ⟨0x1F, 0x40#8, 6⟩
def ffull_int_en : Field := ⟨0x1F, 0x20#8, 5⟩
def gen2_int_en : Field := ⟨0x1F, 0x08#8, 3⟩
def gen1_int_en : Field := ⟨0x1F, 0x04#8, 2⟩
def orientch_int_en : Field := ⟨0x1F, 0x02#8, 1⟩
-- INT_CONFIG1
def latch_int : Field := ⟨0x20, 0x80#8, 7⟩
def actch_int_en : Field := ⟨0x20, 0x10#8, 4⟩
def d_tap_int_en : Field := ⟨0x20, 0x08#8, 3⟩
def s_tap_int_en : Field := ⟨0x20, 0x04#8, 2⟩
def step_int_en : Field := ⟨0x20, 0x01#8, 0⟩
-- INT1_MAP / INT2_MAP (same layout; `a` = 0x21 or 0x22)
def map_drdy (a : Nat) : Field := ⟨a, 0x80#8, 7⟩
def map_fwm (a : Nat) : Field := ⟨a, 0x40#8, 6⟩
def map_ffull (a : Nat) : Field := ⟨a, 0x20#8, 5⟩
def map_ieng_ovrun (a : Nat) : Field := ⟨a, 0x10#8, 4⟩
def map_gen2 (a : Nat) : Field := ⟨a, 0x08#8, 3⟩
def map_gen1 (a : Nat) : Field := ⟨a, 0x04#8, 2⟩
def map_orientch (a : Nat) : Field := ⟨a, 0x02#8, 1⟩
def map_wkup (a : Nat) : Field := ⟨a, 0x01#8, 0⟩
-- INT12_MAP
def actch_int2 : Field := ⟨0x23, 0x80#8, 7⟩
def tap_int2 : Field := ⟨0x23, 0x40#8, 6⟩
def step_int2 : Field := ⟨0x23, 0x10#8, 4⟩
def actch_int1 : Field := ⟨0x23, 0x08#8, 3⟩
def tap_int1 : Field := ⟨0x23, 0x04#8, 2⟩
def step_int1 : Field := ⟨0x23, 0x01#8, 0⟩
-- INT12_IO_CTRL
def int2_od : Field := ⟨0x24, 0x40#8, 6⟩
def int2_lvl : Field := ⟨0x24, 0x20#8, 5⟩
def int1_od : Field := ⟨0x24, 0x04#8, 2⟩
def int1_lvl : Field := ⟨0x24, 0x02#8, 1⟩
-- FIFO
def fifo_z_en : Field := ⟨0x26, 0x80#8, 7⟩
def fifo_y_en : Field := ⟨0x26, 0x40#8, 6⟩
def fifo_x_en : Field := ⟨0x26, 0x20#8, 5⟩
def fifo_8bit_en : Field := ⟨0x26, 0x10#8, 4⟩
def fifo_data_src : Field := ⟨0x26, 0x08#8, 3⟩
def fifo_time_en : Field := ⟨0x26, 0x04#8, 2⟩
def fifo_stop_on_full : Field := ⟨0x26, 0x02#8, 1⟩
def auto_flush : Field := ⟨0x26, 0x01#8, 0⟩
def fifo_wm_lsb : Field := ⟨0x27, 0xFF#8, 0⟩
def fifo_wm_msb : Field := ⟨0x28, 0x07#8, 0⟩
def fifo_read_disable : Field := ⟨0x29, 0x01#8, 0⟩
-- auto low power
def auto_lp_timeout_thres_msb : Field := ⟨0x2A, 0xFF#8, 0⟩   -- bits 11:4
def auto_lp_timeout_thres_lsb : Field := ⟨0x2B, 0xF0#8, 4⟩   -- bits 3:0
def auto_lp_timeout : Field := ⟨0x2B, 0x0C#8, 2⟩
def gen1_int_trig : Field := ⟨0x2B, 0x02#8, 1⟩
def drdy_lowpow_trig : Field := ⟨0x2B, 0x01#8, 0⟩
-- auto wake-up
def wakeup_timeout_thres_msb : Field := ⟨0x2C, 0xFF#8, 0⟩
def wakeup_timeout_thres_lsb : Field := ⟨0x2D, 0xF0#8, 4⟩
def wkup_timeout : Field := ⟨0x2D, 0x04#8, 2⟩
def wkup_int : Field := ⟨0x2D, 0x02#8, 1⟩
-- wake-up interrupt
def wkup_z_en : Field := ⟨0x2F, 0x80#8, 7⟩
def wkup_y_en : Field := ⟨0x2F, 0x40#8, 6⟩
def wkup_x_en : Field := ⟨0x2F, 0x20#8, 5⟩
def wkup_num_of_samples : Field := ⟨0x2F, 0x1C#8, 2⟩
def wkup_refu : Field := ⟨0x2F, 0x03#8, 0⟩
def wkup_int_thres : Field := ⟨0x30, 0xFF#8, 0⟩
def wkup_refx : Field := ⟨0x31, 0xFF#8, 0⟩
def wkup_refy : Field := ⟨0x32, 0xFF#8, 0⟩
def wkup_refz : Field := ⟨0x33, 0xFF#8, 0⟩
-- orientation change
def orient_z_en : Field := ⟨0x35, 0x80#8, 7⟩
def orient_y_en : Field := ⟨0x35, 0x40#8, 6⟩
def orient_x_en : Field := ⟨0x35, 0x20#8, 5⟩
def orient_data_src : Field := ⟨0x35, 0x10#8, 4⟩
def orient_refu : Field := ⟨0x35, 0x0C#8, 2⟩
def orient_thres : Field := ⟨0x36, 0xFF#8, 0⟩
def orient_dur : Field := ⟨0x38, 0xFF#8, 0⟩
/-- reference registers: `a` = address of the LSB register; MSB register holds bits 11:8 -/
def ref_lsb (a : Nat) : Field := ⟨a, 0xFF#8, 0⟩
def ref_msb (a : Nat) : Field := ⟨a + 1, 0x0F#8, 0⟩
-- generic interrupts (`b` = 0x3F for GEN1, 0x4A for GEN2)
def gen_z_en (b : Nat) : Field := ⟨b, 0x80#8, 7⟩
def gen_y_en (b : Nat) : Field := ⟨b, 0x40#8, 6⟩
def gen_x_en (b : Nat) : Field := ⟨b, 0x20#8, 5⟩
def gen_data_src (b : Nat) : Field := ⟨b, 0x10#8, 4⟩
def gen_refu (b : Nat) : Field := ⟨b, 0x0C#8, 2⟩
def gen_hyst (b : Nat) : Field := ⟨b, 0x03#8, 0⟩
def gen_criterion (b : Nat) : Field := ⟨b + 1, 0x02#8, 1⟩
def gen_comb (b : Nat) : Field := ⟨b + 1, 0x01#8, 0⟩
def gen_thres (b : Nat) : Field := ⟨b + 2, 0xFF#8, 0⟩
def gen_dur_msb (b : Nat) : Field := ⟨b + 3, 0xFF#8, 0⟩
def gen_dur_lsb (b : Nat) : Field := ⟨b + 4, 0xFF#8, 0⟩
-- activity change
def actch_thres : Field := ⟨0x55, 0xFF#8, 0⟩
def actch_z_en : Field := ⟨0x56, 0x80#8, 7⟩
def actch_y_en : Field := ⟨0x56, 0x40#8, 6⟩
def actch_x_en : Field := ⟨0x56, 0x20#8, 5⟩
def actch_data_src : Field := ⟨0x56, 0x10#8, 4⟩
def actch_npts : Field := ⟨0x56, 0x0F#8, 0⟩
-- tap
def tap_sel_axis : Field := ⟨0x57, 0x18#8, 3⟩
def tap_sensitivity : Field := ⟨0x57, 0x07#8, 0⟩
def tap_quiet_dt : Field := ⟨0x58, 0x30#8, 4⟩
def tap_quiet : Field := ⟨0x58, 0x0C#8, 2⟩
def tap_tics_th : Field := ⟨0x58, 0x03#8, 0⟩
end F

/-! ### datasheet codes of the API enums -/
def codePowerMode : PowerMode → Nat | .sleep => 0 | .lowPower => 1 | .normal => 2
def codeOSR : OSR → Nat | .osr0 => 0 | .osr1 => 1 | .osr2 => 2 | .osr3 => 3
def codeFilt1Bw : Filt1Bw → Nat | .high => 0 | .low => 1
def codeODR : ODR → Nat
  | .hz12_5 => 0x05 | .hz25 => 0x06 | .hz50 => 0x07 | .hz100 => 0x08
  | .hz200 => 0x09 | .hz400 => 0x0A | .hz800 => 0x0B
def codeScale : Scale → Nat | .r2g => 0 | .r4g => 1 | .r8g => 2 | .r16g => 3
/-- data source of the data registers: 0 filt1, 1 filt2, 2 filt_lp -/
def codeDataSrcReg : DataSource → Nat | .filt1 => 0 | .filt2 => 1 | .filt2Lp => 2
/-- FIFO / generic / activity-change: 0 filt1, 1 filt2; the low-pass source cannot
    be expressed and the driver documents filt2 as the substitute -/
def codeSrc01 : DataSource → Nat | .filt1 => 0 | .filt2 => 1 | .filt2Lp => 1
/-- orientation: 0 filt2, 1 filt_lp; filt1 cannot be expressed, documented substitute filt2 -/
def codeOrientSrc : DataSource → Nat | .filt1 => 0 | .filt2 => 0 | .filt2Lp => 1
def pinInt1 : IntPins → Nat | .none => 0 | .int1 => 1 | .int2 => 0 | .both => 1
def pinInt2 : IntPins → Nat | .none => 0 | .int1 => 0 | .int2 => 1 | .both => 1
def pinOd : PinCfg → Nat | .pushPull _ => 0 | .openDrain _ => 1
def pinLvl : PinCfg → Nat
  | .pushPull .activeLow => 0 | .pushPull .activeHigh => 1
  | .openDrain .activeLow => 0 | .openDrain .activeHigh => 1
def codeAutoLpTrig : AutoLpTrig → Nat | .disabled => 0 | .noReset => 1 | .gen2Reset => 2
def codeWkupRef : WkupRefMode → Nat | .manual => 0 | .oneTime => 1 | .everyTime => 2
def codeOrientRef : OrientRefMode → Nat | .manual => 0 | .filt2 => 1 | .filt2Lp => 2
def codeObs : ObsPeriod → Nat | .s32 => 0 | .s64 => 1 | .s128 => 2 | .s256 => 3 | .s512 => 4
def codeTapSens : TapSens → Nat
  | .s0 => 0 | .s1 => 1 | .s2 => 2 | .s3 => 3 | .s4 => 4 | .s5 => 5 | .s6 => 6 | .s7 => 7
def codeAxis : Axis → Nat | .z => 0 | .y => 1 | .x => 2
def codeMinTap : MinTapDur → Nat | .s4 => 0 | .s8 => 1 | .s12 => 2 | .s16 => 3
def codeDTap : DTapDur → Nat | .s60 => 0 | .s80 => 1 | .s100 => 2 | .s120 => 3
def codeMaxTap : MaxTapDur → Nat | .s6 => 0 | .s9 => 1 | .s12 => 2 | .s18 => 3
def codeGenRef : GenRefMode → Nat | .manual => 0 | .oneTime => 1 | .everyTimeSrc => 2 | .everyTimeLp => 3
def codeHyst : Hyst → Nat | .none => 0 | .h24 => 1 | .h48 => 2 | .h96 => 3
def codeCriterion : Criterion → Nat | .inactivity => 0 | .activity => 1
def codeLogic : Logic → Nat | .or => 0 | .and => 1
def b2n (b : Bool) : Nat := if b then 1 else 0

/-! ### documented saturations of numeric arguments (C09) -/
def satWatermark (v : Nat) : Nat := min v 1024
def sat12 (v : Nat) : Nat := min v 4095
def satNumSamples (v : Nat) : Nat := (max 1 (min v 8)) - 1
def satRef12 (v : Int) : Int := max (-2048) (min v 2047)
/-- 12-bit two's complement of a value in -2048..2047 -/
def twos12 (v : Int) : Nat := (v % 4096).toNat
/-- 8-bit two's complement of a value in -128..127 -/
def twos8 (v : Int) : Nat := (v % 256).toNat
/-- sign extension of a 12-bit pattern -/
def sext12 (n : Nat) : Int := if n % 4096 < 2048 then (n % 4096 : Nat) else ((n % 4096 : Nat) : Int) - 4096
def sext8 (n : Nat) : Int := if n % 256 < 128 then (n % 256 : Nat) else ((n % 256 : Nat) : Int) - 256

/-! ### self test (datasheet 4.9) -/
def ST_MIN_X : Int := 1500
def ST_MIN_Y : Int := 1200
def ST_MIN_Z : Int := 250
def ST_SETTLE_MS : Nat := 50

/-! ### which interrupt owns which parameter registers, and how it is enabled (C07) -/
inductive Intr | gen1 | gen2 | actch | tap | orient | wkup | fwm deriving DecidableEq, Repr

def Intr.all : List Intr := [.gen1, .gen2, .actch, .tap, .orient, .wkup, .fwm]

/-- parameter registers whose change requires the interrupt to be disabled -/
def Intr.params : Intr → List Nat
  | .gen1 => [0x3F, 0x40, 0x41, 0x42, 0x43, 0x44, 0x45, 0x46, 0x47, 0x48, 0x49]
  | .gen2 => [0x4A, 0x4B, 0x4C, 0x4D, 0x4E, 0x4F, 0x50, 0x51, 0x52, 0x53, 0x54]
  | .actch => [0x55, 0x56]
  | .tap => [0x57, 0x58]
  | .orient => [0x35, 0x36, 0x37, 0x38, 0x39, 0x3A, 0x3B, 0x3C, 0x3D, 0x3E]
  | .wkup => [0x30, 0x31, 0x32, 0x33]
  | .fwm => [0x27, 0x28]

/-- is the interrupt enabled on a device holding registers `r` -/
def Intr.enabled (r : Regs) : Intr → Bool
  | .gen1 => has (r 0x1F) 0x04#8
  | .gen2 => has (r 0x1F) 0x08#8
  | .actch => has (r 0x20) 0x10#8
  | .tap => has (r 0x20) 0x0C#8          -- single or double tap
  | .orient => has (r 0x1F) 0x02#8
  | .wkup => has (r 0x2F) 0xE0#8         -- any axis
  | .fwm => has (r 0x1F) 0x40#8

end DS
end Bma400
