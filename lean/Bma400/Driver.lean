/-
  Model of src/lib.rs, src/config.rs (self test), src/i2c.rs, src/spi.rs and of
  the simulated chip the correspondence harness uses.

  Every public operation is  guard → straight-line list of bus actions → pure
  function of the bytes read.  `plan` gives guard + actions, `finish` the
  result.  The interpreter `exec` frames each action through the selected
  transport into raw HAL operations, consults the fault schedule for every raw
  operation, applies acknowledged operations to the simulated chip, records
  acknowledged writes in the shadow, stops at the first failure and journals
  everything in order.
-/
import Bma400.Builders
import Bma400.Types
import Bma400.Datasheet
namespace Bma400
open R

/-! ## Operations -/

inductive Op
  | getId | getCmdError | getStatus | getUnscaled | getData | getSensorClock | getResetStatus
  | getIntStatus0 | getIntStatus1 | getIntStatus2 | getFifoLen
  | readFifo (n : Nat)
  | flushFifo | getStepCount | clearStepCount | getStepActivity | getRawTemp | getTempCelsius
  | config (q : Request)
  | selfTest
  | softReset
  deriving DecidableEq, Repr

inductive Ctor | newI2c | newSpi | newSpi3 deriving DecidableEq, Repr

structure Plan where
  guard : Option Err
  acts : List Act
  deriving Repr

def shadowDefault : Regs := fun a => R.defaultOf a

/-- actions of `perform_self_test` (src/lib.rs) with `setup_self_test` /
    `cleanup_self_test` (src/config.rs) inlined; `sh` is the configuration saved
    before the test -/
def selfTestActs (sh : Regs) : List Act :=
  [ .wr 0x1F (trunc 0xEE#8 0x00#8) .commit,
    .wr 0x20 (trunc 0x9D#8 0x00#8) .commit,
    .wr 0x2D (flag (sh 0x2D) awk1_WKUP_INT false) .commit,
    .wr 0x26 (flag (flag (flag (sh 0x26) f0_X false) f0_Y false) f0_Z false) .commit,
    .wr 0x19 (acc0_with_power_mode (sh 0x19) .normal) .commit,
    .wr 0x1A (trunc 0xFF#8 0x78#8) .commit,
    .delay 2,
    .wr 0x7D (selftest_trunc 0x07#8) .none,
    .delay 50,
    .rd 0x04 6,
    .wr 0x7D (selftest_trunc 0x0F#8) .none,
    .delay 50,
    .rd 0x04 6,
    .wr 0x7D 0x00#8 .none,
    .delay 50,
    .wr 0x19 (sh 0x19) .commit,
    .wr 0x1A (sh 0x1A) .commit,
    .wr 0x1F (sh 0x1F) .commit,
    .wr 0x20 (sh 0x20) .commit,
    .wr 0x2D (sh 0x2D) .commit,
    .wr 0x26 (sh 0x26) .commit ]

def Op.plan (sh : Regs) : Op → Plan
  | .getId => ⟨none, [.rd 0x00 1]⟩
  | .getCmdError => ⟨none, [.rd 0x02 1]⟩
  | .getStatus => ⟨none, [.rd 0x03 1]⟩
  | .getUnscaled => ⟨none, [.rd 0x04 6]⟩
  | .getData => ⟨none, [.rd 0x04 6]⟩
  | .getSensorClock => ⟨none, [.rd 0x0A 3]⟩
  | .getResetStatus => ⟨none, [.rd 0x0D 1]⟩
  | .getIntStatus0 => ⟨none, [.rd 0x0E 1]⟩
  | .getIntStatus1 => ⟨none, [.rd 0x0F 1]⟩
  | .getIntStatus2 => ⟨none, [.rd 0x10 1]⟩
  | .getFifoLen => ⟨none, [.rd 0x12 2]⟩
  | .readFifo n =>
      if has (sh 0x29) fpwr_READ_DISABLE then ⟨some (.cfg .fifoPwr), []⟩ else ⟨none, [.rd 0x14 n]⟩
  | .flushFifo => ⟨none, [.wr 0x7E cmd_FlushFifo .none]⟩
  | .getStepCount => ⟨none, [.rd 0x15 3]⟩
  | .clearStepCount => ⟨none, [.wr 0x7E cmd_ClearStepCount .none]⟩
  | .getStepActivity => ⟨none, [.rd 0x18 1]⟩
  | .getRawTemp => ⟨none, [.rd 0x11 1]⟩
  | .getTempCelsius => ⟨none, [.rd 0x11 1]⟩
  | .config q =>
      match q.script sh with
      | .error e => ⟨some (.cfg e), []⟩
      | .ok ws => ⟨none, ws.map W.act⟩
  | .selfTest => ⟨none, selfTestActs sh⟩
  | .softReset => ⟨none, [.wr 0x7E cmd_SoftReset .reset, .rd 0x0D 1]⟩

def Ctor.acts : Ctor → List Act
  | .newI2c => [.rd 0x00 1]
  | .newSpi => [.rd 0x00 1, .rd 0x00 1]
  | .newSpi3 => [.rd 0x00 1, .rd 0x00 1, .wr 0x7C (flag 0x00#8 ifc_SPI3 true) .none]

/-! ## Results -/

def fmtInts (l : List Int) : String := ",".intercalate (l.map toString)

def fmtOpt {α} (f : α → String) : Option α → String
  | none => "_"
  | some a => f a

def fmtFrameType : T.FrameType → String | .data => "D" | .time => "T" | .control => "C"

/-- a yielded frame, or the panic marker if an accessor would index out of range -/
def fmtFrame (buf : List Byte) (f : T.Frame) : String :=
  match f.view buf with
  | none => s!"F{f.start}-{f.stop}:PANIC"
  | some v =>
    let b2s : Bool → String := fun b => if b then "1" else "0"
    s!"F{f.start}-{f.stop}:{fmtFrameType v.ftype}:{fmtOpt toString v.x},{fmtOpt toString v.y},{fmtOpt toString v.z},{fmtOpt toString v.time},{fmtOpt b2s v.fifoSrcChg},{fmtOpt b2s v.filt1BwChg},{fmtOpt b2s v.acc1Chg}"

/-- result of `read_fifo_frames`: every one of `len + 2` successive `next()` calls -/
def fmtFifo (buf : List Byte) : String :=
  let (os, _) := T.callN buf ⟨0⟩ (buf.length + 2)
  " ".intercalate (os.map (fun o => match o with | none => "N" | some f => fmtFrame buf f))

/-- the value an operation returns, from the shadow at return time and the bytes read;
    `none` = the Rust would index out of range (cannot happen: see Thm) -/
def Op.finish (sh : Regs) (op : Op) (reads : List (List Byte)) : Option (Except Err String) :=
  let one (f : Byte → List Int) : Option (Except Err String) := do
    let b ← (← reads[0]?)[0]?
    pure (.ok (fmtInts (f b)))
  match op with
  | .getId => one (fun b => [b.toNat])
  | .getCmdError => one (fun b => [T.b2i ((b &&& 0x02#8) != 0#8)])
  | .getStatus => one T.decodeStatus
  | .getUnscaled => do
      let (x, y, z) ← T.fromBytesUnscaled (← reads[0]?)
      pure (.ok (fmtInts [x, y, z]))
  | .getData => do
      let (x, y, z) ← T.fromBytesScaled (acc1_scale (sh 0x1A)) (← reads[0]?)
      pure (.ok (fmtInts [x, y, z]))
  | .getSensorClock => do
      let r ← reads[0]?
      pure (.ok (fmtInts [T.u24le (← r[0]?) (← r[1]?) (← r[2]?)]))
  | .getResetStatus => one (fun b => [T.b2i ((b &&& 0x01#8) != 0#8)])
  | .getIntStatus0 => one T.decodeIntStatus0
  | .getIntStatus1 => one T.decodeIntStatus1
  | .getIntStatus2 => one T.decodeIntStatus2
  | .getFifoLen => do
      let r ← reads[0]?
      pure (.ok (fmtInts [T.fifoLen (← r[0]?) (← r[1]?)]))
  | .readFifo _ => do
      let r ← reads[0]?
      pure (.ok (fmtFifo r))
  | .flushFifo => pure (.ok "")
  | .getStepCount => do
      let r ← reads[0]?
      pure (.ok (fmtInts [T.u24le (← r[0]?) (← r[1]?) (← r[2]?)]))
  | .clearStepCount => pure (.ok "")
  | .getStepActivity => one (fun b => [T.decodeActivity b])
  | .getRawTemp => one (fun b => [T.i8of b])
  | .getTempCelsius => one (fun b => [T.i8of b + 46])      -- reported as 2·t (exact)
  | .config _ => pure (.ok "")
  | .selfTest => do
      let (px, py, pz) ← T.fromBytesUnscaled (← reads[0]?)
      let (nx, ny, nz) ← T.fromBytesUnscaled (← reads[1]?)
      if px - nx > 1500 ∧ py - ny > 1200 ∧ pz - nz > 250 then pure (.ok "")
      else pure (.error .selfTest)
  | .softReset => pure (.ok "")

def Ctor.finish (c : Ctor) (reads : List (List Byte)) : Option (Except Err String) := do
  let r ← match c with
    | .newI2c => reads[0]?
    | _ => reads[1]?
  let id ← r[0]?
  if id ≠ 0x90#8 then pure (.error .chipId) else pure (.ok "")

/-! ## Simulated chip -/

structure Chip where
  regs : Regs
  /-- acceleration data served while SELF_TEST holds the positive / negative excitation -/
  pos : List Byte
  neg : List Byte
  /-- content of the FIFO -/
  fifo : List Byte
  /-- SPI front end: chip-select level and position inside the current window -/
  csHigh : Bool := true
  winLen : Nat := 0
  winFirst : Byte := 0#8
  winLast : Byte := 0#8

def Chip.dataAt (c : Chip) (a : Nat) : Byte :=
  if 4 ≤ a ∧ a ≤ 9 then
    if c.regs 0x7D = 0x07#8 then c.pos.getD (a - 4) 0#8
    else if c.regs 0x7D = 0x0F#8 then c.neg.getD (a - 4) 0#8
    else c.regs a
  else c.regs a

/-- burst read of n bytes starting at register a (the FIFO port does not auto-increment) -/
def Chip.burst (c : Chip) (a n : Nat) : List Byte :=
  if a = 0x14 then (List.range n).map (fun i => c.fifo.getD i 0#8)
  else (List.range n).map (fun i => c.dataAt (a + i))

/-- register write as the chip applies it -/
def Chip.write (c : Chip) (a : Nat) (v : Byte) : Chip :=
  if a = 0x7E then
    if v = 0xB6#8 then { c with regs := fun x => if x ≥ 0x19 then DS.resetVal x else c.regs x }
    else c
  else if a < 0x19 ∨ a ≥ 0x80 then c
  else { c with regs := c.regs.set a v }

/-- one byte clocked on SPI; returns the byte the chip shifts out -/
def Chip.clock (c : Chip) (b : Byte) : Chip × Byte :=
  if c.csHigh then (c, 0#8)
  else if c.winLen = 0 then ({ c with winLen := 1, winFirst := b, winLast := b }, 0#8)
  else if (c.winFirst &&& 0x80#8) != 0#8 then
    -- read: address byte, dummy byte, then data
    let a0 := (c.winFirst &&& 0x7F#8).toNat
    let out := if c.winLen = 1 then 0#8
               else if a0 = 0x14 then c.fifo.getD (c.winLen - 2) 0#8
               else c.dataAt (a0 + (c.winLen - 2))
    ({ c with winLen := c.winLen + 1, winLast := b }, out)
  else
    -- write: (address, data) pairs
    let c' := if c.winLen % 2 = 1 then c.write (c.winLast &&& 0x7F#8).toNat b else c
    ({ c' with winLen := c.winLen + 1, winLast := b }, 0#8)

def Chip.clockAll (c : Chip) : List Byte → Chip × List Byte
  | [] => (c, [])
  | b :: bs =>
    let (c', o) := c.clock b
    let (c'', os) := c'.clockAll bs
    (c'', o :: os)

/-! ## Raw HAL operations -/

inductive Raw
  | i2cWrite (dev : Nat) (bytes : List Byte)
  | i2cWriteRead (dev : Nat) (out : List Byte) (n : Nat)
  | csLow
  | csHigh
  | spiWrite (bytes : List Byte)
  | spiTransfer (bytes : List Byte)
  | delay (ms : Nat)
  deriving DecidableEq, Repr

/-- effect of an acknowledged raw operation on the chip, and the bytes it returns -/
def Chip.raw (c : Chip) : Raw → Chip × List Byte
  | .i2cWrite _ [a, v] => (c.write a.toNat v, [])
  | .i2cWrite _ _ => (c, [])
  | .i2cWriteRead _ [a] n => (c, c.burst a.toNat n)
  | .i2cWriteRead _ _ n => (c, List.replicate n 0#8)
  | .csLow => (if c.csHigh then { c with csHigh := false, winLen := 0 } else c, [])
  | .csHigh => ({ c with csHigh := true, winLen := 0 }, [])
  | .spiWrite bytes => ((c.clockAll bytes).1, [])
  | .spiTransfer bytes => c.clockAll bytes
  | .delay _ => (c, [])

inductive Transport
  | i2c (dev : Nat)
  | spi
  deriving DecidableEq, Repr

/-- journal entry: a raw operation and whether it was acknowledged -/
structure JEntry where
  raw : Raw
  ok : Bool
  deriving DecidableEq, Repr

structure World where
  chip : Chip
  shadow : Regs
  /-- index of the next fallible raw operation within the current call -/
  idx : Nat := 0
  journal : List JEntry := []      -- most recent last

def applyEff (sh : Regs) (a : Nat) (v : Byte) : Eff → Regs
  | .none => sh
  | .commit => sh.set a v
  | .reset => shadowDefault

/-- perform one fallible raw operation: journal it, bump the index, apply it if acknowledged -/
def World.raw (w : World) (fails : Nat → Bool) (r : Raw) : World × Option (List Byte) :=
  if fails w.idx then
    ({ w with idx := w.idx + 1, journal := w.journal ++ [⟨r, false⟩] }, none)
  else
    let (c, out) := w.chip.raw r
    ({ w with chip := c, idx := w.idx + 1, journal := w.journal ++ [⟨r, true⟩] }, some out)

/-- `write_register` -/
def writeRegister (t : Transport) (fails : Nat → Bool) (w : World) (a : Nat) (v : Byte) :
    World × Option Err :=
  match t with
  | .i2c dev =>
    let i := w.idx
    match w.raw fails (.i2cWrite dev [BitVec.ofNat 8 a, v]) with
    | (w, none) => (w, some (.io i))
    | (w, some _) => (w, none)
  | .spi =>
    let i := w.idx
    match w.raw fails .csLow with
    | (w, none) => (w, some (.pin i))
    | (w, some _) =>
      let (w, r1) := w.raw fails (.spiWrite [BitVec.ofNat 8 a, v])
      let (w, r2) := w.raw fails .csHigh
      match r1, r2 with
      | none, _ => (w, some (.io (i + 1)))
      | some _, none => (w, some (.pin (i + 2)))
      | some _, some _ => (w, none)

/-- `read_register` into a buffer of n bytes (the buffer is zero-filled by every caller) -/
def readRegister (t : Transport) (fails : Nat → Bool) (w : World) (a n : Nat) :
    World × Except Err (List Byte) :=
  match t with
  | .i2c dev =>
    let i := w.idx
    match w.raw fails (.i2cWriteRead dev [BitVec.ofNat 8 a] n) with
    | (w, none) => (w, .error (.io i))
    | (w, some d) => (w, .ok d)
  | .spi =>
    let i := w.idx
    match w.raw fails .csLow with
    | (w, none) => (w, .error (.pin i))
    | (w, some _) =>
      match w.raw fails (.spiTransfer [BitVec.ofNat 8 a ||| 0x80#8, 0#8]) with
      | (w, none) =>
        -- first transfer failed: release chip-select, report the transfer error
        let (w, _) := w.raw fails .csHigh
        (w, .error (.io (i + 1)))
      | (w, some _) =>
        let (w, r2) := w.raw fails (.spiTransfer (List.replicate n 0#8))
        let j := w.idx
        let (w, r3) := w.raw fails .csHigh
        match r2, r3 with
        | none, _ => (w, .error (.io (i + 2)))
        | some _, none => (w, .error (.pin j))
        | some d, some _ => (w, .ok d)

/-- run a list of actions; stops at the first failure.  Returns the bytes of every read. -/
def exec (t : Transport) (fails : Nat → Bool) : World → List Act → List (List Byte) →
    World × Except Err (List (List Byte))
  | w, [], reads => (w, .ok reads)
  | w, .wr a v e :: rest, reads =>
    match writeRegister t fails w a v with
    | (w, some err) => (w, .error err)
    | (w, none) => exec t fails { w with shadow := applyEff w.shadow a v e } rest reads
  | w, .rd a n :: rest, reads =>
    match readRegister t fails w a n with
    | (w, .error err) => (w, .error err)
    | (w, .ok d) => exec t fails w rest (reads ++ [d])
  | w, .delay ms :: rest, reads =>
    exec t fails { w with journal := w.journal ++ [⟨.delay ms, true⟩] } rest reads

/-- outcome of one API call -/
inductive Outcome
  | ok (v : String)
  | err (e : Err)
  | panic
  deriving DecidableEq, Repr

def Outcome.isOk : Outcome → Bool
  | .ok _ => true
  | _ => false

/-- one API call on an existing driver; the journal and raw index start afresh -/
def runOp (t : Transport) (fails : Nat → Bool) (w : World) (op : Op) : World × Outcome :=
  let w := { w with idx := 0, journal := [] }
  let p := op.plan w.shadow
  match p.guard with
  | some e => (w, .err e)
  | none =>
    match exec t fails w p.acts [] with
    | (w, .error e) => (w, .err e)
    | (w, .ok reads) =>
      match op.finish w.shadow reads with
      | none => (w, .panic)
      | some (.ok v) => (w, .ok v)
      | some (.error e) => (w, .err e)

def Ctor.transport (dev : Nat) : Ctor → Transport
  | .newI2c => .i2c dev
  | _ => .spi

/-- a constructor call on a fresh chip; `none` driver when it fails -/
def runCtor (dev : Nat) (fails : Nat → Bool) (chip : Chip) (c : Ctor) : World × Outcome :=
  let w : World := { chip := chip, shadow := shadowDefault }
  match exec (c.transport dev) fails w c.acts [] with
  | (w, .error e) => (w, .err e)
  | (w, .ok reads) =>
    match c.finish reads with
    | none => (w, .panic)
    | some (.ok v) => (w, .ok v)
    | some (.error e) => (w, .err e)

/-- a chip after power-on holding the given id / data registers -/
def Chip.powerOn (low : Nat → Byte) (pos neg fifo : List Byte) : Chip :=
  { regs := fun a => if a ≥ 0x19 then DS.resetVal a else low a, pos := pos, neg := neg, fifo := fifo }

end Bma400
