/-
  Model of src/lib.rs, src/config.rs (self test), src/i2c.rs, src/spi.rs and of
  the simulated chip the correspondence harness uses.

  Every public operation is  guard → straight-line list of bus actions → pure
  function of the bytes read.  `plan` gives guard + actions, `finish` the
  result.  The interpreter `exec` frames each action through the selected
  transport into raw HAL operations, consults the fault schedule for every raw
  operation, applies acknowledged operations to the simulated chip, records
  acknowledged writes in the shadow, stops at the first failure and journals
  everything in order.
-/
import Bma400.Builders
import Bma400.Types
import Bma400.Datasheet
namespace Bma400
open R

/-! ## Operations -/

inductive Op
  | getId | getCmdError | getStatus | getUnscaled | getData | getSensorClock | getResetStatus
  | getIntStatus0 | getIntStatus1 | getIntStatus2 | getFifoLen
  | readFifo (n : Nat)
  | flushFifo | getStepCount | clearStepCount | getStepActivity | getRawTemp | getTempCelsius
  | config (q : Request)
  | selfTest
  | softReset
  deriving DecidableEq, Repr

inductive Ctor | newI2c | newSpi | newSpi3 deriving DecidableEq, Repr

structure Plan where
  guard : Option Err
  acts : List Act
  deriving Repr

def shadowDefault : Regs := fun a => R.defaultOf a

/-- actions of `perform_self_test` (src/lib.rs) with `setup_self_test` /
    `cleanup_self_test` (src/config.rs) inlined; `sh` is the configuration saved
    before the test -/
def selfTestActs (sh : Regs) : List Act :=
  [ .wr 0x1F (trunc 0xEE#8 0x00#8) .commit,
    .wr 0x20 (trunc 0x9D#8 0x00#8) .commit,
    .wr 0x2D (flag (sh 0x2D) awk1_WKUP_INT false) .commit,
    .wr 0x26 (flag (flag (flag (sh 0x26) f0_X false) f0_Y false) f0_Z false) .commit,
    .wr 0x19 (acc0_with_power_mode (sh 0x19) .normal) .commit,
    .wr 0x1A (trunc 0xFF#8 0x78#8) .commit,
    .delay 2,
    .wr 0x7D (selftest_trunc 0x07#8) .none,
    .delay 50,
    .rd 0x04 6,
    .wr 0x7D (selftest_trunc 0x0F#8) .none,
    .delay 50,
    .rd 0x04 6,
    .wr 0x7D 0x00#8 .none,
    .delay 50,
    .wr 0x19 (sh 0x19) .commit,
    .wr 0x1A (sh 0x1A) .commit,
    .wr 0x1F (sh 0x1F) .commit,
    .wr 0x20 (sh 0x20) .commit,
    .wr 0x2D (sh 0x2D) .commit,
    .wr 0x26 (sh 0x26) .commit ]

def Op.plan (sh : Regs) : Op → Plan
  | .getId => ⟨none, [.rd 0x00 1]⟩
  | .getCmdError => ⟨none, [.rd 0x02 1]⟩
  | .getStatus => ⟨none, [.rd 0x03 1]⟩
  | .getUnscaled => ⟨none, [.rd 0x04 6]⟩
  | .getData => ⟨none, [.rd 0x04 6]⟩
  | .getSensorClock => ⟨none, [.rd 0x0A 3]⟩
  | .getResetStatus => ⟨none, [.rd 0x0D 1]⟩
  | .getIntStatus0 => ⟨none, [.rd 0x0E 1]⟩
  | .getIntStatus1 => ⟨none, [.rd 0x0F 1]⟩
  | .getIntStatus2 => ⟨none, [.rd 0x10 1]⟩
  | .getFifoLen => ⟨none, [.rd 0x12 2]⟩
  | .readFifo n =>
      if has (sh 0x29) fpwr_READ_DISABLE then ⟨some (.cfg .fifoPwr), []⟩ else ⟨none, [.rd 0x14 n]⟩
  | .flushFifo => ⟨none, [.wr 0x7E cmd_FlushFifo .none]⟩
  | .getStepCount => ⟨none, [.rd 0x15 3]⟩
  | .clearStepCount => ⟨none, [.wr 0x7E cmd_ClearStepCount .none]⟩
  | .getStepActivity => ⟨none, [.rd 0x18 1]⟩
  | .getRawTemp => ⟨none, [.rd 0x11 1]⟩
  | .getTempCelsius => ⟨none, [.rd 0x11 1]⟩
  | .config q =>
      match q.script sh with
      | .error e => ⟨some (.cfg e), []⟩
      | .ok ws => ⟨none, ws.map W.act⟩
  | .selfTest => ⟨none, selfTestActs sh⟩
  | .softReset => ⟨none, [.wr 0x7E cmd_SoftReset .reset, .rd 0x0D 1]⟩

def Ctor.acts : Ctor → List Act
  | .newI2c => [.rd 0x00 1]
  | .newSpi => [.rd 0x00 1, .rd 0x00 1]
  | .newSpi3 => [.rd 0x00 1, .rd 0x00 1, .wr 0x7C (flag 0x00#8 ifc_SPI3 true) .none]

/-! ## Results -/

def fmtInts (l : List Int) : String := ",".intercalate (l.map toString)

def fmtOpt {α} (f : α → String) : Option α → String
  | none => "_"
  | some a => f a

def fmtFrameType : T.FrameType → String | .data => "D" | .time => "T" | .control => "C"

/-- a yielded frame, or the panic marker if an accessor would index out of range -/
def fmtFrame (buf : List Byte) (f : T.Frame) : String :=
  match f.view buf with
  | none => s!"F{f.start}-{f.stop}:PANIC"
  | some v =>
    let b2s : Bool → String := fun b => if b then "1" else "0"
    s!"F{f.start}-{f.stop}:{fmtFrameType v.ftype}:{fmtOpt toString v.x},{fmtOpt toString v.y},{fmtOpt toString v.z},{fmtOpt toString v.time},{fmtOpt b2s v.fifoSrcChg},{fmtOpt b2s v.filt1BwChg},{fmtOpt b2s v.acc1Chg}"

/-- result of `read_fifo_frames`: every one of `len + 2` successive `next()` calls -/
def fmtFifo (buf : List Byte) : String :=
  let (os, _) := T.callN buf ⟨0⟩ (buf.length + 2)
  " ".intercalate (os.map (fun o => match o with | none => "N" | some f => fmtFrame buf f))

/-- the numbers a getter returns, from the shadow at return time and the bytes read;
    `none` = the Rust would index out of range (cannot happen: see Thm), or not a getter -/
def Op.ints (sh : Regs) (op : Op) (reads : List (List Byte)) : Option (List Int) :=
  let one (f : Byte → List Int) : Option (List Int) := do
    let b ← (← reads[0]?)[0]?
    pure (f b)
  match op with
  | .getId => one (fun b => [b.toNat])
  | .getCmdError => one (fun b => [T.b2i ((b &&& 0x02#8) != 0#8)])
  | .getStatus => one T.decodeStatus
  | .getUnscaled => do
      let (x, y, z) ← T.fromBytesUnscaled (← reads[0]?)
      pure [x, y, z]
  | .getData => do
      let (x, y, z) ← T.fromBytesScaled (acc1_scale (sh 0x1A)) (← reads[0]?)
      pure [x, y, z]
  | .getSensorClock => do
      let r ← reads[0]?
      pure [T.u24le (← r[0]?) (← r[1]?) (← r[2]?)]
  | .getResetStatus => one (fun b => [T.b2i ((b &&& 0x01#8) != 0#8)])
  | .getIntStatus0 => one T.decodeIntStatus0
  | .getIntStatus1 => one T.decodeIntStatus1
  | .getIntStatus2 => one T.decodeIntStatus2
  | .getFifoLen => do
      let r ← reads[0]?
      pure [T.fifoLen (← r[0]?) (← r[1]?)]
  | .getStepCount => do
      let r ← reads[0]?
      pure [T.u24le (← r[0]?) (← r[1]?) (← r[2]?)]
  | .getStepActivity => one (fun b => [T.decodeActivity b])
  | .getRawTemp => one (fun b => [T.i8of b])
  | .getTempCelsius => one (fun b => [T.i8of b + 46])      -- reported as 2·t (exact)
  | _ => none

/-- the self-test verdict from the two data reads -/
def selfTestVerdict (reads : List (List Byte)) : Option (Except Err String) := do
  let (px, py, pz) ← T.fromBytesUnscaled (← reads[0]?)
  let (nx, ny, nz) ← T.fromBytesUnscaled (← reads[1]?)
  if px - nx > 1500 ∧ py - ny > 1200 ∧ pz - nz > 250 then pure (.ok "")
  else pure (.error .selfTest)

/-- the value an operation returns; `none` = the Rust would index out of range -/
def Op.finish (sh : Regs) (op : Op) (reads : List (List Byte)) : Option (Except Err String) :=
  match op with
  | .readFifo _ => do
      let r ← reads[0]?
      pure (.ok (fmtFifo r))
  | .flushFifo => pure (.ok "")
  | .clearStepCount => pure (.ok "")
  | .config _ => pure (.ok "")
  | .selfTest => selfTestVerdict reads
  | .softReset => pure (.ok "")
  | op => (op.ints sh reads).map (fun l => .ok (fmtInts l))

def Ctor.finish (c : Ctor) (reads : List (List Byte)) : Option (Except Err String) := do
  let r ← match c with
    | .newI2c => reads[0]?
    | _ => reads[1]?
  let id ← r[0]?
  if id ≠ 0x90#8 then pure (.error .chipId) else pure (.ok "")

/-! ## Simulated chip -/

structure Chip where
  regs : Regs
  /-- acceleration data served while SELF_TEST holds the positive / negative excitation -/
  pos : List Byte
  neg : List Byte
  /-- content of the FIFO -/
  fifo : List Byte
  /-- SPI front end: chip-select level and position inside the current window -/
  csHigh : Bool := true
  winLen : Nat := 0
  winFirst : Byte := 0#8
  winLast : Byte := 0#8
  /-- after power-on the chip is in I2C mode until the first rising edge of chip-select;
      data clocked out over SPI before that is not valid: it reads as `dummy` -/
  spiMode : Bool := false
  dummy : Byte := 0#8

def Chip.dataAt (c : Chip) (a : Nat) : Byte :=
  if 4 ≤ a ∧ a ≤ 9 then
    if c.regs 0x7D = 0x07#8 then c.pos.getD (a - 4) 0#8
    else if c.regs 0x7D = 0x0F#8 then c.neg.getD (a - 4) 0#8
    else c.regs a
  else c.regs a

/-- burst read of n bytes starting at register a (the FIFO port does not auto-increment) -/
def Chip.burst (c : Chip) (a n : Nat) : List Byte :=
  if a = 0x14 then (List.range n).map (fun i => c.fifo.getD i 0#8)
  else (List.range n).map (fun i => c.dataAt (a + i))

/-- register write as the chip applies it -/
def Chip.write (c : Chip) (a : Nat) (v : Byte) : Chip :=
  if a = 0x7E then
    if v = 0xB6#8 then { c with regs := fun x => if x ≥ 0x19 then DS.resetVal x else c.regs x }
    else c
  else if a < 0x19 ∨ a ≥ 0x80 then c
  else { c with regs := c.regs.set a v }

/-- one byte clocked on SPI; returns the byte the chip shifts out -/
def Chip.clock (c : Chip) (b : Byte) : Chip × Byte :=
  if c.csHigh then (c, 0#8)
  else if c.winLen = 0 then ({ c with winLen := 1, winFirst := b, winLast := b }, 0#8)
  else if (c.winFirst &&& 0x80#8) != 0#8 then
    -- read: address byte, dummy byte, then data
    let a0 := (c.winFirst &&& 0x7F#8).toNat
    let out := if c.winLen = 1 then 0#8
               else if !c.spiMode then c.dummy
               else if a0 = 0x14 then c.fifo.getD (c.winLen - 2) 0#8
               else c.dataAt (a0 + (c.winLen - 2))
    ({ c with winLen := c.winLen + 1, winLast := b }, out)
  else
    -- write: (address, data) pairs
    let c' := if c.winLen % 2 = 1 then c.write (c.winLast &&& 0x7F#8).toNat b else c
    ({ c' with winLen := c.winLen + 1, winLast := b }, 0#8)

def Chip.clockAll (c : Chip) : List Byte → Chip × List Byte
  | [] => (c, [])
  | b :: bs =>
    let (c', o) := c.clock b
    let (c'', os) := c'.clockAll bs
    (c'', o :: os)

/-! ## Raw HAL operations -/

inductive Raw
  | i2cWrite (dev : Nat) (bytes : List Byte)
  | i2cWriteRead (dev : Nat) (out : List Byte) (n : Nat)
  | csLow
  | csHigh
  | spiWrite (bytes : List Byte)
  | spiTransfer (bytes : List Byte)
  | delay (ms : Nat)
  deriving DecidableEq, Repr

/-- effect of an acknowledged raw operation on the chip, and the bytes it returns -/
def Chip.raw (c : Chip) : Raw → Chip × List Byte
  | .i2cWrite _ [a, v] => (c.write a.toNat v, [])
  | .i2cWrite _ _ => (c, [])
  | .i2cWriteRead _ [a] n => (c, c.burst a.toNat n)
  | .i2cWriteRead _ _ n => (c, List.replicate n 0#8)
  | .csLow => (if c.csHigh then { c with csHigh := false, winLen := 0 } else c, [])
  | .csHigh => ({ c with csHigh := true, winLen := 0, spiMode := true }, [])
  | .spiWrite bytes => ((c.clockAll bytes).1, [])
  | .spiTransfer bytes => c.clockAll bytes
  | .delay _ => (c, [])

inductive Transport
  | i2c (dev : Nat)
  | spi
  deriving DecidableEq, Repr

/-- journal entry: a raw operation and whether it was acknowledged -/
structure JEntry where
  raw : Raw
  ok : Bool
  deriving DecidableEq, Repr

/-- state threaded through one API call -/
structure World where
  chip : Chip
  shadow : Regs
  /-- index of the next fallible raw operation within the current call -/
  idx : Nat := 0

def applyEff (sh : Regs) (a : Nat) (v : Byte) : Eff → Regs
  | .none => sh
  | .commit => sh.set a v
  | .reset => shadowDefault

/-- perform one fallible raw operation: journal entry, bumped index, chip effect if
    acknowledged, bytes returned -/
def World.raw (w : World) (fails : Nat → Bool) (r : Raw) : JEntry × World × Option (List Byte) :=
  if fails w.idx then
    (⟨r, false⟩, { w with idx := w.idx + 1 }, none)
  else
    (⟨r, true⟩, { w with chip := (w.chip.raw r).1, idx := w.idx + 1 }, some (w.chip.raw r).2)

/-- `write_register`: journal segment, new state, error -/
def writeRegister (t : Transport) (fails : Nat → Bool) (w : World) (a : Nat) (v : Byte) :
    List JEntry × World × Option Err :=
  match t with
  | .i2c dev =>
    let (e, w', r) := w.raw fails (.i2cWrite dev [BitVec.ofNat 8 a, v])
    ([e], w', match r with | none => some (.io w.idx) | some _ => none)
  | .spi =>
    let (e0, w0, r0) := w.raw fails .csLow
    match r0 with
    | none => ([e0], w0, some (.pin w.idx))
    | some _ =>
      let (e1, w1, r1) := w0.raw fails (.spiWrite [BitVec.ofNat 8 a, v])
      let (e2, w2, r2) := w1.raw fails .csHigh
      ([e0, e1, e2], w2,
        match r1, r2 with
        | none, _ => some (.io (w.idx + 1))
        | some _, none => some (.pin (w.idx + 2))
        | some _, some _ => none)

/-- `read_register` into a buffer of n bytes (the buffer is zero-filled by every caller) -/
def readRegister (t : Transport) (fails : Nat → Bool) (w : World) (a n : Nat) :
    List JEntry × World × Except Err (List Byte) :=
  match t with
  | .i2c dev =>
    let (e, w', r) := w.raw fails (.i2cWriteRead dev [BitVec.ofNat 8 a] n)
    ([e], w', match r with | none => .error (.io w.idx) | some d => .ok d)
  | .spi =>
    let (e0, w0, r0) := w.raw fails .csLow
    match r0 with
    | none => ([e0], w0, .error (.pin w.idx))
    | some _ =>
      let (e1, w1, r1) := w0.raw fails (.spiTransfer [BitVec.ofNat 8 a ||| 0x80#8, 0#8])
      match r1 with
      | none =>
        -- first transfer failed: release chip-select, report the transfer error
        let (e2, w2, _) := w1.raw fails .csHigh
        ([e0, e1, e2], w2, .error (.io (w.idx + 1)))
      | some _ =>
        let (e2, w2, r2) := w1.raw fails (.spiTransfer (List.replicate n 0#8))
        let (e3, w3, r3) := w2.raw fails .csHigh
        ([e0, e1, e2, e3], w3,
          match r2, r3 with
          | none, _ => .error (.io (w.idx + 2))
          | some _, none => .error (.pin (w.idx + 3))
          | some d, some _ => .ok d)

/-- run a list of actions; stops at the first failure.  Returns the journal, the final
    state and the bytes of every read. -/
def exec (t : Transport) (fails : Nat → Bool) : World → List Act → List (List Byte) →
    List JEntry × World × Except Err (List (List Byte))
  | w, [], reads => ([], w, .ok reads)
  | w, .wr a v e :: rest, reads =>
    match writeRegister t fails w a v with
    | (j, w', some err) => (j, w', .error err)
    | (j, w', none) =>
      let (j2, w'', r) := exec t fails { w' with shadow := applyEff w'.shadow a v e } rest reads
      (j ++ j2, w'', r)
  | w, .rd a n :: rest, reads =>
    match readRegister t fails w a n with
    | (j, w', .error err) => (j, w', .error err)
    | (j, w', .ok d) =>
      let (j2, w'', r) := exec t fails w' rest (reads ++ [d])
      (j ++ j2, w'', r)
  | w, .delay ms :: rest, reads =>
    let (j2, w'', r) := exec t fails w rest reads
    (⟨.delay ms, true⟩ :: j2, w'', r)

/-- outcome of one API call -/
inductive Outcome
  | ok (v : String)
  | err (e : Err)
  | panic
  deriving DecidableEq, Repr

def Outcome.isOk : Outcome → Bool
  | .ok _ => true
  | _ => false

def finishOutcome : Option (Except Err String) → Outcome
  | none => .panic
  | some (.ok v) => .ok v
  | some (.error e) => .err e

/-- one API call on an existing driver (raw index restarts at 0): journal, new state, outcome -/
def runOp (t : Transport) (fails : Nat → Bool) (w : World) (op : Op) : List JEntry × World × Outcome :=
  let w := { w with idx := 0 }
  let p := op.plan w.shadow
  match p.guard with
  | some e => ([], w, .err e)
  | none =>
    match exec t fails w p.acts [] with
    | (j, w', .error e) => (j, w', .err e)
    | (j, w', .ok reads) => (j, w', finishOutcome (op.finish w'.shadow reads))

def Ctor.transport (dev : Nat) : Ctor → Transport
  | .newI2c => .i2c dev
  | _ => .spi

/-- a constructor call on a fresh chip -/
def runCtor (dev : Nat) (fails : Nat → Bool) (chip : Chip) (c : Ctor) : List JEntry × World × Outcome :=
  let w : World := { chip := chip, shadow := shadowDefault }
  match exec (c.transport dev) fails w c.acts [] with
  | (j, w', .error e) => (j, w', .err e)
  | (j, w', .ok reads) => (j, w', finishOutcome (c.finish reads))

/-- a chip after power-on holding the given id / data registers -/
def Chip.powerOn (low : Nat → Byte) (pos neg fifo : List Byte) (dummy : Byte := 0#8) : Chip :=
  { regs := fun a => if a ≥ 0x19 then DS.resetVal a else low a, pos := pos, neg := neg, fifo := fifo,
    dummy := dummy }

end Bma400
