/-
  Model of src/registers.rs: the `with_*` encoders and the few decoders, one
  Lean function per Rust function, written with the same union / difference /
  from_bits_truncate structure as the Rust (bitflags 1.3.2 semantics:
  `difference(m)` = `& !m`, `union(m)` = `| m`, `from_bits_truncate(v)` = `v & all_defined_bits`).

  `unreachable!()` arms are modelled as `none`.
-/
import Bma400.Basic
namespace Bma400
namespace R

/-- `Self::from_bits_truncate(v)` for a register whose defined bits are `all` -/
def trunc (all v : Byte) : Byte := v &&& all

/-- low byte / high byte of a `u16` (`to_le_bytes()[0]`, `[1]`) -/
def u16lo (v : Nat) : Byte := BitVec.ofNat 8 (v % 65536)
def u16hi (v : Nat) : Byte := BitVec.ofNat 8 (v % 65536 / 256)
/-- bytes of an `i16` -/
def i16lo (v : Int) : Byte := BitVec.ofNat 8 (v % 65536).toNat
def i16hi (v : Int) : Byte := BitVec.ofNat 8 ((v % 65536).toNat / 256)
/-- the byte of an `i8` -/
def i8byte (v : Int) : Byte := BitVec.ofNat 8 (v % 256).toNat

/-! ### AccConfig0 (0x19) -/
def acc0_with_filt1_bw (b : Byte) : Filt1Bw → Byte
  | .high => clr b 0x80#8
  | .low => uni b 0x80#8
def acc0_with_osr_lp (b : Byte) : OSR → Byte
  | .osr0 => clr b 0x60#8
  | .osr1 => uni (clr b 0x60#8) 0x20#8
  | .osr2 => uni (clr b 0x60#8) 0x40#8
  | .osr3 => uni b 0x60#8
def acc0_with_power_mode (b : Byte) : PowerMode → Byte
  | .sleep => clr b 0x03#8
  | .lowPower => uni (clr b 0x03#8) 0x01#8
  | .normal => uni (clr b 0x03#8) 0x02#8

/-! ### AccConfig1 (0x1A) -/
def acc1_scale (b : Byte) : Scale :=
  match ((b &&& 0xC0#8) >>> 6).toNat with
  | 0 => .r2g | 1 => .r4g | 2 => .r8g | _ => .r16g
def acc1_with_scale (b : Byte) : Scale → Byte
  | .r2g => clr b 0xC0#8
  | .r4g => uni (clr b 0xC0#8) 0x40#8
  | .r8g => uni (clr b 0xC0#8) 0x80#8
  | .r16g => uni b 0xC0#8
def acc1_with_osr (b : Byte) : OSR → Byte
  | .osr0 => clr b 0x30#8
  | .osr1 => uni (clr b 0x30#8) 0x10#8
  | .osr2 => uni (clr b 0x30#8) 0x20#8
  | .osr3 => uni b 0x30#8
def acc1_odr (b : Byte) : ODR :=
  match (b &&& 0x0F#8).toNat with
  | 0x05 => .hz12_5 | 0x06 => .hz25 | 0x07 => .hz50 | 0x08 => .hz100
  | 0x09 => .hz200 | 0x0A => .hz400 | _ => .hz800
def acc1_with_odr (b : Byte) (o : ODR) : Byte :=
  uni (clr b 0x0F#8) (match o with
    | .hz12_5 => uni 0x04#8 0x01#8
    | .hz25 => uni 0x04#8 0x02#8
    | .hz50 => uni (uni 0x04#8 0x02#8) 0x01#8
    | .hz100 => 0x08#8
    | .hz200 => uni 0x08#8 0x01#8
    | .hz400 => uni 0x08#8 0x02#8
    | .hz800 => uni (uni 0x08#8 0x02#8) 0x01#8)

/-! ### AccConfig2 (0x1B) -/
def acc2_with_dta_reg_src (b : Byte) : DataSource → Byte
  | .filt1 => clr b 0x0C#8
  | .filt2 => uni (clr b 0x0C#8) 0x04#8
  | .filt2Lp => uni (clr b 0x0C#8) 0x08#8

/-! ### IntConfig0 (0x1F), IntConfig1 (0x20): single-bit flags -/
def ic0_DRDY : Byte := 0x80#8
def ic0_FWM : Byte := 0x40#8
def ic0_FFULL : Byte := 0x20#8
def ic0_GEN2 : Byte := 0x08#8
def ic0_GEN1 : Byte := 0x04#8
def ic0_ORIENTCH : Byte := 0x02#8
def ic1_LATCH : Byte := 0x80#8
def ic1_ACTCH : Byte := 0x10#8
def ic1_DTAP : Byte := 0x08#8
def ic1_STAP : Byte := 0x04#8
def ic1_STEP : Byte := 0x01#8

/-! ### Int1Map / Int2Map (0x21, 0x22), Int12Map (0x23) -/
def map_DRDY : Byte := 0x80#8
def map_FWM : Byte := 0x40#8
def map_FFULL : Byte := 0x20#8
def map_OVRRN : Byte := 0x10#8
def map_GEN2 : Byte := 0x08#8
def map_GEN1 : Byte := 0x04#8
def map_ORIENTCH : Byte := 0x02#8
def map_WKUP : Byte := 0x01#8
def m12_ACTCH2 : Byte := 0x80#8
def m12_TAP2 : Byte := 0x40#8
def m12_STEP2 : Byte := 0x10#8
def m12_ACTCH1 : Byte := 0x08#8
def m12_TAP1 : Byte := 0x04#8
def m12_STEP1 : Byte := 0x01#8

/-! ### Int12IOCtrl (0x24) -/
def io_with_int1_cfg (b : Byte) : PinCfg → Byte
  | .pushPull .activeLow => clr b (uni 0x02#8 0x04#8)
  | .pushPull .activeHigh => uni (clr b 0x04#8) 0x02#8
  | .openDrain .activeLow => uni (clr b 0x02#8) 0x04#8
  | .openDrain .activeHigh => uni b (uni 0x02#8 0x04#8)
def io_with_int2_cfg (b : Byte) : PinCfg → Byte
  | .pushPull .activeLow => clr b (uni 0x20#8 0x40#8)
  | .pushPull .activeHigh => uni (clr b 0x40#8) 0x20#8
  | .openDrain .activeLow => uni (clr b 0x20#8) 0x40#8
  | .openDrain .activeHigh => uni b (uni 0x20#8 0x40#8)

/-! ### FifoConfig0..2, FifoPwrConfig (0x26..0x29) -/
def f0_Z : Byte := 0x80#8
def f0_Y : Byte := 0x40#8
def f0_X : Byte := 0x20#8
def f0_8BIT : Byte := 0x10#8
def f0_SRC : Byte := 0x08#8
def f0_TIME : Byte := 0x04#8
def f0_STOP : Byte := 0x02#8
def f0_FLUSH : Byte := 0x01#8
/-- `with_fifo_src`: `_ => unreachable!()` for the low-pass source -/
def f0_with_fifo_src (b : Byte) : DataSource → Option Byte
  | .filt1 => some (clr b f0_SRC)
  | .filt2 => some (uni b f0_SRC)
  | .filt2Lp => none
def f1_with_thresh (t : Byte) : Byte := trunc 0xFF#8 t
def f2_with_thresh (t : Byte) : Byte := trunc 0x07#8 t
def fpwr_READ_DISABLE : Byte := 0x01#8

/-! ### AutoLowPow0/1 (0x2A, 0x2B) -/
def alp0_with_timeout_msb (timeout : Nat) : Byte := trunc 0xFF#8 (u16lo (timeout % 65536 / 16))
def alp1_with_timeout_lsb (b : Byte) (timeout : Nat) : Byte :=
  uni (clr b 0xF0#8) (trunc 0xFF#8 (u16lo (timeout * 16)))
def alp1_with_timeout_mode (b : Byte) : AutoLpTrig → Byte
  | .disabled => clr b 0x0C#8
  | .noReset => uni (clr b 0x0C#8) 0x04#8
  | .gen2Reset => uni (clr b 0x0C#8) 0x08#8
def alp1_GEN1_TRIG : Byte := 0x02#8
def alp1_DRDY_TRIG : Byte := 0x01#8

/-! ### AutoWakeup0/1 (0x2C, 0x2D) -/
def awk0_with_timeout_msb (timeout : Nat) : Byte := trunc 0xFF#8 (u16lo (timeout % 65536 / 16))
def awk1_with_timeout_lsb (b : Byte) (timeout : Nat) : Byte :=
  uni (clr b 0xF0#8) (trunc 0xF6#8 (u16lo (timeout * 16)))
def awk1_WKUP_TIMEOUT : Byte := 0x04#8
def awk1_WKUP_INT : Byte := 0x02#8

/-! ### WakeupIntConfig0..4 (0x2F..0x33) -/
def wk0_Z : Byte := 0x80#8
def wk0_Y : Byte := 0x40#8
def wk0_X : Byte := 0x20#8
def wk0_AXES : Byte := uni (uni wk0_X wk0_Y) wk0_Z
def wk0_with_num_samples (b : Byte) (n : Byte) : Byte :=
  uni (clr b 0x1C#8) (trunc 0xFF#8 (n <<< 2))
def wk0_with_reference_mode (b : Byte) : WkupRefMode → Byte
  | .manual => clr b 0x03#8
  | .oneTime => uni (clr b 0x03#8) 0x01#8
  | .everyTime => uni (clr b 0x03#8) 0x02#8

/-! ### OrientChgConfig0.. (0x35..0x3E) -/
def or0_Z : Byte := 0x80#8
def or0_Y : Byte := 0x40#8
def or0_X : Byte := 0x20#8
def or0_SRC : Byte := 0x10#8
/-- `with_data_src`: `AccFilt1 => unreachable!()` -/
def or0_with_data_src (b : Byte) : DataSource → Option Byte
  | .filt1 => none
  | .filt2 => some (clr b or0_SRC)
  | .filt2Lp => some (uni b or0_SRC)
def or0_with_update_mode (b : Byte) : OrientRefMode → Byte
  | .manual => clr b 0x0C#8
  | .filt2 => uni (clr b 0x0C#8) 0x04#8
  | .filt2Lp => uni (clr b 0x0C#8) 0x08#8
def ref_lsb_i16 (v : Int) : Byte := trunc 0xFF#8 (i16lo v)
def ref_msb_i16 (v : Int) : Byte := trunc 0x0F#8 (i16hi v)

/-! ### Gen1/Gen2IntConfig0.. (0x3F.., 0x4A..): identical code for both -/
def g0_Z : Byte := 0x80#8
def g0_Y : Byte := 0x40#8
def g0_X : Byte := 0x20#8
def g0_SRC : Byte := 0x10#8
/-- `with_src`: `AccFilt2Lp => unreachable!()` -/
def g0_with_src (b : Byte) : DataSource → Option Byte
  | .filt1 => some (clr b g0_SRC)
  | .filt2 => some (uni b g0_SRC)
  | .filt2Lp => none
/-- `src()` -/
def g0_src (b : Byte) : DataSource := if has b g0_SRC then .filt2 else .filt1
def g0_with_refu_mode (b : Byte) : GenRefMode → Byte
  | .manual => clr b 0x0C#8
  | .oneTime => uni (clr b 0x0C#8) 0x04#8
  | .everyTimeSrc => uni (clr b 0x0C#8) 0x08#8
  | .everyTimeLp => uni b 0x0C#8
def g0_with_act_hysteresis (b : Byte) : Hyst → Byte
  | .none => clr b 0x03#8
  | .h24 => uni (clr b 0x03#8) 0x01#8
  | .h48 => uni (clr b 0x03#8) 0x02#8
  | .h96 => uni b 0x03#8
def g1_with_criterion_sel (b : Byte) : Criterion → Byte
  | .inactivity => clr b 0x02#8
  | .activity => uni b 0x02#8
def g1_with_comb_sel (b : Byte) : Logic → Byte
  | .or => clr b 0x01#8
  | .and => uni b 0x01#8

/-! ### ActChgConfig0/1 (0x55, 0x56) -/
def ac1_Z : Byte := 0x80#8
def ac1_Y : Byte := 0x40#8
def ac1_X : Byte := 0x20#8
def ac1_SRC : Byte := 0x10#8
def ac1_src (b : Byte) : DataSource := if has b ac1_SRC then .filt2 else .filt1
/-- `with_dta_src`: `AccFilt2Lp => unreachable!()` -/
def ac1_with_dta_src (b : Byte) : DataSource → Option Byte
  | .filt1 => some (clr b ac1_SRC)
  | .filt2 => some (uni b ac1_SRC)
  | .filt2Lp => none
def ac1_with_observation_period (b : Byte) : ObsPeriod → Byte
  | .s32 => clr b 0x0F#8
  | .s64 => uni (clr b 0x0F#8) 0x01#8
  | .s128 => uni (clr b 0x0F#8) 0x02#8
  | .s256 => uni (uni (clr b 0x0F#8) 0x02#8) 0x01#8
  | .s512 => uni (clr b 0x0F#8) 0x04#8

/-! ### TapConfig0/1 (0x57, 0x58) -/
def tap0_with_axis (b : Byte) : Axis → Byte
  | .z => clr b 0x18#8
  | .y => uni (clr b 0x18#8) 0x08#8
  | .x => uni (clr b 0x18#8) 0x10#8
def tap0_with_sensitivity (b : Byte) : TapSens → Byte
  | .s0 => clr b 0x07#8
  | .s1 => uni (clr b 0x07#8) 0x01#8
  | .s2 => uni (clr b 0x07#8) 0x02#8
  | .s3 => uni (uni (clr b 0x07#8) 0x02#8) 0x01#8
  | .s4 => uni (clr b 0x07#8) 0x04#8
  | .s5 => uni (uni (clr b 0x07#8) 0x04#8) 0x01#8
  | .s6 => uni (uni (clr b 0x07#8) 0x04#8) 0x02#8
  | .s7 => uni b 0x07#8
def tap1_with_min_tap_duration (b : Byte) : MinTapDur → Byte
  | .s4 => clr b 0x30#8
  | .s8 => uni (clr b 0x30#8) 0x10#8
  | .s12 => uni (clr b 0x30#8) 0x20#8
  | .s16 => uni b 0x30#8
def tap1_with_double_tap_duration (b : Byte) : DTapDur → Byte
  | .s60 => clr b 0x0C#8
  | .s80 => uni (clr b 0x0C#8) 0x04#8
  | .s100 => uni (clr b 0x0C#8) 0x08#8
  | .s120 => uni b 0x0C#8
def tap1_with_max_tap_duration (b : Byte) : MaxTapDur → Byte
  | .s6 => clr b 0x03#8
  | .s9 => uni (clr b 0x03#8) 0x01#8
  | .s12 => uni (clr b 0x03#8) 0x02#8
  | .s18 => uni b 0x03#8

/-! ### InterfaceConfig (0x7C), SelfTest (0x7D), Command (0x7E) -/
def ifc_SPI3 : Byte := 0x01#8
def selftest_trunc (v : Byte) : Byte := trunc 0x0F#8 v
def cmd_FlushFifo : Byte := 0xB0#8
def cmd_ClearStepCount : Byte := 0xB1#8
def cmd_SoftReset : Byte := 0xB6#8

/-- `Default::default()` of every configuration register: `from_bits_truncate(reset literal)` -/
def defaultOf (a : Nat) : Byte :=
  if a = 0x1A then trunc 0xFF#8 0x49#8
  else if a = 0x24 then trunc 0x66#8 0x22#8
  else if a = 0x58 then trunc 0x3F#8 0x06#8
  else 0#8

end R
end Bma400
