/-
  Datasheet-level meaning of every builder setter: which fields it sets to which
  code.  Written from the API documentation of the setter and the datasheet
  field table (Datasheet.lean), independently of the encoder model (Regs.lean /
  Builders.lean).  `Request.spec pre` is "the previously applied settings
  overridden by exactly the values passed to the setters" of properties C01/C02/C09.
-/
import Bma400.Builders
import Bma400.Datasheet
namespace Bma400
namespace DS
open F

/-- set a list of (field, code) pairs -/
def puts (r : Regs) : List (Field × Nat) → Regs
  | [] => r
  | (f, c) :: rest => puts (f.put c r) rest

def axes3 (fx fy fz : Field) (x y z : Bool) : List (Field × Nat) :=
  [(fx, b2n x), (fy, b2n y), (fz, b2n z)]

/-- 12-bit reference value into an LSB / MSB register pair starting at `a` -/
def ref12 (a : Nat) (v : Int) : List (Field × Nat) :=
  let n := twos12 (satRef12 v)
  [(ref_lsb a, n % 256), (ref_msb a, n / 256)]

def accFields : AccSetter → List (Field × Nat)
  | .powerMode m => [(power_mode, codePowerMode m)]
  | .osrLp o => [(osr_lp, codeOSR o)]
  | .filt1Bw f => [(filt1_bw, codeFilt1Bw f)]
  | .odr o => [(acc_odr, codeODR o)]
  | .osr o => [(osr, codeOSR o)]
  | .scale s => [(acc_range, codeScale s)]
  | .regDtaSrc s => [(data_src_reg, codeDataSrcReg s)]

def intFields : IntSetter → List (Field × Nat)
  | .dtaRdy b => [(drdy_int_en, b2n b)]
  | .fwm b => [(fwm_int_en, b2n b)]
  | .ffull b => [(ffull_int_en, b2n b)]
  | .gen2 b => [(gen2_int_en, b2n b)]
  | .gen1 b => [(gen1_int_en, b2n b)]
  | .orientch b => [(orientch_int_en, b2n b)]
  | .latch b => [(latch_int, b2n b)]
  | .actch b => [(actch_int_en, b2n b)]
  | .dTap b => [(d_tap_int_en, b2n b)]
  | .sTap b => [(s_tap_int_en, b2n b)]
  | .step b => [(step_int_en, b2n b)]

def map12Fields (f : Nat → Field) (p : IntPins) : List (Field × Nat) :=
  [(f 0x21, pinInt1 p), (f 0x22, pinInt2 p)]

def pinFields : PinSetter → List (Field × Nat)
  | .drdy p => map12Fields map_drdy p
  | .fifoWm p => map12Fields map_fwm p
  | .ffull p => map12Fields map_ffull p
  | .iengOvrrn p => map12Fields map_ieng_ovrun p
  | .gen2 p => map12Fields map_gen2 p
  | .gen1 p => map12Fields map_gen1 p
  | .orientch p => map12Fields map_orientch p
  | .wkup p => map12Fields map_wkup p
  | .actch p => [(actch_int1, pinInt1 p), (actch_int2, pinInt2 p)]
  | .tap p => [(tap_int1, pinInt1 p), (tap_int2, pinInt2 p)]
  | .step p => [(step_int1, pinInt1 p), (step_int2, pinInt2 p)]
  | .int1Cfg c => [(int1_od, pinOd c), (int1_lvl, pinLvl c)]
  | .int2Cfg c => [(int2_od, pinOd c), (int2_lvl, pinLvl c)]

def fifoFields : FifoSetter → List (Field × Nat)
  | .readDisabled b => [(fifo_read_disable, b2n b)]
  | .axes x y z => axes3 fifo_x_en fifo_y_en fifo_z_en x y z
  | .eightBit b => [(fifo_8bit_en, b2n b)]
  | .src s => [(fifo_data_src, codeSrc01 s)]
  | .sendTimeOnEmpty b => [(fifo_time_en, b2n b)]
  | .stopOnFull b => [(fifo_stop_on_full, b2n b)]
  | .autoFlush b => [(auto_flush, b2n b)]
  | .watermark v => [(fifo_wm_lsb, satWatermark v % 256), (fifo_wm_msb, satWatermark v / 256)]

def alpFields : AlpSetter → List (Field × Nat)
  | .timeout v => [(auto_lp_timeout_thres_msb, sat12 v / 16), (auto_lp_timeout_thres_lsb, sat12 v % 16)]
  | .trigger t => [(auto_lp_timeout, codeAutoLpTrig t)]
  | .gen1Trig b => [(gen1_int_trig, b2n b)]
  | .drdyTrig b => [(drdy_lowpow_trig, b2n b)]

def awkFields : AwkSetter → List (Field × Nat)
  | .period v => [(wakeup_timeout_thres_msb, sat12 v / 16), (wakeup_timeout_thres_lsb, sat12 v % 16)]
  | .periodic b => [(wkup_timeout, b2n b)]
  | .activityInt b => [(wkup_int, b2n b)]

def wkupFields : WkupSetter → List (Field × Nat)
  | .refMode m => [(wkup_refu, codeWkupRef m)]
  | .numSamples n => [(wkup_num_of_samples, satNumSamples n.toNat)]
  | .axes x y z => axes3 wkup_x_en wkup_y_en wkup_z_en x y z
  | .threshold t => [(wkup_int_thres, t.toNat)]
  | .refAccel x y z => [(wkup_refx, twos8 x), (wkup_refy, twos8 y), (wkup_refz, twos8 z)]

def oriFields : OriSetter → List (Field × Nat)
  | .axes x y z => axes3 orient_x_en orient_y_en orient_z_en x y z
  | .src s => [(orient_data_src, codeOrientSrc s)]
  | .refMode m => [(orient_refu, codeOrientRef m)]
  | .threshold t => [(orient_thres, t.toNat)]
  | .duration d => [(orient_dur, d.toNat)]
  | .refAccel x y z => ref12 0x39 x ++ ref12 0x3B y ++ ref12 0x3D z

def genBase : GenId → Nat | .g1 => GEN1INT_CONFIG0 | .g2 => GEN2INT_CONFIG0

def genFields (g : GenId) : GenSetter → List (Field × Nat)
  | .axes x y z => axes3 (gen_x_en (genBase g)) (gen_y_en (genBase g)) (gen_z_en (genBase g)) x y z
  | .src s => [(gen_data_src (genBase g), codeSrc01 s)]
  | .refMode m => [(gen_refu (genBase g), codeGenRef m)]
  | .hysteresis h => [(gen_hyst (genBase g), codeHyst h)]
  | .criterion c => [(gen_criterion (genBase g), codeCriterion c)]
  | .logic l => [(gen_comb (genBase g), codeLogic l)]
  | .threshold t => [(gen_thres (genBase g), t.toNat)]
  | .duration d => [(gen_dur_msb (genBase g), d / 256), (gen_dur_lsb (genBase g), d % 256)]
  | .refAccel x y z =>
      ref12 (genBase g + 5) x ++ ref12 (genBase g + 7) y ++ ref12 (genBase g + 9) z

def actFields : ActSetter → List (Field × Nat)
  | .threshold t => [(actch_thres, t.toNat)]
  | .axes x y z => axes3 actch_x_en actch_y_en actch_z_en x y z
  | .src s => [(actch_data_src, codeSrc01 s)]
  | .obsPeriod p => [(actch_npts, codeObs p)]

def tapFields : TapSetter → List (Field × Nat)
  | .axis a => [(tap_sel_axis, codeAxis a)]
  | .sensitivity s => [(tap_sensitivity, codeTapSens s)]
  | .minDur d => [(tap_quiet_dt, codeMinTap d)]
  | .dtapDur d => [(tap_quiet, codeDTap d)]
  | .maxDur d => [(tap_tics_th, codeMaxTap d)]

/-- all (field, code) pairs a request sets, in call order -/
def Request.fields : Request → List (Field × Nat)
  | .acc l => l.flatMap accFields
  | .int l => l.flatMap intFields
  | .pin l => l.flatMap pinFields
  | .fifo l => l.flatMap fifoFields
  | .alp l => l.flatMap alpFields
  | .awk l => l.flatMap awkFields
  | .wkup l => l.flatMap wkupFields
  | .ori l => l.flatMap oriFields
  | .gen g l => l.flatMap (genFields g)
  | .act l => l.flatMap actFields
  | .tap l => l.flatMap tapFields

/-- the configuration the device should hold after request `q` is applied on top of `pre` -/
def Request.spec (q : Request) (pre : Regs) : Regs := puts pre (Request.fields q)

end DS
end Bma400
