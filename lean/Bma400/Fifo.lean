/-
  FIFO frame format of the BMA400 (datasheet 4.7) as an encoder from frame
  specifications to bytes - the reference C04 is stated against - and the
  executable forms of C04 / C05 used by `judge`.
-/
import Bma400.Types
import Bma400.Datasheet
namespace Bma400
namespace Fifo

/-- what the sensor put into the FIFO -/
inductive FrameSpec
  /-- data frame; sample values are 12-bit signed (-2048..2047); `none` = axis not captured -/
  | data (res12 : Bool) (x y z : Option Int)
  | control (srcChg bwChg acc1Chg : Bool)
  | time (t : Nat)
  deriving DecidableEq, Repr

def FrameSpec.wf : FrameSpec → Bool
  | .data _ x y z =>
      (x.isSome || y.isSome || z.isSome) &&
      [x, y, z].all (fun o => match o with | none => true | some v => decide (-2048 ≤ v ∧ v ≤ 2047))
  | .control _ _ _ => true
  | .time t => decide (t < 2 ^ 24)

def sample (res12 : Bool) (v : Int) : List Byte :=
  let n := DS.twos12 v
  if res12 then [BitVec.ofNat 8 (n % 16), BitVec.ofNat 8 (n / 16)] else [BitVec.ofNat 8 (n / 16)]

def optSample (res12 : Bool) : Option Int → List Byte
  | none => []
  | some v => sample res12 v

def bitIf (c : Bool) (m : Nat) : Nat := if c then m else 0

def encode : FrameSpec → List Byte
  | .data res12 x y z =>
      BitVec.ofNat 8 (0x80 + bitIf res12 0x10 + bitIf x.isSome 0x02 + bitIf y.isSome 0x04 + bitIf z.isSome 0x08)
        :: (optSample res12 x ++ optSample res12 y ++ optSample res12 z)
  | .control a b c => [0x48#8, BitVec.ofNat 8 (bitIf a 0x02 + bitIf b 0x04 + bitIf c 0x08)]
  | .time t => [0xA0#8, BitVec.ofNat 8 (t % 256), BitVec.ofNat 8 (t / 256 % 256), BitVec.ofNat 8 (t / 65536 % 256)]

def encodeAll (fs : List FrameSpec) : List Byte := fs.flatMap encode

/-- the value a user must read back for a sample: 12-bit mode verbatim, 8-bit mode the
    upper eight bits with the low four bits zero -/
def carried (res12 : Bool) (v : Int) : Int := if res12 then v else v - v % 16

/-- what the accessors must return for a frame -/
def view : FrameSpec → T.View
  | .data r x y z => ⟨.data, x.map (carried r), y.map (carried r), z.map (carried r), none, none, none, none⟩
  | .control a b c => ⟨.control, none, none, none, none, some a, some b, some c⟩
  | .time t => ⟨.time, none, none, none, some t, none, none, none⟩

/-- FIFO-empty marker -/
def emptyMarker : List Byte := [0x80#8, 0x00#8]

/-- what may follow the last complete frame in a buffer -/
inductive Tail
  | none
  | marker (rest : List Byte)
  | cut (f : FrameSpec) (k : Nat)       -- the first k bytes of `encode f`, 0 < k < length
  deriving Repr

def Tail.bytes : Tail → List Byte
  | .none => []
  | .marker rest => emptyMarker ++ rest
  | .cut f k => (encode f).take k

def Tail.wf : Tail → Bool
  | .none => true
  | .marker _ => true
  | .cut f k => f.wf && decide (0 < k ∧ k < (encode f).length)

/-! ### text form of specs (case header `fspec=…`, `ftail=…`) -/

def parseOptInt (s : String) : Option (Option Int) := if s = "_" then some none else s.toInt?.map some
def parseB (s : String) : Option Bool := if s = "1" then some true else if s = "0" then some false else none

def parseSpec (s : String) : Option FrameSpec :=
  match s.splitOn "." with
  | ["D12", x, y, z] => do pure (.data true (← parseOptInt x) (← parseOptInt y) (← parseOptInt z))
  | ["D8", x, y, z] => do pure (.data false (← parseOptInt x) (← parseOptInt y) (← parseOptInt z))
  | ["C", a, b, c] => do pure (.control (← parseB a) (← parseB b) (← parseB c))
  | ["T", t] => t.toNat?.map .time
  | _ => none

def parseSpecs (s : String) : Option (List FrameSpec) :=
  if s = "-" then some [] else (s.splitOn "/").mapM parseSpec

def hexD (c : Char) : Option Nat :=
  if '0' ≤ c ∧ c ≤ '9' then some (c.toNat - 48) else if 'a' ≤ c ∧ c ≤ 'f' then some (c.toNat - 87) else none
def hexBytes? (s : String) : Option (List Byte) :=
  let rec go : List Char → Option (List Byte)
    | [] => some []
    | [_] => none
    | a :: b :: r => do pure (BitVec.ofNat 8 ((← hexD a) * 16 + (← hexD b)) :: (← go r))
  go s.toList

/-- `none`, `marker:<hex>`, `cut:<spec>:<k>` -/
def parseTail (s : String) : Option Tail :=
  match s.splitOn ":" with
  | ["none"] => some .none
  | ["marker", h] => (hexBytes? h).map .marker
  | ["marker"] => some (.marker [])
  | ["cut", f, k] => do pure (.cut (← parseSpec f) (← k.toNat?))
  | _ => none

/-! ### result tokens of `read_fifo_frames` (see `fmtFifo`) -/

structure Tok where
  start : Nat
  stop : Nat
  body : String
  deriving Repr

/-- `N` ↦ none; `F<start>-<stop>:<body>` ↦ some -/
def parseTok (t : String) : Option (Option Tok) :=
  if t = "N" then some none
  else if t.startsWith "F" then
    match (t.drop 1).toString.splitOn ":" with
    | span :: body =>
      match span.splitOn "-" with
      | [a, b] => do pure (some ⟨← a.toNat?, ← b.toNat?, ":".intercalate body⟩)
      | _ => none
    | _ => none
  else none

def parseToks (v : String) : Option (List (Option Tok)) :=
  ((v.splitOn " ").filter (· ≠ "")).mapM parseTok

/-- payload length implied by a header byte, from the datasheet frame format: time 3,
    control 1, data = number of enabled axes (x2 in 12-bit mode), empty data header 1 -/
def payloadLen (b : Byte) : Nat := T.numPayloadBytes (T.hdr b)

/-- C05 on the observed result of `len + 2` successive `next()` calls over buffer `buf` -/
def judgeC05 (buf : List Byte) (v : String) : Bool :=
  match parseToks v with
  | none => false
  | some toks =>
    let frames := toks.filterMap id
    -- every call answered, the last one with None (iteration over within len+1 calls)
    toks.length == buf.length + 2 && (toks.getLast?.map (·.isNone)).getD false &&
    -- no accessor panicked
    frames.all (fun f => f.body != "PANIC") &&
    -- in bounds, header-implied length
    frames.all (fun f => f.start < f.stop && f.stop ≤ buf.length &&
      f.stop - f.start == 1 + payloadLen (buf.getD f.start 0#8)) &&
    -- increasing, non-overlapping
    (frames.zip (frames.drop 1)).all (fun (a, b) => a.stop ≤ b.start)

def fmtView (start stop : Nat) (v : T.View) : String :=
  let o {α} [ToString α] : Option α → String := fun x => match x with | none => "_" | some a => toString a
  let ob : Option Bool → String := fun x => match x with | none => "_" | some true => "1" | some false => "0"
  let ft := match v.ftype with | .data => "D" | .time => "T" | .control => "C"
  s!"F{start}-{stop}:{ft}:{o v.x},{o v.y},{o v.z},{o v.time},{ob v.fifoSrcChg},{ob v.filt1BwChg},{ob v.acc1Chg}"

/-- the result tokens C04 demands for a stream: one token per frame, then `N` -/
def expectedToks (fs : List FrameSpec) : List String :=
  (fs.foldl (fun (acc : Nat × List String) f =>
    let stop := acc.1 + (encode f).length
    (stop, acc.2 ++ [fmtView acc.1 stop (view f)])) (0, [])).2

/-- C04 on the observed result: buffer = encodeAll fs ++ tail, iteration yields exactly the
    views of `fs` and then `None` -/
def judgeC04 (fs : List FrameSpec) (tail : Tail) (buf : List Byte) (v : String) : Bool :=
  fs.all (·.wf) && tail.wf && buf == encodeAll fs ++ tail.bytes &&
  (let toks := (v.splitOn " ").filter (· ≠ "")
   toks.take (fs.length + 1) == expectedToks fs ++ ["N"])

end Fifo
end Bma400
