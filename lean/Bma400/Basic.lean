/-
  Basic vocabulary of the model: bytes, register files, the public enums of the
  driver API, errors, bus actions.

  No imports: everything the executable model needs is Lean core, so that
  `Main.lean` links as a native executable.
-/
namespace Bma400

abbrev Byte := BitVec 8

/-- A register file: address ↦ byte.  Used for the chip's registers and for the
    driver's recorded configuration ("shadow").  Only addresses below 0x80 are
    ever inspected. -/
abbrev Regs := Nat → Byte

def Regs.set (r : Regs) (a : Nat) (v : Byte) : Regs := fun x => if x = a then v else r x

@[simp] theorem Regs.set_same (r : Regs) (a : Nat) (v : Byte) : (r.set a v) a = v := by
  simp [Regs.set]

@[simp] theorem Regs.set_other (r : Regs) (a x : Nat) (v : Byte) (h : x ≠ a) :
    (r.set a v) x = r x := by
  simp [Regs.set, h]

theorem Regs.set_apply (r : Regs) (a x : Nat) (v : Byte) :
    (r.set a v) x = if x = a then v else r x := rfl

/-- bit test: some bit of `m` is set in `b` (bitflags `intersects`). -/
def has (b m : Byte) : Bool := (b &&& m) != 0#8

/-- bitflags `difference` -/
def clr (b m : Byte) : Byte := b &&& ~~~m
/-- bitflags `union` -/
def uni (b m : Byte) : Byte := b ||| m
/-- `if en { union(m) } else { difference(m) }` -/
def flag (b m : Byte) (en : Bool) : Byte := if en then b ||| m else b &&& ~~~m

/-! ### Public enums of the driver API (src/types.rs), in declaration order -/

inductive PowerMode | sleep | lowPower | normal deriving DecidableEq, Repr
inductive OSR | osr0 | osr1 | osr2 | osr3 deriving DecidableEq, Repr
inductive Filt1Bw | high | low deriving DecidableEq, Repr
inductive ODR | hz12_5 | hz25 | hz50 | hz100 | hz200 | hz400 | hz800 deriving DecidableEq, Repr
inductive Scale | r2g | r4g | r8g | r16g deriving DecidableEq, Repr
inductive DataSource | filt1 | filt2 | filt2Lp deriving DecidableEq, Repr
inductive IntPins | none | int1 | int2 | both deriving DecidableEq, Repr
inductive PinLevel | activeLow | activeHigh deriving DecidableEq, Repr
inductive PinCfg | pushPull (l : PinLevel) | openDrain (l : PinLevel) deriving DecidableEq, Repr
inductive AutoLpTrig | disabled | noReset | gen2Reset deriving DecidableEq, Repr
inductive WkupRefMode | manual | oneTime | everyTime deriving DecidableEq, Repr
inductive OrientRefMode | manual | filt2 | filt2Lp deriving DecidableEq, Repr
inductive ObsPeriod | s32 | s64 | s128 | s256 | s512 deriving DecidableEq, Repr
inductive TapSens | s0 | s1 | s2 | s3 | s4 | s5 | s6 | s7 deriving DecidableEq, Repr
inductive Axis | x | y | z deriving DecidableEq, Repr
inductive MinTapDur | s4 | s8 | s12 | s16 deriving DecidableEq, Repr
inductive DTapDur | s60 | s80 | s100 | s120 deriving DecidableEq, Repr
inductive MaxTapDur | s6 | s9 | s12 | s18 deriving DecidableEq, Repr
inductive GenRefMode | manual | oneTime | everyTimeSrc | everyTimeLp deriving DecidableEq, Repr
inductive Hyst | none | h24 | h48 | h96 deriving DecidableEq, Repr
inductive Criterion | inactivity | activity deriving DecidableEq, Repr
inductive Logic | or | and deriving DecidableEq, Repr

/-- which generic interrupt a `GenIntConfigBuilder` configures -/
inductive GenId | g1 | g2 deriving DecidableEq, Repr

/-! ### Errors -/

inductive CfgErr | filt1Odr | tapOdr | fifoPwr deriving DecidableEq, Repr

/-- `BMA400Error`; the payload of a bus / pin error is the index (within the
    API call) of the raw HAL operation that failed - "that very failure". -/
inductive Err
  | io (rawIdx : Nat)
  | pin (rawIdx : Nat)
  | cfg (e : CfgErr)
  | chipId
  | selfTest
  deriving DecidableEq, Repr

/-! ### Bus actions issued by the device logic (transport independent) -/

/-- what happens to the recorded configuration once a write is acknowledged -/
inductive Eff
  | none     -- not a recorded register (commands, self-test, interface config)
  | commit   -- record the written byte
  | reset    -- replace the whole recorded configuration by the reset defaults
  deriving DecidableEq, Repr

inductive Act
  | wr (a : Nat) (v : Byte) (e : Eff)   -- `write_register`
  | rd (a : Nat) (n : Nat)              -- `read_register` into a buffer of n bytes
  | delay (ms : Nat)                    -- `DelayMs::delay_ms`
  deriving DecidableEq, Repr

/-- a register write of a configuration builder (always recorded when acknowledged) -/
structure W where
  addr : Nat
  val : Byte
  deriving DecidableEq, Repr

def W.act (w : W) : Act := .wr w.addr w.val .commit

end Bma400
