/-
  Model of the eleven configuration builders (src/config/*.rs).

  A builder is created as a copy of the recorded configuration ("shadow"),
  each `with_*` setter updates the copy (`apply`), and `write()` validates the
  request and then performs a straight-line sequence of register writes, every
  one of which is recorded in the shadow as soon as it is acknowledged.  None
  of the builders reads from the bus and every condition in `write()` depends
  only on the shadow at the time of the call and on the request, so `write()`
  is modelled as a pure function

      script : (shadow : Regs) → (request : Regs) → Except CfgErr (List W)

  The bus interpreter (Driver.lean) executes the list until the first failure.
-/
import Bma400.Regs
namespace Bma400
open R

/-! ## Setters, one inductive per builder -/

inductive AccSetter
  | powerMode (m : PowerMode) | osrLp (o : OSR) | filt1Bw (f : Filt1Bw)
  | odr (o : ODR) | osr (o : OSR) | scale (s : Scale) | regDtaSrc (s : DataSource)
  deriving DecidableEq, Repr

inductive IntSetter
  | dtaRdy (b : Bool) | fwm (b : Bool) | ffull (b : Bool) | gen2 (b : Bool) | gen1 (b : Bool)
  | orientch (b : Bool) | latch (b : Bool) | actch (b : Bool) | dTap (b : Bool) | sTap (b : Bool)
  | step (b : Bool)
  deriving DecidableEq, Repr

inductive PinSetter
  | drdy (p : IntPins) | fifoWm (p : IntPins) | ffull (p : IntPins) | iengOvrrn (p : IntPins)
  | gen2 (p : IntPins) | gen1 (p : IntPins) | orientch (p : IntPins) | wkup (p : IntPins)
  | actch (p : IntPins) | tap (p : IntPins) | step (p : IntPins)
  | int1Cfg (c : PinCfg) | int2Cfg (c : PinCfg)
  deriving DecidableEq, Repr

inductive FifoSetter
  | readDisabled (b : Bool) | axes (x y z : Bool) | eightBit (b : Bool) | src (s : DataSource)
  | sendTimeOnEmpty (b : Bool) | stopOnFull (b : Bool) | autoFlush (b : Bool)
  | watermark (v : Nat)                       -- u16
  deriving DecidableEq, Repr

inductive AlpSetter
  | timeout (v : Nat)                         -- u16
  | trigger (t : AutoLpTrig) | gen1Trig (b : Bool) | drdyTrig (b : Bool)
  deriving DecidableEq, Repr

inductive AwkSetter
  | period (v : Nat)                          -- u16
  | periodic (b : Bool) | activityInt (b : Bool)
  deriving DecidableEq, Repr

inductive WkupSetter
  | refMode (m : WkupRefMode) | numSamples (n : Byte) | axes (x y z : Bool)
  | threshold (t : Byte) | refAccel (x y z : Int)   -- i8
  deriving DecidableEq, Repr

inductive OriSetter
  | axes (x y z : Bool) | src (s : DataSource) | refMode (m : OrientRefMode)
  | threshold (t : Byte) | duration (d : Byte) | refAccel (x y z : Int)   -- i16
  deriving DecidableEq, Repr

inductive GenSetter
  | axes (x y z : Bool) | src (s : DataSource) | refMode (m : GenRefMode) | hysteresis (h : Hyst)
  | criterion (c : Criterion) | logic (l : Logic) | threshold (t : Byte)
  | duration (d : Nat)                        -- u16
  | refAccel (x y z : Int)                    -- i16
  deriving DecidableEq, Repr

inductive ActSetter
  | threshold (t : Byte) | axes (x y z : Bool) | src (s : DataSource) | obsPeriod (p : ObsPeriod)
  deriving DecidableEq, Repr

inductive TapSetter
  | axis (a : Axis) | sensitivity (s : TapSens) | minDur (d : MinTapDur)
  | dtapDur (d : DTapDur) | maxDur (d : MaxTapDur)
  deriving DecidableEq, Repr

/-! ## helpers -/

/-- update one register of the request copy: `r.set a (f (r a))`, written so that a lookup
    evaluates `r` once (keeps the executable model linear in the number of setters) -/
def upd (r : Regs) (a : Nat) (f : Byte → Byte) : Regs := fun x => if x = a then f (r x) else r x

theorem upd_eq_set (r : Regs) (a : Nat) (f : Byte → Byte) : upd r a f = r.set a (f (r a)) := by
  funext x; unfold upd Regs.set; split <;> simp_all

def matchMapped : IntPins → Bool × Bool
  | .none => (false, false) | .int1 => (true, false) | .int2 => (false, true) | .both => (true, true)

/-- `u16::clamp(0, hi)` -/
def clampU16 (v hi : Nat) : Nat := min v hi
/-- `i16::clamp(-2048, 2047)` -/
def clampRef (v : Int) : Int := max (-2048) (min v 2047)

/-! ### the public setters that substitute an unsupported data source.
    The register-level encoder is partial (`unreachable!()`); the builder-level
    setter is shown total (`…_isSome`) and defined through `Option.get`. -/

def fifoSrc? (b : Byte) (s : DataSource) : Option Byte :=
  match s with
  | .filt2Lp => f0_with_fifo_src b .filt2
  | s => f0_with_fifo_src b s
theorem fifoSrc?_isSome (b : Byte) (s : DataSource) : (fifoSrc? b s).isSome = true := by
  cases s <;> rfl
def fifoSrc (b : Byte) (s : DataSource) : Byte := (fifoSrc? b s).get (fifoSrc?_isSome b s)

def oriSrc? (b : Byte) (s : DataSource) : Option Byte :=
  match s with
  | .filt1 => or0_with_data_src b .filt2
  | s => or0_with_data_src b s
theorem oriSrc?_isSome (b : Byte) (s : DataSource) : (oriSrc? b s).isSome = true := by
  cases s <;> rfl
def oriSrc (b : Byte) (s : DataSource) : Byte := (oriSrc? b s).get (oriSrc?_isSome b s)

def genSrc? (b : Byte) (s : DataSource) : Option Byte :=
  let s := match s with | .filt2Lp => DataSource.filt2 | s => s
  g0_with_src b s
theorem genSrc?_isSome (b : Byte) (s : DataSource) : (genSrc? b s).isSome = true := by
  cases s <;> rfl
def genSrc (b : Byte) (s : DataSource) : Byte := (genSrc? b s).get (genSrc?_isSome b s)

def actSrc? (b : Byte) (s : DataSource) : Option Byte :=
  match s with
  | .filt2Lp => ac1_with_dta_src b .filt2
  | s => ac1_with_dta_src b s
theorem actSrc?_isSome (b : Byte) (s : DataSource) : (actSrc? b s).isSome = true := by
  cases s <;> rfl
def actSrc (b : Byte) (s : DataSource) : Byte := (actSrc? b s).get (actSrc?_isSome b s)

/-! ## `with_*`: effect of each setter on the builder's copy -/

def AccSetter.apply (r : Regs) : AccSetter → Regs
  | .powerMode m => upd r 0x19 (acc0_with_power_mode · m)
  | .osrLp o => upd r 0x19 (acc0_with_osr_lp · o)
  | .filt1Bw f => upd r 0x19 (acc0_with_filt1_bw · f)
  | .odr o => upd r 0x1A (acc1_with_odr · o)
  | .osr o => upd r 0x1A (acc1_with_osr · o)
  | .scale s => upd r 0x1A (acc1_with_scale · s)
  | .regDtaSrc s => upd r 0x1B (acc2_with_dta_reg_src · s)

def IntSetter.apply (r : Regs) : IntSetter → Regs
  | .dtaRdy b => upd r 0x1F (flag · ic0_DRDY b)
  | .fwm b => upd r 0x1F (flag · ic0_FWM b)
  | .ffull b => upd r 0x1F (flag · ic0_FFULL b)
  | .gen2 b => upd r 0x1F (flag · ic0_GEN2 b)
  | .gen1 b => upd r 0x1F (flag · ic0_GEN1 b)
  | .orientch b => upd r 0x1F (flag · ic0_ORIENTCH b)
  | .latch b => upd r 0x20 (flag · ic1_LATCH b)
  | .actch b => upd r 0x20 (flag · ic1_ACTCH b)
  | .dTap b => upd r 0x20 (flag · ic1_DTAP b)
  | .sTap b => upd r 0x20 (flag · ic1_STAP b)
  | .step b => upd r 0x20 (flag · ic1_STEP b)

/-- Int1Map / Int2Map setter: both registers, same mask -/
def map12 (r : Regs) (m : Byte) (p : IntPins) : Regs :=
  let (i1, i2) := matchMapped p
  upd (upd r 0x21 (flag · m i1)) 0x22 (flag · m i2)
/-- Int12Map setter: one register, two masks -/
def map3 (r : Regs) (m1 m2 : Byte) (p : IntPins) : Regs :=
  let (i1, i2) := matchMapped p
  upd r 0x23 (fun b => flag (flag b m1 i1) m2 i2)

def PinSetter.apply (r : Regs) : PinSetter → Regs
  | .drdy p => map12 r map_DRDY p
  | .fifoWm p => map12 r map_FWM p
  | .ffull p => map12 r map_FFULL p
  | .iengOvrrn p => map12 r map_OVRRN p
  | .gen2 p => map12 r map_GEN2 p
  | .gen1 p => map12 r map_GEN1 p
  | .orientch p => map12 r map_ORIENTCH p
  | .wkup p => map12 r map_WKUP p
  | .actch p => map3 r m12_ACTCH1 m12_ACTCH2 p
  | .tap p => map3 r m12_TAP1 m12_TAP2 p
  | .step p => map3 r m12_STEP1 m12_STEP2 p
  | .int1Cfg c => upd r 0x24 (io_with_int1_cfg · c)
  | .int2Cfg c => upd r 0x24 (io_with_int2_cfg · c)

def FifoSetter.apply (r : Regs) : FifoSetter → Regs
  | .readDisabled b => upd r 0x29 (flag · fpwr_READ_DISABLE b)
  | .axes x y z => upd r 0x26 (fun b => flag (flag (flag b f0_X x) f0_Y y) f0_Z z)
  | .eightBit b => upd r 0x26 (flag · f0_8BIT b)
  | .src s => upd r 0x26 (fifoSrc · s)
  | .sendTimeOnEmpty b => upd r 0x26 (flag · f0_TIME b)
  | .stopOnFull b => upd r 0x26 (flag · f0_STOP b)
  | .autoFlush b => upd r 0x26 (flag · f0_FLUSH b)
  | .watermark v =>
      let t := clampU16 v 1024
      (r.set 0x27 (f1_with_thresh (u16lo t))).set 0x28 (f2_with_thresh (u16hi t))

def AlpSetter.apply (r : Regs) : AlpSetter → Regs
  | .timeout v =>
      let t := clampU16 v 4095
      upd (r.set 0x2A (alp0_with_timeout_msb t)) 0x2B (alp1_with_timeout_lsb · t)
  | .trigger t => upd r 0x2B (alp1_with_timeout_mode · t)
  | .gen1Trig b => upd r 0x2B (flag · alp1_GEN1_TRIG b)
  | .drdyTrig b => upd r 0x2B (flag · alp1_DRDY_TRIG b)

def AwkSetter.apply (r : Regs) : AwkSetter → Regs
  | .period v =>
      let t := clampU16 v 4095
      upd (r.set 0x2C (awk0_with_timeout_msb t)) 0x2D (awk1_with_timeout_lsb · t)
  | .periodic b => upd r 0x2D (flag · awk1_WKUP_TIMEOUT b)
  | .activityInt b => upd r 0x2D (flag · awk1_WKUP_INT b)

/-- `num_samples.clamp(1, 8) - 1` -/
def clampSamples (n : Byte) : Byte := BitVec.ofNat 8 (max 1 (min n.toNat 8) - 1)

def WkupSetter.apply (r : Regs) : WkupSetter → Regs
  | .refMode m => upd r 0x2F (wk0_with_reference_mode · m)
  | .numSamples n => upd r 0x2F (wk0_with_num_samples · (clampSamples n))
  | .axes x y z => upd r 0x2F (fun b => flag (flag (flag b wk0_X x) wk0_Y y) wk0_Z z)
  | .threshold t => r.set 0x30 (trunc 0xFF#8 t)
  | .refAccel x y z =>
      ((r.set 0x31 (trunc 0xFF#8 (i8byte x))).set 0x32 (trunc 0xFF#8 (i8byte y))).set 0x33
        (trunc 0xFF#8 (i8byte z))

/-- the six reference registers starting at `a` (LSB, MSB per axis) -/
def setRef12 (r : Regs) (a : Nat) (x y z : Int) : Regs :=
  let (x, y, z) := (clampRef x, clampRef y, clampRef z)
  (((((r.set a (ref_lsb_i16 x)).set (a + 1) (ref_msb_i16 x)).set (a + 2) (ref_lsb_i16 y)).set
    (a + 3) (ref_msb_i16 y)).set (a + 4) (ref_lsb_i16 z)).set (a + 5) (ref_msb_i16 z)

def OriSetter.apply (r : Regs) : OriSetter → Regs
  | .axes x y z => upd r 0x35 (fun b => flag (flag (flag b or0_X x) or0_Y y) or0_Z z)
  | .src s => upd r 0x35 (oriSrc · s)
  | .refMode m => upd r 0x35 (or0_with_update_mode · m)
  | .threshold t => r.set 0x36 (trunc 0xFF#8 t)
  | .duration d => r.set 0x38 (trunc 0xFF#8 d)
  | .refAccel x y z => setRef12 r 0x39 x y z

def GenId.base : GenId → Nat | .g1 => 0x3F | .g2 => 0x4A
def GenId.enMask : GenId → Byte | .g1 => ic0_GEN1 | .g2 => ic0_GEN2

def GenSetter.apply (g : GenId) (r : Regs) : GenSetter → Regs
  | .axes x y z => upd r g.base (fun b => flag (flag (flag b g0_X x) g0_Y y) g0_Z z)
  | .src s => upd r g.base (genSrc · s)
  | .refMode m => upd r g.base (g0_with_refu_mode · m)
  | .hysteresis h => upd r g.base (g0_with_act_hysteresis · h)
  | .criterion c => upd r (g.base + 1) (g1_with_criterion_sel · c)
  | .logic l => upd r (g.base + 1) (g1_with_comb_sel · l)
  | .threshold t => r.set (g.base + 2) (trunc 0xFF#8 t)
  | .duration d => (r.set (g.base + 3) (trunc 0xFF#8 (u16hi d))).set (g.base + 4) (trunc 0xFF#8 (u16lo d))
  | .refAccel x y z => setRef12 r (g.base + 5) x y z

def ActSetter.apply (r : Regs) : ActSetter → Regs
  | .threshold t => r.set 0x55 (trunc 0xFF#8 t)
  | .axes x y z => upd r 0x56 (fun b => flag (flag (flag b ac1_X x) ac1_Y y) ac1_Z z)
  | .src s => upd r 0x56 (actSrc · s)
  | .obsPeriod p => upd r 0x56 (ac1_with_observation_period · p)

def TapSetter.apply (r : Regs) : TapSetter → Regs
  | .axis a => upd r 0x57 (tap0_with_axis · a)
  | .sensitivity s => upd r 0x57 (tap0_with_sensitivity · s)
  | .minDur d => upd r 0x58 (tap1_with_min_tap_duration · d)
  | .dtapDur d => upd r 0x58 (tap1_with_double_tap_duration · d)
  | .maxDur d => upd r 0x58 (tap1_with_max_tap_duration · d)

/-! ## Requests -/

/-- one builder call chain: `config_xxx().with_…().with_…().write()` -/
inductive Request
  | acc (l : List AccSetter)
  | int (l : List IntSetter)
  | pin (l : List PinSetter)
  | fifo (l : List FifoSetter)
  | alp (l : List AlpSetter)
  | awk (l : List AwkSetter)
  | wkup (l : List WkupSetter)
  | ori (l : List OriSetter)
  | gen (g : GenId) (l : List GenSetter)
  | act (l : List ActSetter)
  | tap (l : List TapSetter)
  deriving DecidableEq, Repr

/-- the builder's copy after all setters, starting from the shadow -/
def Request.target (sh : Regs) : Request → Regs
  | .acc l => l.foldl AccSetter.apply sh
  | .int l => l.foldl IntSetter.apply sh
  | .pin l => l.foldl PinSetter.apply sh
  | .fifo l => l.foldl FifoSetter.apply sh
  | .alp l => l.foldl AlpSetter.apply sh
  | .awk l => l.foldl AwkSetter.apply sh
  | .wkup l => l.foldl WkupSetter.apply sh
  | .ori l => l.foldl OriSetter.apply sh
  | .gen g l => l.foldl (GenSetter.apply g) sh
  | .act l => l.foldl ActSetter.apply sh
  | .tap l => l.foldl TapSetter.apply sh

/-- the registers of the block a builder configures -/
def Request.block : Request → List Nat
  | .acc _ => [0x19, 0x1A, 0x1B]
  | .int _ => [0x1F, 0x20]
  | .pin _ => [0x21, 0x22, 0x23, 0x24]
  | .fifo _ => [0x26, 0x27, 0x28, 0x29]
  | .alp _ => [0x2A, 0x2B]
  | .awk _ => [0x2C, 0x2D]
  | .wkup _ => [0x2F, 0x30, 0x31, 0x32, 0x33]
  | .ori _ => [0x35, 0x36, 0x38, 0x39, 0x3A, 0x3B, 0x3C, 0x3D, 0x3E]
  | .gen .g1 _ => [0x3F, 0x40, 0x41, 0x42, 0x43, 0x44, 0x45, 0x46, 0x47, 0x48, 0x49]
  | .gen .g2 _ => [0x4A, 0x4B, 0x4C, 0x4D, 0x4E, 0x4F, 0x50, 0x51, 0x52, 0x53, 0x54]
  | .act _ => [0x55, 0x56]
  | .tap _ => [0x57, 0x58]

/-! ## `write()` -/

/-- "write the register if its bits differ from the recorded ones" -/
def dw (sh rq : Regs) (a : Nat) : List W := if sh a ≠ rq a then [⟨a, rq a⟩] else []

/-- the same for a list of registers, in order -/
def dws (sh rq : Regs) (as : List Nat) : List W := as.flatMap (dw sh rq)

def chg (sh rq : Regs) (as : List Nat) : Bool := as.any (fun a => sh a != rq a)

/-- one conditional write -/
def wIf (c : Bool) (a : Nat) (v : Byte) : List W := if c then [⟨a, v⟩] else []

def odrIs100 (r : Regs) : Bool := acc1_odr (r 0x1A) == .hz100
def odrIs200 (r : Regs) : Bool := acc1_odr (r 0x1A) == .hz200
def gen1En (r : Regs) : Bool := has (r 0x1F) ic0_GEN1
def gen2En (r : Regs) : Bool := has (r 0x1F) ic0_GEN2
def actchEn (r : Regs) : Bool := has (r 0x20) ic1_ACTCH
def tapEn (r : Regs) : Bool := has (r 0x20) ic1_DTAP || has (r 0x20) ic1_STAP
def gen1Filt1 (r : Regs) : Bool := g0_src (r 0x3F) == .filt1
def gen2Filt1 (r : Regs) : Bool := g0_src (r 0x4A) == .filt1
def actFilt1 (r : Regs) : Bool := ac1_src (r 0x56) == .filt1

def accScript (sh rq : Regs) : Except CfgErr (List W) :=
  let filt1Used := (actchEn sh && actFilt1 sh) || (gen1En sh && gen1Filt1 sh) || (gen2En sh && gen2Filt1 sh)
  if filt1Used && !odrIs100 rq then .error .filt1Odr
  else if tapEn sh && !odrIs200 rq then .error .tapOdr
  else .ok (dws sh rq [0x19, 0x1A, 0x1B])

def intScript (sh rq : Regs) : Except CfgErr (List W) :=
  if tapEn rq && !odrIs200 sh then .error .tapOdr
  else if gen1En rq && !odrIs100 sh && gen1Filt1 sh then .error .filt1Odr
  else if gen2En rq && !odrIs100 sh && gen2Filt1 sh then .error .filt1Odr
  else if actchEn rq && !odrIs100 sh && actFilt1 sh then .error .filt1Odr
  else .ok (dws sh rq [0x1F, 0x20])

/-- is the interrupt with map bit `m` mapped to a pin in the requested Int1Map/Int2Map -/
def mapped12 (rq : Regs) (m : Byte) : Bool := has (rq 0x21) m || has (rq 0x22) m
def mapped3 (rq : Regs) (m1 m2 : Byte) : Bool := has (rq 0x23) m1 || has (rq 0x23) m2

/-- `if cond { tmp = tmp.with_x(false) }` -/
def clrIf (t : Byte) (p : Bool × Byte) : Byte := if p.1 then clr t p.2 else t

/-- temporary INT_CONFIG0 of the pin-mapping builder -/
def pinTmp0 (sh rq : Regs) : Byte :=
  let c := sh 0x1F
  if sh 0x24 ≠ rq 0x24 then c ^^^ c
  else
    [ (has c ic0_DRDY && mapped12 rq map_DRDY, ic0_DRDY),
      (has c ic0_FWM && mapped12 rq map_FWM, ic0_FWM),
      (has c ic0_FFULL && mapped12 rq map_FFULL, ic0_FFULL),
      (has c ic0_GEN1 && mapped12 rq map_GEN1, ic0_GEN1),
      (has c ic0_GEN2 && mapped12 rq map_GEN2, ic0_GEN2),
      (has c ic0_ORIENTCH && mapped12 rq map_ORIENTCH, ic0_ORIENTCH) ].foldl clrIf c
def pinTmp1 (sh rq : Regs) : Byte :=
  let c := sh 0x20
  if sh 0x24 ≠ rq 0x24 then c ^^^ c
  else
    [ (has c ic1_ACTCH && mapped3 rq m12_ACTCH1 m12_ACTCH2, ic1_ACTCH),
      ((has c ic1_STAP || has c ic1_DTAP) && mapped3 rq m12_TAP1 m12_TAP2, uni ic1_DTAP ic1_STAP),
      (has c ic1_STEP && mapped3 rq m12_STEP1 m12_STEP2, ic1_STEP) ].foldl clrIf c
def pinTmpW (sh rq : Regs) : Byte :=
  let c := sh 0x2F
  if sh 0x24 ≠ rq 0x24 then c
  else clrIf c (has c wk0_AXES && mapped12 rq map_WKUP, wk0_AXES)

def pinScript (sh rq : Regs) : Except CfgErr (List W) :=
  let (c0, c1, cw) := (sh 0x1F, sh 0x20, sh 0x2F)
  let (t0, t1, tw) := (pinTmp0 sh rq, pinTmp1 sh rq, pinTmpW sh rq)
  .ok (wIf (c0 != t0) 0x1F t0 ++ wIf (c1 != t1) 0x20 t1 ++ wIf (cw != tw) 0x2F tw
        ++ dws sh rq [0x21, 0x22, 0x23, 0x24]
        ++ wIf (c0 != t0) 0x1F c0 ++ wIf (c1 != t1) 0x20 c1 ++ wIf (cw != tw) 0x2F cw)

def fifoScript (sh rq : Regs) : Except CfgErr (List W) :=
  let c0 := sh 0x1F
  let dis := has c0 ic0_FWM && chg sh rq [0x27, 0x28]
  let tmp := if dis then clr c0 ic0_FWM else c0
  .ok (dw sh rq 0x26 ++ wIf dis 0x1F tmp ++ dw sh rq 0x27 ++ dw sh rq 0x28
        ++ wIf (c0 != tmp) 0x1F c0 ++ dw sh rq 0x29)

def alpScript (sh rq : Regs) : Except CfgErr (List W) := .ok (dws sh rq [0x2A, 0x2B])
def awkScript (sh rq : Regs) : Except CfgErr (List W) := .ok (dws sh rq [0x2C, 0x2D])

def wkupScript (sh rq : Regs) : Except CfgErr (List W) :=
  let c := sh 0x2F
  let dis := has c wk0_AXES && chg sh rq [0x2F, 0x30, 0x31, 0x32, 0x33]
  let held := if dis then clr (clr (clr c wk0_X) wk0_Y) wk0_Z else c
  .ok (wIf dis 0x2F held ++ dws sh rq [0x30, 0x31, 0x32, 0x33] ++ wIf (held != rq 0x2F) 0x2F (rq 0x2F))

def oriBlock : List Nat := [0x35, 0x36, 0x38, 0x39, 0x3A, 0x3B, 0x3C, 0x3D, 0x3E]

def oriScript (sh rq : Regs) : Except CfgErr (List W) :=
  let c0 := sh 0x1F
  let dis := has c0 ic0_ORIENTCH && chg sh rq oriBlock
  let tmp := if dis then clr c0 ic0_ORIENTCH else c0
  .ok (wIf dis 0x1F tmp ++ dws sh rq oriBlock ++ wIf (c0 != tmp) 0x1F c0)

def genBlock (g : GenId) : List Nat := (List.range 11).map (g.base + ·)

def genScript (g : GenId) (sh rq : Regs) : Except CfgErr (List W) :=
  if !chg sh rq (genBlock g) then .ok []
  else
    let c0 := sh 0x1F
    let en := has c0 g.enMask
    if en && !odrIs100 sh && (g0_src (rq g.base) == .filt1) then .error .filt1Odr
    else
      let tmp := if en then clr c0 g.enMask else c0
      .ok (wIf en 0x1F tmp ++ dws sh rq (genBlock g) ++ wIf (tmp != c0) 0x1F c0)

def actScript (sh rq : Regs) : Except CfgErr (List W) :=
  if !chg sh rq [0x55, 0x56] then .ok []
  else
    let c1 := sh 0x20
    let en := has c1 ic1_ACTCH
    if en && (ac1_src (rq 0x56) == .filt1) && !odrIs100 sh then .error .filt1Odr
    else
      let tmp := if en then clr c1 ic1_ACTCH else c1
      .ok (wIf en 0x20 tmp ++ dws sh rq [0x55, 0x56] ++ wIf (c1 != tmp) 0x20 c1)

def tapScript (sh rq : Regs) : Except CfgErr (List W) :=
  let c1 := sh 0x20
  let dis := (has c1 ic1_STAP || has c1 ic1_DTAP) && chg sh rq [0x57, 0x58]
  let tmp := if dis then clr (clr c1 ic1_STAP) ic1_DTAP else c1
  .ok (wIf dis 0x20 tmp ++ dws sh rq [0x57, 0x58] ++ wIf (c1 != tmp) 0x20 c1)

/-- `write()` of the builder of request `q`, called with recorded configuration `sh` -/
def Request.script (q : Request) (sh : Regs) : Except CfgErr (List W) :=
  let rq := q.target sh
  match q with
  | .acc _ => accScript sh rq
  | .int _ => intScript sh rq
  | .pin _ => pinScript sh rq
  | .fifo _ => fifoScript sh rq
  | .alp _ => alpScript sh rq
  | .awk _ => awkScript sh rq
  | .wkup _ => wkupScript sh rq
  | .ori _ => oriScript sh rq
  | .gen g _ => genScript g sh rq
  | .act _ => actScript sh rq
  | .tap _ => tapScript sh rq

end Bma400
