/-
  The twenty properties as predicates over what can be observed of one API
  call: the device registers before and after, the recorded configuration
  (shadow) before and after, the request, the ordered journal of raw HAL
  operations and the returned outcome.

  Each predicate is a `Prop` built from bounded quantifiers and decidable
  atoms, so it is (i) the statement proved about the model in `Thm/` and
  (ii) evaluated by `bma400model judge` on the observations of the real crate
  (`decide`).
-/
import Bma400.Spec
import Bma400.Driver
namespace Bma400
namespace P

/-! ## register-level view of a journal -/

/-- a register access as seen on the bus: `ok = false` means the access was
    attempted but a raw operation belonging to it failed -/
inductive Acc
  | wr (a : Nat) (v : Byte) (ok : Bool)
  | rd (a : Nat) (n : Nat) (ok : Bool)
  | delay (ms : Nat)
  | lowFailed                -- chip-select could not be asserted: nothing was sent
  deriving DecidableEq, Repr

/-- decode an I2C journal; `none` if some raw operation is not exactly the
    framing property C12 demands -/
def decodeI2c (dev : Nat) : List JEntry → Option (List Acc)
  | [] => some []
  | ⟨.i2cWrite d [a, v], ok⟩ :: r =>
      if d = dev then (decodeI2c dev r).map (Acc.wr a.toNat v ok :: ·) else none
  | ⟨.i2cWriteRead d [a] n, ok⟩ :: r =>
      if d = dev then (decodeI2c dev r).map (Acc.rd a.toNat n ok :: ·) else none
  | ⟨.delay ms, _⟩ :: r => (decodeI2c dev r).map (Acc.delay ms :: ·)
  | _ => none

def allZero (l : List Byte) : Bool := l.all (· == 0#8)

/-- decode an SPI journal: every access must be one chip-select window of the
    BMA400 SPI protocol (property C13); `none` otherwise.  A failed data
    operation must still be followed by the chip-select release (C20).  A chip-select
    operation that FAILED leaves the line where it was: after a failed release the window is
    still open and after a failed assert none was opened, so nothing may follow in that call
    (bytes clocked later would extend the old window / go out with chip-select high).
    The VALUE of the dummy byte of a read, and of the bytes clocked out during its data phase,
    is not constrained (the property does not, and the chip ignores them). -/
def decodeSpi : List JEntry → Option (List Acc)
  | [] => some []
  | ⟨.delay ms, _⟩ :: r => (decodeSpi r).map (Acc.delay ms :: ·)
  | ⟨.csLow, false⟩ :: r => if r.isEmpty then some [Acc.lowFailed] else none
  | ⟨.csLow, true⟩ :: ⟨.spiWrite [a, v], ok⟩ :: ⟨.csHigh, okh⟩ :: r =>
      if (a &&& 0x80#8) == 0#8 && (okh || r.isEmpty) then (decodeSpi r).map (Acc.wr a.toNat v (ok && okh) :: ·) else none
  | ⟨.csLow, true⟩ :: ⟨.spiTransfer [a, _], false⟩ :: ⟨.csHigh, okh⟩ :: r =>
      if (a &&& 0x80#8) != 0#8 && (okh || r.isEmpty) then
        (decodeSpi r).map (Acc.rd (a &&& 0x7F#8).toNat 0 false :: ·) else none
  | ⟨.csLow, true⟩ :: ⟨.spiTransfer [a, _], true⟩ :: ⟨.spiTransfer buf, ok⟩ :: ⟨.csHigh, okh⟩ :: r =>
      if (a &&& 0x80#8) != 0#8 && (okh || r.isEmpty) then
        (decodeSpi r).map (Acc.rd (a &&& 0x7F#8).toNat buf.length (ok && okh) :: ·) else none
  | _ => none

def decode (t : Transport) (j : List JEntry) : Option (List Acc) :=
  match t with
  | .i2c dev => decodeI2c dev j
  | .spi => decodeSpi j

/-- acknowledged register writes, in order -/
def okWrites : List Acc → List W
  | [] => []
  | .wr a v true :: r => ⟨a, v⟩ :: okWrites r
  | _ :: r => okWrites r

/-- attempted register writes (acknowledged or not), in order -/
def allWrites : List Acc → List W
  | [] => []
  | .wr a v _ :: r => ⟨a, v⟩ :: allWrites r
  | _ :: r => allWrites r

def hasRead : List Acc → Bool
  | [] => false
  | .rd _ _ _ :: _ => true
  | _ :: r => hasRead r

/-- device registers after a list of acknowledged configuration writes -/
def applyWrites (c : Regs) : List W → Regs
  | [] => c
  | w :: ws => applyWrites (c.set w.addr w.val) ws

/-! ## state invariants -/

/-- the driver's belief equals the device on every recorded register -/
def Coherent (shadow chip : Regs) : Prop := ∀ a ∈ DS.cfgAddrs, shadow a = chip a

instance (shadow chip : Regs) : Decidable (Coherent shadow chip) := by
  unfold Coherent; infer_instance

/-- no reserved bit is set in any configuration register -/
def Defined (r : Regs) : Prop := ∀ a ∈ DS.cfgAddrs, r a &&& ~~~DS.definedMask a = 0#8

instance (r : Regs) : Decidable (Defined r) := by unfold Defined; infer_instance

def odr (r : Regs) : Nat := (r 0x1A &&& 0x0F#8).toNat

/-- C06: no interrupt enabled at an ODR it cannot use (on device registers `r`) -/
def Inv6 (r : Regs) : Prop :=
  ¬ (has (r 0x20) 0x0C#8 = true ∧ odr r ≠ 0x09) ∧
  ¬ (has (r 0x1F) 0x04#8 = true ∧ has (r 0x3F) 0x10#8 = false ∧ odr r ≠ 0x08) ∧
  ¬ (has (r 0x1F) 0x08#8 = true ∧ has (r 0x4A) 0x10#8 = false ∧ odr r ≠ 0x08) ∧
  ¬ (has (r 0x20) 0x10#8 = true ∧ has (r 0x56) 0x10#8 = false ∧ odr r ≠ 0x08)

instance (r : Regs) : Decidable (Inv6 r) := by unfold Inv6; infer_instance

def tapClause (r : Regs) : Prop := ¬ (has (r 0x20) 0x0C#8 = true ∧ odr r ≠ 0x09)
def filt1Clause (r : Regs) : Prop :=
  ¬ (has (r 0x1F) 0x04#8 = true ∧ has (r 0x3F) 0x10#8 = false ∧ odr r ≠ 0x08) ∧
  ¬ (has (r 0x1F) 0x08#8 = true ∧ has (r 0x4A) 0x10#8 = false ∧ odr r ≠ 0x08) ∧
  ¬ (has (r 0x20) 0x10#8 = true ∧ has (r 0x56) 0x10#8 = false ∧ odr r ≠ 0x08)
instance (r : Regs) : Decidable (tapClause r) := by unfold tapClause; infer_instance
instance (r : Regs) : Decidable (filt1Clause r) := by unfold filt1Clause; infer_instance

/-- the device registers if request `q` were applied to a device holding `pre` -/
def ideal (q : Request) (pre : Regs) : Regs :=
  fun a => if a ∈ q.block then DS.Request.spec q pre a else pre a

/-! ## C01 / C02 : an accepted write leaves exactly the requested configuration -/

/-- C01: block = previous settings overridden by the setters; everything else unchanged -/
def C01 (q : Request) (pre post : Regs) : Prop :=
  ∀ a, a < 128 → post a = ideal q pre a

instance (q : Request) (pre post : Regs) : Decidable (C01 q pre post) := by
  unfold C01; infer_instance

/-- C02 (observable part): block registers hold the datasheet encoding, no reserved bit set -/
def C02 (q : Request) (pre post : Regs) : Prop :=
  (∀ a ∈ q.block, post a = DS.Request.spec q pre a) ∧
  (∀ a ∈ q.block, post a &&& ~~~DS.definedMask a = 0#8) ∧
  -- "leaves all other ... registers as they were"
  (∀ a, a < 128 → a ∉ q.block → post a = pre a)

instance (q : Request) (pre post : Regs) : Decidable (C02 q pre post) := by
  unfold C02; infer_instance

/-- the part of C02 that C09 is about: the block holds the datasheet encoding (saturated values) -/
def C02Block (q : Request) (pre post : Regs) : Prop :=
  (∀ a ∈ q.block, post a = DS.Request.spec q pre a) ∧
  (∀ a ∈ q.block, post a &&& ~~~DS.definedMask a = 0#8)

instance (q : Request) (pre post : Regs) : Decidable (C02Block q pre post) := by
  unfold C02Block; infer_instance

/-- "every register write is one transaction" seen from above: whatever a fault-free call
    RECORDED as written (the recorded configuration changed at `a` to `v`) went over the bus as
    an acknowledged write of `v` to `a` -/
def Recorded (shPre shPost : Regs) (ws : List W) : Prop :=
  ∀ a ∈ DS.cfgAddrs, shPost a ≠ shPre a → (⟨a, shPost a⟩ : W) ∈ ws

instance (shPre shPost : Regs) (ws : List W) : Decidable (Recorded shPre shPost ws) := by
  unfold Recorded; infer_instance

/-! ## C07 : parameters rewritten only while the interrupt is disabled -/

/-- walk the acknowledged writes; `c` is the device at that instant -/
def C07 (c : Regs) : List W → Prop
  | [] => True
  | w :: ws =>
    (∀ x ∈ DS.Intr.all, w.addr ∈ x.params → x.enabled c = false) ∧ C07 (c.set w.addr w.val) ws

instance : (c : Regs) → (ws : List W) → Decidable (C07 c ws)
  | _, [] => by unfold C07; infer_instance
  | c, w :: ws => by
    unfold C07
    have := instDecidableC07 (c.set w.addr w.val) ws
    infer_instance

/-! ## C08 : writes are minimal, enables only toggled -/

/-- the registers outside its own block a builder may touch: the three enable registers -/
def enableRegs : List Nat := [0x1F, 0x20, 0x2F]

/-- `x` has no bit that `y` lacks and differs from `y` -/
def strictSub (x y : Byte) : Prop := x &&& ~~~y = 0#8 ∧ x ≠ y
instance (x y : Byte) : Decidable (strictSub x y) := by unfold strictSub; infer_instance

def valuesAt (ws : List W) (a : Nat) : List Byte := (ws.filter (·.addr = a)).map (·.val)

/-- write sequence to an enable register outside the block: empty, or first a strict
    sub-value of the original and last the original again -/
def toggles (orig : Byte) (vs : List Byte) : Prop :=
  vs = [] ∨ (∃ v ∈ vs.head?, strictSub v orig) ∧ vs.getLast? = some orig
instance (orig : Byte) (vs : List Byte) : Decidable (toggles orig vs) := by
  unfold toggles; infer_instance

/-- the wake-up builder's own enable register 0x2F: each write either switches axes off
    (followed later by the requested value) or is the requested value, never a value
    already held -/
def wkupOwn (pre req : Byte) (vs : List Byte) : Prop :=
  vs = [] ∨ vs = [req] ∧ req ≠ pre ∨
  (∃ d, vs = [d, req] ∧ strictSub d pre ∧ d &&& 0xE0#8 = 0#8 ∧ d ≠ req) ∨
  (∃ d, vs = [d] ∧ strictSub d pre ∧ d &&& 0xE0#8 = 0#8 ∧ d = req)

instance (pre req : Byte) (vs : List Byte) : Decidable (wkupOwn pre req vs) := by
  unfold wkupOwn
  match vs with
  | [] => exact isTrue (Or.inl rfl)
  | [d] =>
    exact decidable_of_iff (([d] = [req] ∧ req ≠ pre) ∨ (strictSub d pre ∧ d &&& 0xE0#8 = 0#8 ∧ d = req))
      ⟨fun h => h.elim (fun h => Or.inr (Or.inl h)) (fun h => Or.inr (Or.inr (Or.inr ⟨d, rfl, h⟩))),
       fun h => h.elim (fun h => by simp at h) (fun h => h.elim Or.inl (fun h => h.elim
         (fun ⟨d', h1, _⟩ => by simp at h1)
         (fun ⟨d', h1, h2⟩ => by
            have : d = d' := by simpa using h1
            subst this; exact Or.inr h2)))⟩
  | [d, r] =>
    exact decidable_of_iff (r = req ∧ strictSub d pre ∧ d &&& 0xE0#8 = 0#8 ∧ d ≠ req)
      ⟨fun ⟨h0, h⟩ => Or.inr (Or.inr (Or.inl ⟨d, by simp [h0], h⟩)),
       fun h => h.elim (fun h => by simp at h) (fun h => h.elim (fun h => by simp at h) (fun h => h.elim
         (fun ⟨d', h1, h2⟩ => by
            have h1' : d = d' ∧ r = req := by simpa using h1
            obtain ⟨hd, hr⟩ := h1'
            subst hd; exact ⟨hr, h2⟩)
         (fun ⟨d', h1, _⟩ => by simp at h1)))⟩
  | _ :: _ :: _ :: _ =>
    exact isFalse (fun h => h.elim (fun h => by simp at h) (fun h => h.elim (fun h => by simp at h)
      (fun h => h.elim (fun ⟨_, h1, _⟩ => by simp at h1) (fun ⟨_, h1, _⟩ => by simp at h1))))

/-- C08 for one `write()` of the builder owning `block`, requesting `tgt` on it: `ws` are the
    acknowledged register writes, `pre` the device before the call -/
def C08W (block : List Nat) (tgt pre : Regs) (ws : List W) : Prop :=
  -- own block (except the wake-up builder's enable register): at most one write, only of the
  -- requested value, only if the device does not already hold it
  (∀ a ∈ block, a = 0x2F ∨
      (valuesAt ws a = [] ∨ (valuesAt ws a = [tgt a] ∧ pre a ≠ tgt a))) ∧
  (0x2F ∈ block → wkupOwn (pre 0x2F) (tgt 0x2F) (valuesAt ws 0x2F)) ∧
  -- outside the block: only the enable registers, only toggled
  (∀ w ∈ ws, w.addr ∈ block ∨ w.addr ∈ enableRegs) ∧
  (∀ a ∈ enableRegs, a ∉ block → toggles (pre a) (valuesAt ws a))

instance (block : List Nat) (tgt pre : Regs) (ws : List W) : Decidable (C08W block tgt pre ws) := by
  unfold C08W; infer_instance

/-- C08 for one `write()`: `accs` is the decoded journal, `pre` the device before the call -/
def isPin : Request → Bool | .pin _ => true | _ => false

def C08 (q : Request) (pre : Regs) (accs : List Acc) : Prop :=
  hasRead accs = false ∧ C08W q.block (DS.Request.spec q pre) pre (okWrites accs) ∧
  -- re-applying the configuration the device holds: no bus traffic at all (pin mapping excepted)
  (isPin q = false → (∀ a ∈ q.block, DS.Request.spec q pre a = pre a) → accs = [])

instance (q : Request) (pre : Regs) (accs : List Acc) : Decidable (C08 q pre accs) := by
  unfold C08; infer_instance

/-! ## C06 : ODR / interrupt consistency and rejection -/

inductive CfgOutcome | ok | rejected (e : CfgErr) | busError deriving DecidableEq, Repr

/-- C06 for one configuration call.  `pre`/`post` device registers, `shPre`/`shPost`
    recorded configuration, `nRaw` the number of raw operations journalled. -/
def C06 (q : Request) (pre post shPre shPost : Regs) (nRaw : Nat) (o : CfgOutcome) : Prop :=
  Inv6 post ∧
  (∀ e, o = .rejected e → nRaw = 0 ∧ (∀ a, a < 128 → post a = pre a) ∧ (∀ a ∈ DS.cfgAddrs, shPost a = shPre a)) ∧
  -- rejected exactly when the requested state would violate the invariant
  ((∃ e, o = .rejected e) ↔ (¬ Inv6 (ideal q pre) ∧ o ≠ .busError)) ∧
  (o = .rejected .tapOdr → ¬ tapClause (ideal q pre)) ∧
  (o = .rejected .filt1Odr → ¬ filt1Clause (ideal q pre)) ∧
  o ≠ .rejected .fifoPwr

instance (q : Request) (pre post shPre shPost : Regs) (nRaw : Nat) (o : CfgOutcome) :
    Decidable (C06 q pre post shPre shPost nRaw o) := by
  unfold C06
  have h1 : Decidable (∀ e, o = .rejected e → nRaw = 0 ∧ (∀ a, a < 128 → post a = pre a) ∧
      (∀ a ∈ DS.cfgAddrs, shPost a = shPre a)) :=
    match o with
    | .ok => isTrue (by intro e h; cases h)
    | .busError => isTrue (by intro e h; cases h)
    | .rejected e' =>
      decidable_of_iff (nRaw = 0 ∧ (∀ a, a < 128 → post a = pre a) ∧ (∀ a ∈ DS.cfgAddrs, shPost a = shPre a))
        ⟨fun h _ _ => h, fun h => h e' rfl⟩
  have h2 : Decidable (∃ e, o = CfgOutcome.rejected e) :=
    match o with
    | .ok => isFalse (by rintro ⟨e, h⟩; cases h)
    | .busError => isFalse (by rintro ⟨e, h⟩; cases h)
    | .rejected e' => isTrue ⟨e', rfl⟩
  infer_instance

/-! ## C03 / C17 : readings -/

/-- datasheet decoding of one acceleration axis -/
def accel12 (lsb msb : Byte) : Int := DS.sext12 (lsb.toNat + 256 * (msb.toNat % 16))

def rangeFactor (r : Regs) : Int := 2 ^ ((r 0x1A &&& 0xC0#8) >>> 6).toNat

/-- expected result strings of the data getters given the six data bytes and the device range -/
def expectUnscaledI (d : List Byte) : List Int :=
  [accel12 (d.getD 0 0) (d.getD 1 0), accel12 (d.getD 2 0) (d.getD 3 0), accel12 (d.getD 4 0) (d.getD 5 0)]
def expectScaledI (chip : Regs) (d : List Byte) : List Int :=
  let k := rangeFactor chip
  [k * accel12 (d.getD 0 0) (d.getD 1 0), k * accel12 (d.getD 2 0) (d.getD 3 0),
   k * accel12 (d.getD 4 0) (d.getD 5 0)]
def expectUnscaled (d : List Byte) : String := fmtInts (expectUnscaledI d)
def expectScaled (chip : Regs) (d : List Byte) : String := fmtInts (expectScaledI chip d)

def bitN (b : Byte) (i : Nat) : Int := if b.toNat / 2 ^ i % 2 = 1 then 1 else 0

/-- datasheet decoding of every getter: (register address, burst length, result) from the
    device's read-only registers `c`; 2-bit fields with reserved code 3 are left free (`none`) -/
def getterSpecI (c : Regs) : Op → Option (Nat × Nat × Option (List Int))
  | .getId => some (0x00, 1, some [((c 0).toNat : Int)])
  | .getCmdError => some (0x02, 1, some [bitN (c 2) 1])
  | .getStatus =>
      let b := c 3
      let pm := b.toNat / 2 % 4
      some (0x03, 1, if pm = 3 then none else some [bitN b 7, bitN b 4, (pm : Int), bitN b 0])
  | .getSensorClock => some (0x0A, 3, some [(((c 0x0A).toNat + 256 * (c 0x0B).toNat + 65536 * (c 0x0C).toNat : Nat) : Int)])
  | .getResetStatus => some (0x0D, 1, some [bitN (c 0x0D) 0])
  | .getIntStatus0 =>
      let b := c 0x0E
      some (0x0E, 1, some [bitN b 7, bitN b 6, bitN b 5, bitN b 4, bitN b 3, bitN b 2, bitN b 1, bitN b 0])
  | .getIntStatus1 =>
      let b := c 0x0F
      let st := b.toNat % 4
      some (0x0F, 1, if st = 3 then none else some [bitN b 4, bitN b 3, bitN b 2, (st : Int)])
  | .getIntStatus2 =>
      let b := c 0x10
      some (0x10, 1, some [bitN b 4, bitN b 2, bitN b 1, bitN b 0])
  | .getFifoLen => some (0x12, 2, some [((((c 0x12).toNat + 256 * (c 0x13).toNat) % 2048 : Nat) : Int)])
  | .getStepCount => some (0x15, 3, some [(((c 0x15).toNat + 256 * (c 0x16).toNat + 65536 * (c 0x17).toNat : Nat) : Int)])
  | .getStepActivity =>
      let a := (c 0x18).toNat % 4
      some (0x18, 1, if a = 3 then none else some [(a : Int)])
  | .getRawTemp => some (0x11, 1, some [DS.sext8 (c 0x11).toNat])
  | .getTempCelsius => some (0x11, 1, some [DS.sext8 (c 0x11).toNat + 46])   -- 2·(raw·0.5 + 23)
  | _ => none

def getterSpec (c : Regs) (op : Op) : Option (Nat × Nat × Option String) :=
  (getterSpecI c op).map (fun (a, n, e) => (a, n, e.map fmtInts))

/-- C17 for a fault-free getter call -/
def C17 (c : Regs) (op : Op) (accs : List Acc) (o : Outcome) : Prop :=
  match getterSpec c op with
  | none => True
  | some (a, n, exp) =>
    accs = [.rd a n true] ∧ o.isOk = true ∧ ∀ e ∈ exp, o = .ok e

instance (c : Regs) (op : Op) (accs : List Acc) (o : Outcome) : Decidable (C17 c op accs o) := by
  unfold C17; split <;> infer_instance

/-- C03 for a fault-free data getter call; `data` are the six bytes the device serves -/
def C03 (chip : Regs) (data : List Byte) (op : Op) (accs : List Acc) (o : Outcome) : Prop :=
  match op with
  | .getUnscaled => accs = [.rd 0x04 6 true] ∧ o = .ok (expectUnscaled data)
  | .getData => accs = [.rd 0x04 6 true] ∧ o = .ok (expectScaled chip data)
  | _ => True

instance (chip : Regs) (data : List Byte) (op : Op) (accs : List Acc) (o : Outcome) :
    Decidable (C03 chip data op accs o) := by
  unfold C03; split <;> infer_instance

/-! ## C19 : FIFO read guard and commands -/

def C19 (chip : Regs) (op : Op) (accs : List Acc) (o : Outcome) : Prop :=
  match op with
  | .readFifo n =>
      if has (chip 0x29) 0x01#8 then accs = [] ∧ o = .err (.cfg .fifoPwr)
      else accs = [.rd 0x14 n true] ∧ o.isOk = true
  | .flushFifo => accs = [.wr 0x7E 0xB0#8 true] ∧ o = .ok ""
  | .clearStepCount => accs = [.wr 0x7E 0xB1#8 true] ∧ o = .ok ""
  | _ => True

instance (chip : Regs) (op : Op) (accs : List Acc) (o : Outcome) : Decidable (C19 chip op accs o) := by
  unfold C19; split <;> infer_instance

/-! ## C10 : self test -/

/-- total delay since the most recent write of a non-zero value to SELF_TEST, scanning `accs`;
    returns `none` when a data read happens too early or while no excitation is applied -/
def settleOk : List Acc → Option Nat → Bool
  | [], _ => true
  | .wr 0x7D v true :: r, _ => settleOk r (if v = 0#8 then none else some 0)
  | .delay ms :: r, some t => settleOk r (some (t + ms))
  | .rd 0x04 _ _ :: r, some t => t ≥ DS.ST_SETTLE_MS && settleOk r (some t)
  | .rd 0x04 _ _ :: _, none => false
  | _ :: r, s => settleOk r s

/-- the values written to SELF_TEST, in order -/
def excitations (accs : List Acc) : List Byte := valuesAt (okWrites accs) 0x7D

/-- device state at the first write of a non-zero value to SELF_TEST -/
def stateAtExcitation (c : Regs) : List Acc → Option Regs
  | [] => none
  | .wr a v true :: r => if a = 0x7D ∧ v ≠ 0#8 then some c else stateAtExcitation (c.set a v) r
  | _ :: r => stateAtExcitation c r

def selfTestSetup (r : Regs) : Prop :=
  r 0x1F = 0#8 ∧ r 0x20 = 0#8 ∧ r 0x2D &&& 0x02#8 = 0#8 ∧ r 0x26 &&& 0xE0#8 = 0#8 ∧
  r 0x19 &&& 0x03#8 = 0x02#8 ∧ r 0x1A = 0x78#8
instance (r : Regs) : Decidable (selfTestSetup r) := by unfold selfTestSetup; infer_instance

/-- C10 for a fault-free self-test call; `posD`/`negD` are the data the device serves under
    positive / negative excitation -/
def C10 (pre post : Regs) (posD negD : List Byte) (accs : List Acc) (o : Outcome) : Prop :=
  (∃ s ∈ stateAtExcitation pre accs, selfTestSetup s) ∧
  excitations accs = [0x07#8, 0x0F#8, 0x00#8] ∧
  settleOk accs none = true ∧
  (accs.filter (fun a => match a with | .rd _ _ _ => true | _ => false)) = [.rd 0x04 6 true, .rd 0x04 6 true] ∧
  (let d (i : Nat) := accel12 (posD.getD (2 * i) 0) (posD.getD (2 * i + 1) 0)
                      - accel12 (negD.getD (2 * i) 0) (negD.getD (2 * i + 1) 0)
   (o = .ok "" ↔ (d 0 > DS.ST_MIN_X ∧ d 1 > DS.ST_MIN_Y ∧ d 2 > DS.ST_MIN_Z)) ∧
   (o = .ok "" ∨ o = .err .selfTest)) ∧
  -- every register as before; SELF_TEST itself is left idle (it IS as before unless an earlier
  -- test was cut by a bus error with the excitation still applied)
  (∀ a, a < 128 → a ≠ 0x7D → post a = pre a) ∧ post 0x7D = 0#8

instance (pre post : Regs) (posD negD : List Byte) (accs : List Acc) (o : Outcome) :
    Decidable (C10 pre post posD negD accs o) := by
  unfold C10
  have : Decidable (∃ s ∈ stateAtExcitation pre accs, selfTestSetup s) :=
    match stateAtExcitation pre accs with
    | none => isFalse (by rintro ⟨s, h, _⟩; cases h)
    | some s => decidable_of_iff (selfTestSetup s) ⟨fun h => ⟨s, rfl, h⟩, fun ⟨s', h1, h2⟩ => by
        cases h1; exact h2⟩
  infer_instance

/-! ## C11 / C18 : reset and construction -/

def C11 (shPost : Regs) (accs : List Acc) (o : Outcome) : Prop :=
  o.isOk = true →
    accs = [.wr 0x7E 0xB6#8 true, .rd 0x0D 1 true] ∧ ∀ a ∈ DS.cfgAddrs, shPost a = DS.resetVal a

instance (shPost : Regs) (accs : List Acc) (o : Outcome) : Decidable (C11 shPost accs o) := by
  unfold C11; infer_instance

/-- C18 for a fault-free constructor call on a chip whose id register holds `id` -/
def C18 (c : Ctor) (id : Byte) (shPost : Regs) (accs : List Acc) (o : Outcome) : Prop :=
  (o = .ok "" ↔ id = DS.CHIP_ID_VALUE) ∧ (o = .ok "" ∨ o = .err .chipId) ∧
  (match c with
   | .newI2c => accs = [.rd 0 1 true]
   | .newSpi => accs = [.rd 0 1 true, .rd 0 1 true]
   | .newSpi3 => accs = [.rd 0 1 true, .rd 0 1 true, .wr 0x7C 0x01#8 true]) ∧
  (o = .ok "" → ∀ a ∈ DS.cfgAddrs, shPost a = DS.resetVal a)

instance (c : Ctor) (id : Byte) (shPost : Regs) (accs : List Acc) (o : Outcome) :
    Decidable (C18 c id shPost accs o) := by
  unfold C18; cases c <;> infer_instance

/-! ## C12 / C13 / C15 / C20 : transports and failures -/

/-- C12: every raw operation of an I2C journal is exactly the demanded framing -/
def C12 (dev : Nat) (j : List JEntry) : Prop := (decodeI2c dev j).isSome = true
instance (dev : Nat) (j : List JEntry) : Decidable (C12 dev j) := by unfold C12; infer_instance

/-- chip-select level after a journal, starting from `high` -/
def csAfter : Bool → List JEntry → Bool
  | h, [] => h
  | _, ⟨.csLow, true⟩ :: r => csAfter false r
  | _, ⟨.csHigh, true⟩ :: r => csAfter true r
  | h, _ :: r => csAfter h r

/-- no data operation is attempted while chip-select is high -/
def noDataWhileHigh : Bool → List JEntry → Bool
  | _, [] => true
  | _, ⟨.csLow, true⟩ :: r => noDataWhileHigh false r
  | _, ⟨.csHigh, true⟩ :: r => noDataWhileHigh true r
  | h, ⟨.spiWrite _, _⟩ :: r => !h && noDataWhileHigh h r
  | h, ⟨.spiTransfer _, _⟩ :: r => !h && noDataWhileHigh h r
  | h, _ :: r => noDataWhileHigh h r

/-- C13: every access is one well-formed chip-select window; nothing clocked while high;
    a successful call ends with chip-select released -/
def C13 (j : List JEntry) (success : Bool) : Prop :=
  (decodeSpi j).isSome = true ∧ noDataWhileHigh true j = true ∧ (success = true → csAfter true j = true)
instance (j : List JEntry) (success : Bool) : Decidable (C13 j success) := by unfold C13; infer_instance

/-- index (among fallible raw operations) and kind of the first failed raw operation -/
def firstFailure : List JEntry → Nat → Option (Nat × Bool)   -- (index, isPinOp)
  | [], _ => none
  | ⟨.delay _, _⟩ :: r, i => firstFailure r i
  | ⟨raw, false⟩ :: _, i => some (i, match raw with | .csLow => true | .csHigh => true | _ => false)
  | ⟨_, true⟩ :: r, i => firstFailure r (i + 1)

/-- raw operations after the first failure -/
def afterFailure : List JEntry → List JEntry
  | [] => []
  | ⟨_, false⟩ :: r => r
  | _ :: r => afterFailure r

/-- C15: a call in which a raw operation failed returns exactly that failure and performs no
    further register access: after a failed data operation only the chip-select release
    (C20) may follow, after a failed pin operation nothing -/
def C15 (j : List JEntry) (o : Outcome) : Prop :=
  match firstFailure j 0 with
  | none => True
  | some (i, isPin) =>
    o = .err (if isPin then .pin i else .io i) ∧
    (if isPin then afterFailure j = []
     else afterFailure j = [] ∨ ∃ okh, afterFailure j = [⟨.csHigh, okh⟩])

instance (j : List JEntry) (o : Outcome) : Decidable (C15 j o) := by
  unfold C15
  match firstFailure j 0 with
  | none => exact isTrue trivial
  | some (i, isPin) =>
    have : Decidable (∃ okh, afterFailure j = [(⟨.csHigh, okh⟩ : JEntry)]) :=
      decidable_of_iff (afterFailure j = [⟨.csHigh, true⟩] ∨ afterFailure j = [⟨.csHigh, false⟩])
        ⟨fun h => h.elim (fun h => ⟨true, h⟩) (fun h => ⟨false, h⟩),
         fun ⟨b, h⟩ => by cases b; exact Or.inr h; exact Or.inl h⟩
    infer_instance

/-- C20: if only data operations failed (the pins work), chip-select is high when the call returns -/
def onlyDataFailures (j : List JEntry) : Bool :=
  j.all (fun e => e.ok || match e.raw with
    | .spiWrite _ => true | .spiTransfer _ => true | .i2cWrite _ _ => true | .i2cWriteRead _ _ _ => true
    | _ => false)

def C20 (j : List JEntry) : Prop := onlyDataFailures j = true → csAfter true j = true
instance (j : List JEntry) : Decidable (C20 j) := by unfold C20; infer_instance

/-! ## C16 : after a failed call the belief is still true -/

/-- C16 (state part): whatever the outcome, the recorded configuration equals the device -/
def C16 (shPost post : Regs) : Prop := Coherent shPost post
instance (shPost post : Regs) : Decidable (C16 shPost post) := by unfold C16; infer_instance

end P
end Bma400
