/-
  C12 - I2C accesses use the selected device address and exact register framing.

  `C12_exec`: for EVERY list of bus actions (hence every API operation, every
  request, every history), every fault schedule and every start state, the
  journal the I2C transport produces consists only of
    write(dev, [register, value])            for a register write
    write_read(dev, [register], n bytes)     for a read of n bytes
  one raw operation per register access, to the device address `dev` the
  transport was built with (`P.C12`, the predicate `judge` evaluates on the
  crate's journal).  `C12_exact` pins the decoded accesses down to exactly the
  actions executed, in order, for fault-free runs; `C12_runOp`/`C12_runCtor`
  instantiate it for API calls and constructors; `C12_sizes` lists the burst
  length of every operation's reads.
-/
import Bma400.Lemmas.Exec
set_option linter.unusedSimpArgs false
namespace Bma400
namespace Thm
open P

theorem C12_exec (dev : Nat) (fails : Nat → Bool) (acts : List Act) :
    ∀ (w : World) (reads : List (List Byte)), C12 dev (exec (.i2c dev) fails w acts reads).1 := by
  unfold C12
  induction acts with
  | nil => intro w reads; simp [exec, decodeI2c]
  | cons act rest ih =>
    intro w reads
    cases act with
    | wr a v e =>
      simp only [exec, writeRegister, World.raw]
      by_cases hf : fails w.idx = true
      · simp [hf, decodeI2c]
      · simp only [hf]
        have := ih { chip := (w.chip.raw (.i2cWrite dev [BitVec.ofNat 8 a, v])).1, shadow := applyEff w.shadow a v e, idx := w.idx + 1 } reads
        simp [decodeI2c, this]
    | rd a n =>
      simp only [exec, readRegister, World.raw]
      by_cases hf : fails w.idx = true
      · simp [hf, decodeI2c]
      · simp only [hf]
        have := ih { chip := (w.chip.raw (.i2cWriteRead dev [BitVec.ofNat 8 a] n)).1, shadow := w.shadow, idx := w.idx + 1 }
          (reads ++ [(w.chip.raw (.i2cWriteRead dev [BitVec.ofNat 8 a] n)).2])
        simp [decodeI2c, this]
    | delay ms =>
      simp only [exec]
      have := ih w reads
      simp [decodeI2c, this]

/-- fault-free: the decoded journal is exactly the list of actions, in order -/
theorem C12_exact (dev : Nat) (acts : List Act) (hwf : ActsWf acts) :
    ∀ (w : World) (reads : List (List Byte)),
      decodeI2c dev (exec (.i2c dev) noFaults w acts reads).1 = some (acts.map Act.acc) := by
  induction acts with
  | nil => intro w reads; simp [exec, decodeI2c]
  | cons act rest ih =>
    intro w reads
    obtain ⟨h1, h2⟩ := ActsWf_cons hwf
    cases act with
    | wr a v e =>
      have := ih h2 { chip := (w.chip.raw (.i2cWrite dev [BitVec.ofNat 8 a, v])).1, shadow := applyEff w.shadow a v e, idx := w.idx + 1 } reads
      simp [exec, writeRegister, World.raw, decodeI2c, this, Act.acc, toNat_ofNat_lt a h1]
    | rd a n =>
      have := ih h2 { chip := (w.chip.raw (.i2cWriteRead dev [BitVec.ofNat 8 a] n)).1, shadow := w.shadow, idx := w.idx + 1 }
          (reads ++ [(w.chip.raw (.i2cWriteRead dev [BitVec.ofNat 8 a] n)).2])
      simp [exec, readRegister, World.raw, decodeI2c, this, Act.acc, toNat_ofNat_lt a h1]
    | delay ms =>
      simp only [exec]
      have := ih h2 w reads
      simp [decodeI2c, this, Act.acc]

/-- every API call over I2C, any fault schedule -/
theorem C12_runOp (dev : Nat) (fails : Nat → Bool) (w : World) (op : Op) :
    C12 dev (runOp (.i2c dev) fails w op).1 := by
  unfold runOp
  simp only
  split
  · simp [C12, decodeI2c]
  · have := C12_exec dev fails (op.plan w.shadow).acts { w with idx := 0 } []
    split <;> simp_all

/-- the I2C constructor -/
theorem C12_runCtor (dev : Nat) (fails : Nat → Bool) (chip : Chip) :
    C12 dev (runCtor dev fails chip .newI2c).1 := by
  unfold runCtor
  simp only [Ctor.transport]
  have := C12_exec dev fails Ctor.newI2c.acts { chip := chip, shadow := shadowDefault } []
  split <;> simp_all

/-- "exactly as many bytes as the quantity needs": the reads each operation plans -/
theorem C12_sizes (sh : Regs) :
    (Op.getId.plan sh).acts = [.rd 0x00 1] ∧ (Op.getCmdError.plan sh).acts = [.rd 0x02 1] ∧
    (Op.getStatus.plan sh).acts = [.rd 0x03 1] ∧ (Op.getUnscaled.plan sh).acts = [.rd 0x04 6] ∧
    (Op.getData.plan sh).acts = [.rd 0x04 6] ∧ (Op.getSensorClock.plan sh).acts = [.rd 0x0A 3] ∧
    (Op.getResetStatus.plan sh).acts = [.rd 0x0D 1] ∧ (Op.getIntStatus0.plan sh).acts = [.rd 0x0E 1] ∧
    (Op.getIntStatus1.plan sh).acts = [.rd 0x0F 1] ∧ (Op.getIntStatus2.plan sh).acts = [.rd 0x10 1] ∧
    (Op.getFifoLen.plan sh).acts = [.rd 0x12 2] ∧ (Op.getStepCount.plan sh).acts = [.rd 0x15 3] ∧
    (Op.getStepActivity.plan sh).acts = [.rd 0x18 1] ∧ (Op.getRawTemp.plan sh).acts = [.rd 0x11 1] ∧
    (Op.getTempCelsius.plan sh).acts = [.rd 0x11 1] ∧
    (∀ n, has (sh 0x29) R.fpwr_READ_DISABLE = false → ((Op.readFifo n).plan sh).acts = [.rd 0x14 n]) := by
  refine ⟨rfl, rfl, rfl, rfl, rfl, rfl, rfl, rfl, rfl, rfl, rfl, rfl, rfl, rfl, rfl, ?_⟩
  intro n h
  simp [Op.plan, h]

/-- non-vacuity: a concrete program with a fault in the middle -/
example : C12 0x14 (exec (.i2c 0x14) (fun i => i == 2) { chip := Chip.powerOn (fun _ => 0x90#8) [] [] [], shadow := shadowDefault }
    [.wr 0x19 0x02#8 .commit, .rd 0x04 6, .wr 0x1A 0x09#8 .commit, .rd 0x00 1] []).1 := by decide

end Thm
end Bma400
