/-
  Translated - the summary of the translation ties T3 + T4: the PLAN of every operation of the
  model (`Op.plan`: guard, register-level accesses in order, effect of each acknowledged write on
  the recorded configuration) is, for every operation and every recorded configuration, the plan
  assembled from what tools/gen_builders.py reads out of the current source:

    * a configuration request `q`: the translated `write()` of its builder applied to the recorded
      configuration and to the builder's copy after its setters (`q.target sh`, the one layer that
      is tied by differential execution only), rejected requests having no bus traffic;
    * everything else: the translated function of src/lib.rs.

  Every property theorem about calls (`runOp`, `exec`, `reach`, `C14_program`, ...) consumes
  operations only through `Op.plan` and `Op.finish`; with Thm/Frames (the transports) the whole
  path  API call -> plan -> framing -> raw HAL operations  of the model is regenerated from the
  source and re-proved on every run.
-/
import Bma400.Thm.Builders
import Bma400.Thm.Plans
import Bma400.Thm.C01
import Bma400.Thm.C06
import Bma400.Thm.C07
import Bma400.Thm.C08
namespace Bma400
namespace Thm
open P R Generated

/-- the translated `write()` of the builder of request `q` -/
def bldOf : Request → Regs → Regs → Except CfgErr (List W)
  | .acc _ => Bld.acc | .int _ => Bld.int | .pin _ => Bld.pin | .fifo _ => Bld.fifo
  | .alp _ => Bld.alp | .awk _ => Bld.awk | .wkup _ => Bld.wkup | .ori _ => Bld.ori
  | .gen .g1 _ => Bld.gen1 | .gen .g2 _ => Bld.gen2 | .act _ => Bld.act | .tap _ => Bld.tap

/-- the plan of every operation, assembled from the translated source -/
def planT (sh : Regs) : Op → Plan
  | .getId => Api.get_id sh
  | .getCmdError => Api.get_cmd_error sh
  | .getStatus => Api.get_status sh
  | .getUnscaled => Api.get_unscaled_data sh
  | .getData => Api.get_data sh
  | .getSensorClock => Api.get_sensor_clock sh
  | .getResetStatus => Api.get_reset_status sh
  | .getIntStatus0 => Api.get_int_status0 sh
  | .getIntStatus1 => Api.get_int_status1 sh
  | .getIntStatus2 => Api.get_int_status2 sh
  | .getFifoLen => Api.get_fifo_len sh
  | .readFifo n => Api.read_fifo_frames sh n
  | .flushFifo => Api.flush_fifo sh
  | .getStepCount => Api.get_step_count sh
  | .clearStepCount => Api.clear_step_count sh
  | .getStepActivity => Api.get_step_activity sh
  | .getRawTemp => Api.get_raw_temp sh
  | .getTempCelsius => Api.get_temp_celsius sh
  | .config q =>
      match bldOf q sh (q.target sh) with
      | .error e => ⟨some (.cfg e), []⟩
      | .ok ws => ⟨none, ws.map W.act⟩
  | .selfTest => Api.perform_self_test sh
  | .softReset => Api.soft_reset sh

theorem bldOf_script (q : Request) (sh : Regs) : bldOf q sh (q.target sh) = q.script sh := by
  rw [bld_script]; cases q with
  | gen g l => cases g <;> rfl
  | _ => rfl

/-- **the model's plan layer is the translation of the source** -/
theorem plan_translated (sh : Regs) (op : Op) : Op.plan sh op = planT sh op := by
  have g := api_getters sh
  cases op with
  | config q => simp only [Op.plan, planT, bldOf_script]; rfl
  | readFifo n => exact (api_fifo sh n).1
  | flushFifo => exact (api_fifo sh 0).2.1
  | clearStepCount => exact (api_fifo sh 0).2.2
  | selfTest => exact api_selftest sh
  | softReset => exact api_reset sh
  | getId => exact g.1
  | getCmdError => exact g.2.1
  | getStatus => exact g.2.2.1
  | getUnscaled => exact g.2.2.2.1
  | getData => exact g.2.2.2.2.1
  | getSensorClock => exact g.2.2.2.2.2.1
  | getResetStatus => exact g.2.2.2.2.2.2.1
  | getIntStatus0 => exact g.2.2.2.2.2.2.2.1
  | getIntStatus1 => exact g.2.2.2.2.2.2.2.2.1
  | getIntStatus2 => exact g.2.2.2.2.2.2.2.2.2.1
  | getFifoLen => exact g.2.2.2.2.2.2.2.2.2.2.1
  | getStepCount => exact g.2.2.2.2.2.2.2.2.2.2.2.1
  | getStepActivity => exact g.2.2.2.2.2.2.2.2.2.2.2.2.1
  | getRawTemp => exact g.2.2.2.2.2.2.2.2.2.2.2.2.2.1
  | getTempCelsius => exact g.2.2.2.2.2.2.2.2.2.2.2.2.2.2

/-- non-vacuity: a concrete request whose translated plan has bus traffic - the activity-change
    threshold changed while the interrupt is enabled (disable, write, restore) -/
example :
    (planT ((shadowDefault.set 0x20 0x10#8).set 0x56 0x10#8) (.config (.act [.threshold 9#8]))).acts.length = 3 := by
  decide

/-! ## The builder properties, stated about the TRANSLATED `write()` itself

`bldOf q` is what tools/gen_builders.py reads out of the source of the builder of request `q`;
`q.target sh` is the builder's copy after its setters.  From any state in which the recorded
configuration equals the device: -/

/-- C01: an accepted request leaves exactly the requested block on the device, everything else as it was -/
theorem C01_translated (q : Request) (sh chip : Regs) (hco : Coherent sh chip) (ws : List W)
    (h : bldOf q sh (q.target sh) = .ok ws) :
    ∀ x, applyWrites chip ws x = if x ∈ q.block then q.target sh x else chip x :=
  C01_effect q sh chip hco ws (by rw [← bldOf_script]; exact h)

/-- C07: every write of a parameter register happens while its interrupt is disabled on the device -/
theorem C07_translated (q : Request) (sh chip : Regs) (hco : Coherent sh chip) (ws : List W)
    (h : bldOf q sh (q.target sh) = .ok ws) : C07 chip ws :=
  C07_script q sh chip hco ws (by rw [← bldOf_script]; exact h)

/-- C08: minimal writes - own block at most once and only where the device differs, enables only toggled -/
theorem C08_translated (q : Request) (sh chip : Regs) (hco : Coherent sh chip) (ws : List W)
    (h : bldOf q sh (q.target sh) = .ok ws) : C08W q.block (q.target sh) chip ws :=
  C08_script q sh chip hco ws (by rw [← bldOf_script]; exact h)

/-- C06: the translated write() rejects exactly the requests whose ideal post-state violates the
    ODR / interrupt invariant, with the matching error -/
theorem C06_translated (q : Request) (sh chip : Regs) (hco : Coherent sh chip)
    (hdef : ∀ x ∈ DS.cfgAddrs, DefAt sh x) (hinv : Inv6 chip) :
    Verdict q chip (outcomeOf (bldOf q sh (q.target sh))) := by
  rw [bldOf_script]; exact C06_iff q sh chip hco hdef hinv

end Thm
end Bma400
