/-
  C03 - acceleration readings are sign-extended 12-bit samples scaled by the set range.

  `C03_decode`   for ALL 65 536 (lsb, msb) pairs `Measurement::to_i16` is the two's-complement
                 12-bit value of lsb and the low nibble of msb (the high nibble is ignored);
  `C03_scale`    `<< shift` is multiplication by 1/2/4/8 for every 12-bit value (no i16
                 overflow, so no debug-build panic either);
  `C03_plan`     both getters are exactly one 6-byte burst read at 0x04;
  `C03_unscaled`, `C03_scaled`  the returned numbers for every 6 data bytes; the scaled
                 getter uses the range of the *device* whenever the recorded ACC_CONFIG1
                 equals the device's (coherence, an invariant of all histories: Thm/C16);
  `C03_after_reset` 4g after power-on / soft reset.
-/
import Bma400.Props
set_option linter.unusedSimpArgs false
namespace Bma400
namespace Thm
open P

/-- the high byte `to_i16` builds from msb: low nibble, sign-extended -/
theorem hi_byte : ∀ msb : Byte,
    let c := msb &&& 0x0F#8
    let hi := if c >>> 3 == 0#8 then c else c ||| 0xF0#8
    (msb.toNat % 16 < 8 ∧ hi.toNat = msb.toNat % 16) ∨
    (msb.toNat % 16 ≥ 8 ∧ hi.toNat = msb.toNat % 16 + 240) := by decide +kernel

theorem C03_decode (lsb msb : Byte) : T.toI16 lsb msb = accel12 lsb msb := by
  have h := hi_byte msb
  have hl := lsb.isLt
  simp only [T.toI16, T.i16le, accel12, DS.sext12] at h ⊢
  rcases h with ⟨h1, h2⟩ | ⟨h1, h2⟩
  · rw [h2]; split <;> split <;> omega
  · rw [h2]; split <;> split <;> omega

theorem accel12_range (lsb msb : Byte) : -2048 ≤ accel12 lsb msb ∧ accel12 lsb msb ≤ 2047 := by
  have hl := lsb.isLt
  simp only [accel12, DS.sext12]
  split <;> omega

theorem shl_lit (k : Int) (v : Int) (hk : k = 1 ∨ k = 2 ∨ k = 4 ∨ k = 8) (h : -2048 ≤ v ∧ v ≤ 2047) :
    (if (v * k % 65536).toNat < 32768 then ((v * k % 65536).toNat : Int)
      else ((v * k % 65536).toNat : Int) - 65536) = k * v := by
  by_cases hlt : (v * k % 65536).toNat < 32768
  · rw [if_pos hlt]; rcases hk with rfl | rfl | rfl | rfl <;> omega
  · rw [if_neg hlt]; rcases hk with rfl | rfl | rfl | rfl <;> omega

/-- shifting a 12-bit value by the range shift is exact multiplication -/
theorem C03_scale (s : Scale) (v : Int) (h : -2048 ≤ v ∧ v ≤ 2047) :
    T.shlI16 v (T.scaleShift s) = 2 ^ (T.scaleShift s) * v := by
  cases s <;> simp only [T.shlI16, T.scaleShift]
  · exact shl_lit 1 v (by simp) h
  · exact shl_lit 2 v (by simp) h
  · exact shl_lit 4 v (by simp) h
  · exact shl_lit 8 v (by simp) h

theorem range_code : ∀ b : Byte,
    (2 : Int) ^ ((b &&& 0xC0#8) >>> 6).toNat = 2 ^ T.scaleShift (R.acc1_scale b) := by decide +kernel

theorem C03_plan (sh : Regs) :
    Op.getUnscaled.plan sh = ⟨none, [.rd 0x04 6]⟩ ∧ Op.getData.plan sh = ⟨none, [.rd 0x04 6]⟩ :=
  ⟨rfl, rfl⟩

theorem C03_unscaled (sh : Regs) (b0 b1 b2 b3 b4 b5 : Byte) :
    Op.getUnscaled.ints sh [[b0, b1, b2, b3, b4, b5]] = some (expectUnscaledI [b0, b1, b2, b3, b4, b5]) := by
  simp [Op.ints, T.fromBytesUnscaled, expectUnscaledI, C03_decode]

/-- `chip` are the device registers; the hypothesis is coherence on ACC_CONFIG1 -/
theorem C03_scaled (sh chip : Regs) (hc : sh 0x1A = chip 0x1A) (b0 b1 b2 b3 b4 b5 : Byte) :
    Op.getData.ints sh [[b0, b1, b2, b3, b4, b5]] = some (expectScaledI chip [b0, b1, b2, b3, b4, b5]) := by
  have hr : rangeFactor chip = 2 ^ T.scaleShift (R.acc1_scale (chip 0x1A)) := range_code _
  simp only [Op.ints, T.fromBytesScaled, T.fromBytesUnscaled, expectScaledI, hr, C03_decode]
  simp [C03_scale _ _ (accel12_range _ _), hc]

/-- the values are the documented multiples: 1, 2, 4, 8 for 2g, 4g, 8g, 16g -/
theorem C03_factors : ∀ b : Byte, (2 : Int) ^ ((b &&& 0xC0#8) >>> 6).toNat =
    match (b.toNat / 64) with | 0 => 1 | 1 => 2 | 2 => 4 | _ => 8 := by decide +kernel

/-- 4g after power-on or soft reset -/
theorem C03_after_reset : R.acc1_scale (shadowDefault 0x1A) = .r4g ∧ rangeFactor DS.resetVal = 2 := by
  decide

/-- non-vacuity: -2047 at 8g -/
example : Op.getData.ints (shadowDefault.set 0x1A 0x89#8) [[0x01#8, 0xF8#8, 0, 0, 0xFF#8, 0x07#8]]
    = some [-8188, 0, 8188] := by decide

end Thm
end Bma400
