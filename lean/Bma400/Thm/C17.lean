/-
  C17 - status, interrupt-status and counter getters decode every register value.

  For every content `c` of the read-only registers and every getter:
  * `C17_plan`   the getter issues exactly one burst read, of the datasheet
                 register and length (`P.getterSpecI`), and nothing else;
  * `C17_value`  the value it returns is the datasheet decoding of the bytes
                 served (for the three 2-bit fields the reserved code 3 is left
                 free - the statement then only says that a value is returned);
  * `C17_run` (Thm/Getters.lean)  the same end to end through the interpreter and both
                 transports, in the exact form `P.C17` that `judge` evaluates on
                 the real crate.
  All quantifiers range over all 2^8 / 2^16 / 2^24 register contents.
-/
import Bma400.Props
namespace Bma400
namespace Thm
open P

/-- the bytes a chip holding registers `c` serves for a burst read of n bytes at a -/
def regBurst (c : Regs) (a n : Nat) : List Byte := (List.range n).map (fun i => c (a + i))

theorem C17_plan (c sh : Regs) (op : Op) (a n : Nat) (e : Option (List Int))
    (h : getterSpecI c op = some (a, n, e)) : op.plan sh = ⟨none, [.rd a n]⟩ := by
  cases op <;> simp [getterSpecI] at h <;> (obtain ⟨rfl, rfl, _⟩ := h; rfl)

/-! byte-level decoding facts, each checked for all 256 values by the kernel -/
theorem status_dec : ∀ b : Byte, b.toNat / 2 % 4 ≠ 3 →
    T.decodeStatus b = [bitN b 7, bitN b 4, ((b.toNat / 2 % 4 : Nat) : Int), bitN b 0] := by decide +kernel
theorem status_total : ∀ b : Byte, (T.decodeStatus b).length = 4 := by decide +kernel
theorem is0_dec : ∀ b : Byte, T.decodeIntStatus0 b =
    [bitN b 7, bitN b 6, bitN b 5, bitN b 4, bitN b 3, bitN b 2, bitN b 1, bitN b 0] := by decide +kernel
theorem is1_dec : ∀ b : Byte, b.toNat % 4 ≠ 3 →
    T.decodeIntStatus1 b = [bitN b 4, bitN b 3, bitN b 2, ((b.toNat % 4 : Nat) : Int)] := by decide +kernel
theorem is2_dec : ∀ b : Byte, T.decodeIntStatus2 b = [bitN b 4, bitN b 2, bitN b 1, bitN b 0] := by
  decide +kernel
theorem act_dec : ∀ b : Byte, b.toNat % 4 ≠ 3 → ((T.decodeActivity b : Nat) : Int) = ((b.toNat % 4 : Nat) : Int) := by
  decide +kernel
theorem cmderr_dec : ∀ b : Byte, T.b2i ((b &&& 0x02#8) != 0#8) = bitN b 1 := by decide +kernel
theorem reset_dec : ∀ b : Byte, T.b2i ((b &&& 0x01#8) != 0#8) = bitN b 0 := by decide +kernel
theorem temp_dec : ∀ b : Byte, T.i8of b = DS.sext8 b.toNat := by decide +kernel
theorem and7 : ∀ b : Byte, (b &&& 0x07#8).toNat = b.toNat % 8 := by decide +kernel

/-- FIFO length: the low 11 bits of the little-endian pair - all 65 536 pairs, by arithmetic -/
theorem fifoLen_dec (b0 b1 : Byte) : T.fifoLen b0 b1 = (b0.toNat + 256 * b1.toNat) % 2048 := by
  have h0 := b0.isLt
  have h1 := b1.isLt
  unfold T.fifoLen
  rw [and7]
  omega

theorem C17_value (c sh : Regs) (op : Op) (a n : Nat) (e : Option (List Int))
    (h : getterSpecI c op = some (a, n, e)) :
    ∃ v, op.ints sh [regBurst c a n] = some v ∧ ∀ x ∈ e, v = x := by
  cases op <;> simp [getterSpecI] at h
  case getId => obtain ⟨rfl, rfl, rfl⟩ := h; exact ⟨_, rfl, by simp⟩
  case getCmdError =>
    obtain ⟨rfl, rfl, rfl⟩ := h
    refine ⟨_, rfl, ?_⟩
    simp [regBurst, cmderr_dec]
  case getStatus =>
    obtain ⟨rfl, rfl, rfl⟩ := h
    refine ⟨_, rfl, ?_⟩
    intro x hx
    split at hx
    · cases hx
    · simp at hx; subst hx
      simpa [regBurst] using status_dec (c 3) (by assumption)
  case getSensorClock =>
    obtain ⟨rfl, rfl, rfl⟩ := h
    refine ⟨_, rfl, ?_⟩
    simp [regBurst, T.u24le]
  case getResetStatus =>
    obtain ⟨rfl, rfl, rfl⟩ := h
    refine ⟨_, rfl, ?_⟩
    simp [regBurst, reset_dec]
  case getIntStatus0 =>
    obtain ⟨rfl, rfl, rfl⟩ := h
    refine ⟨_, rfl, ?_⟩
    simp [regBurst, is0_dec]
  case getIntStatus1 =>
    obtain ⟨rfl, rfl, rfl⟩ := h
    refine ⟨_, rfl, ?_⟩
    intro x hx
    split at hx
    · cases hx
    · simp at hx; subst hx
      simpa [regBurst] using is1_dec (c 0x0F) (by assumption)
  case getIntStatus2 =>
    obtain ⟨rfl, rfl, rfl⟩ := h
    refine ⟨_, rfl, ?_⟩
    simp [regBurst, is2_dec]
  case getFifoLen =>
    obtain ⟨rfl, rfl, rfl⟩ := h
    refine ⟨_, rfl, ?_⟩
    simp [regBurst, fifoLen_dec]
  case getStepCount =>
    obtain ⟨rfl, rfl, rfl⟩ := h
    refine ⟨_, rfl, ?_⟩
    simp [regBurst, T.u24le]
  case getStepActivity =>
    obtain ⟨rfl, rfl, rfl⟩ := h
    refine ⟨_, rfl, ?_⟩
    intro x hx
    split at hx
    · cases hx
    · simp at hx; subst hx
      simpa [regBurst] using act_dec (c 0x18) (by assumption)
  case getRawTemp =>
    obtain ⟨rfl, rfl, rfl⟩ := h
    refine ⟨_, rfl, ?_⟩
    simp [regBurst, temp_dec]
  case getTempCelsius =>
    obtain ⟨rfl, rfl, rfl⟩ := h
    refine ⟨_, rfl, ?_⟩
    simp [regBurst, temp_dec]

end Thm
end Bma400
