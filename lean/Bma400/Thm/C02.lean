/-
  C02 - each builder setter encodes per the datasheet and touches only its own field.
  C09 - numeric settings saturate as documented and reassemble across split registers
        (the numeric setters below; the arithmetic of the saturations is in Thm/C09).

  For EVERY setter of every builder, EVERY argument value and EVERY prior content of
  the registers without reserved bits (all 256 byte values, kernel-evaluated, or by
  arithmetic for 16-bit arguments), the builder's copy after the setter equals the
  datasheet-level description `DS.xxxFields` (field, code) applied to the prior content:
  exactly the bits of the setter's field change, to the datasheet code; every other bit
  of that register and every other register is as before (`Field.put` is pointwise).
  `xxx_spec` theorems, then `C02_target`: the same for whole requests (any list of
  setters), and `C02_defined`: no setter ever sets a reserved bit.

  Unsupported sources: the register-level encoders are partial (`unreachable!()` =
  `none`); `fifoSrc?_isSome` etc. (Builders.lean) show the public setters never reach
  those arms, and the `src` cases below show the documented substitute is encoded.
-/
import Bma400.Props
import Bma400.Lemmas.Enum
set_option linter.unusedSimpArgs false
namespace Bma400
namespace Thm
open R DS DS.F

theorem puts_cons (r : Regs) (f : Field) (c : Nat) (rest : List (Field × Nat)) (x : Nat) :
    puts r ((f, c) :: rest) x = puts (f.put c r) rest x := rfl
theorem puts_nil (r : Regs) (x : Nat) : puts r [] x = r x := rfl
theorem puts_append (r : Regs) (l1 l2 : List (Field × Nat)) : puts r (l1 ++ l2) = puts (puts r l1) l2 := by
  induction l1 generalizing r with
  | nil => rfl
  | cons p ps ih => obtain ⟨f, c⟩ := p; simp [puts, ih]

/-- no reserved bit of register `x` is set -/
def DefAt (r : Regs) (x : Nat) : Prop := r x &&& ~~~definedMask x = 0#8

/-- closes the goals left after unfolding a setter at address `x`: the untouched-register
    case by `rfl`, impossible address combinations by `omega`, and the byte equation by
    kernel evaluation over all bytes and all enum / bool arguments -/
syntax "close_setter" term "," term : tactic
macro_rules
  | `(tactic| close_setter $r, $x) => `(tactic|
      (repeat' split) <;> first
        | rfl
        | (exfalso; omega)
        | contradiction
        | (generalize $r $x = b at *; decide +kernel +revert))

/-- variant for the generic-interrupt builders, whose register addresses are computed -/
syntax "close_gen" term : tactic
macro_rules
  | `(tactic| close_gen $r) => `(tactic|
      (repeat' split) <;> (try simp only [*, ↓reduceIte]) <;> first
        | rfl
        | (exfalso; omega)
        | contradiction
        | (generalize $r 63 = b at *; decide +kernel +revert)
        | (generalize $r 74 = b at *; decide +kernel +revert)
        | (generalize $r 64 = b at *; decide +kernel +revert)
        | (generalize $r 75 = b at *; decide +kernel +revert))

theorem acc_spec (σ : AccSetter) (r : Regs) (x : Nat) : σ.apply r x = puts r (accFields σ) x := by
  cases σ <;> simp only [AccSetter.apply, accFields, puts_cons, puts_nil, upd, Field.put,
     power_mode, osr_lp, filt1_bw, acc_odr, F.osr, acc_range, data_src_reg] <;> close_setter r, x

theorem int_spec (σ : IntSetter) (r : Regs) (x : Nat) : σ.apply r x = puts r (intFields σ) x := by
  cases σ <;> simp only [IntSetter.apply, intFields, puts_cons, puts_nil, upd, Field.put,
     drdy_int_en, fwm_int_en, ffull_int_en, gen2_int_en, gen1_int_en, orientch_int_en, latch_int, actch_int_en,
     d_tap_int_en, s_tap_int_en, step_int_en] <;> close_setter r, x

theorem pin_spec (σ : PinSetter) (r : Regs) (x : Nat) : σ.apply r x = puts r (pinFields σ) x := by
  cases σ <;> simp only [PinSetter.apply, pinFields, map12Fields, map12, map3, puts_cons, puts_nil, upd, Field.put,
     map_drdy, map_fwm, map_ffull, map_ieng_ovrun, map_gen2, map_gen1, map_orientch, map_wkup,
     actch_int1, actch_int2, tap_int1, tap_int2, step_int1, step_int2, int1_od, int1_lvl, int2_od, int2_lvl] <;>
    close_setter r, x

/-! byte-wide arguments written to a whole register -/
theorem and_ff : ∀ t : Byte, t &&& 0xFF#8 = t := by decide +kernel
theorem trunc_ff (t : Byte) : trunc 0xFF#8 t = t := and_ff t
theorem full_field (b t : Byte) : b &&& ~~~0xFF#8 ||| BitVec.ofNat 8 t.toNat <<< 0 &&& 0xFF#8 = t := by
  have h1 : ~~~(0xFF#8 : Byte) = 0#8 := by decide
  rw [h1, and_ff]; simp

theorem numSamples_byte : ∀ b : Byte, ∀ k, k < 8 →
    uni (clr b 0x1C#8) (trunc 0xFF#8 (BitVec.ofNat 8 k <<< 2)) =
      b &&& ~~~0x1C#8 ||| BitVec.ofNat 8 k <<< 2 &&& 0x1C#8 := by decide +kernel

theorem fifo_spec_simple (σ : FifoSetter) (hσ : ∀ v, σ ≠ .watermark v) (r : Regs) (x : Nat) :
    σ.apply r x = puts r (fifoFields σ) x := by
  cases σ with
  | watermark v => exact absurd rfl (hσ v)
  | _ =>
    clear hσ
    simp only [FifoSetter.apply, fifoFields, axes3, puts_cons, puts_nil, upd, Field.put,
     fifo_read_disable, fifo_x_en, fifo_y_en, fifo_z_en, fifo_8bit_en, fifo_data_src, fifo_time_en,
     fifo_stop_on_full, auto_flush]
    close_setter r, x

theorem alp_spec_simple (σ : AlpSetter) (hσ : ∀ v, σ ≠ .timeout v) (r : Regs) (x : Nat) :
    σ.apply r x = puts r (alpFields σ) x := by
  cases σ with
  | timeout v => exact absurd rfl (hσ v)
  | _ =>
    clear hσ
    simp only [AlpSetter.apply, alpFields, puts_cons, puts_nil, upd, Field.put,
     auto_lp_timeout, gen1_int_trig, drdy_lowpow_trig]
    close_setter r, x

theorem awk_spec_simple (σ : AwkSetter) (hσ : ∀ v, σ ≠ .period v) (r : Regs) (x : Nat) :
    σ.apply r x = puts r (awkFields σ) x := by
  cases σ with
  | period v => exact absurd rfl (hσ v)
  | _ =>
    clear hσ
    simp only [AwkSetter.apply, awkFields, puts_cons, puts_nil, upd, Field.put,
     wkup_timeout, wkup_int]
    close_setter r, x

theorem act_spec (σ : ActSetter) (r : Regs) (x : Nat) : σ.apply r x = puts r (actFields σ) x := by
  cases σ <;> simp only [ActSetter.apply, actFields, axes3, puts_cons, puts_nil, upd, Field.put, Regs.set,
     actch_thres, actch_x_en, actch_y_en, actch_z_en, actch_data_src, actch_npts, trunc_ff, full_field] <;>
    close_setter r, x

theorem tap_spec (σ : TapSetter) (r : Regs) (x : Nat) : σ.apply r x = puts r (tapFields σ) x := by
  cases σ <;> simp only [TapSetter.apply, tapFields, puts_cons, puts_nil, upd, Field.put,
     tap_sel_axis, tap_sensitivity, tap_quiet_dt, tap_quiet, tap_tics_th] <;> close_setter r, x

/-! ### numeric arguments: arithmetic instead of enumeration -/

theorem ofNat8_congr (a b : Nat) (h : a % 256 = b % 256) : BitVec.ofNat 8 a = BitVec.ofNat 8 b := by
  apply BitVec.eq_of_toNat_eq; simp [BitVec.toNat_ofNat]; exact h

/-- a value written to a whole register whose other bits are reserved (and clear) -/
theorem low_field (m b v : Byte) (h : b &&& ~~~m = 0#8) : trunc m v = b &&& ~~~m ||| (v <<< 0 &&& m) := by
  rw [h]; simp [trunc]

theorem full_field' (b v : Byte) : b &&& ~~~0xFF#8 ||| (v <<< 0 &&& 0xFF#8) = v := by
  have h1 : ~~~(0xFF#8 : Byte) = 0#8 := by decide
  rw [h1, and_ff]; simp

theorem full_field'' (b v : Byte) : b &&& ~~~0xFF#8 ||| (v &&& 0xFF#8) = v := by
  have h1 : ~~~(0xFF#8 : Byte) = 0#8 := by decide
  rw [h1, and_ff]; simp

theorem nibble_hi : ∀ k, k < 16 → BitVec.ofNat 8 (k * 16) = BitVec.ofNat 8 k <<< 4 &&& 0xF0#8 := by decide +kernel
theorem nibble_hi_f6 : ∀ k, k < 16 → trunc 0xF6#8 (BitVec.ofNat 8 (k * 16)) = BitVec.ofNat 8 k <<< 4 &&& 0xF0#8 := by
  decide +kernel
theorem lsb_merge : ∀ b v : Byte, v &&& 0x0F#8 = 0#8 → uni (clr b 0xF0#8) v = b &&& ~~~0xF0#8 ||| v := by
  intro b v _; rfl

theorem and0f (a : Nat) : BitVec.ofNat 8 a &&& 0x0F#8 = BitVec.ofNat 8 (a % 16) := by
  apply BitVec.eq_of_toNat_eq
  simp [BitVec.toNat_ofNat]
  have : (15 : Nat) = 2 ^ 4 - 1 := rfl
  rw [this, Nat.and_two_pow_sub_one_eq_mod]; omega
theorem and07 (a : Nat) : BitVec.ofNat 8 a &&& 0x07#8 = BitVec.ofNat 8 (a % 8) := by
  apply BitVec.eq_of_toNat_eq
  simp [BitVec.toNat_ofNat]
  have : (7 : Nat) = 2 ^ 3 - 1 := rfl
  rw [this, Nat.and_two_pow_sub_one_eq_mod]; omega

theorem shl0 (v : Byte) : v <<< 0 = v := by simp

/-- watermark: min(v, 1024), low 8 bits to 0x27, bits 10:8 to 0x28 -/
theorem fifo_spec_wm (v : Nat) (r : Regs) (x : Nat) (hd : DefAt r x) :
    (FifoSetter.watermark v).apply r x = puts r (fifoFields (.watermark v)) x := by
  simp only [FifoSetter.apply, fifoFields, puts_cons, puts_nil, Field.put, Regs.set, fifo_wm_lsb, fifo_wm_msb,
    f1_with_thresh, f2_with_thresh, u16lo, u16hi, clampU16, satWatermark, trunc_ff, shl0]
  have ht : min v 1024 ≤ 1024 := Nat.min_le_right _ _
  generalize min v 1024 = t at *
  by_cases h28 : x = 0x28
  · subst h28
    simp only [if_true, show ((0x28 : Nat) = 0x27) = False by simp, if_false]
    have hb : r 0x28 &&& ~~~0x07#8 = 0#8 := hd
    rw [hb]; simp only [trunc, and07, BitVec.zero_or]
    exact ofNat8_congr _ _ (by omega)
  · simp only [h28, if_false]
    by_cases h27 : x = 0x27
    · subst h27
      simp only [if_true]
      rw [full_field'']
      apply ofNat8_congr; omega
    · simp only [h27, if_false]

/-- 12-bit timeouts: bits 11:4 to the first register, bits 3:0 to the high nibble of the second -/
theorem alp_spec_timeout (v : Nat) (r : Regs) (x : Nat) :
    (AlpSetter.timeout v).apply r x = puts r (alpFields (.timeout v)) x := by
  simp only [AlpSetter.apply, alpFields, puts_cons, puts_nil, Field.put, Regs.set, upd,
    auto_lp_timeout_thres_msb, auto_lp_timeout_thres_lsb,
    alp0_with_timeout_msb, alp1_with_timeout_lsb, u16lo, clampU16, sat12, trunc_ff, shl0]
  have ht : min v 4095 ≤ 4095 := Nat.min_le_right _ _
  generalize min v 4095 = t at *
  by_cases h2b : x = 0x2B
  · subst h2b
    simp only [if_true, show ((0x2B : Nat) = 0x2A) = False by simp, if_false]
    rw [← nibble_hi (t % 16) (by omega)]
    have : BitVec.ofNat 8 (t * 16 % 65536) = BitVec.ofNat 8 (t % 16 * 16) := ofNat8_congr _ _ (by omega)
    rw [this]; rfl
  · simp only [h2b, if_false]
    by_cases h2a : x = 0x2A
    · subst h2a
      simp only [if_true]
      rw [full_field'']
      apply ofNat8_congr; omega
    · simp only [h2a, if_false]

theorem awk_spec_period (v : Nat) (r : Regs) (x : Nat) :
    (AwkSetter.period v).apply r x = puts r (awkFields (.period v)) x := by
  simp only [AwkSetter.apply, awkFields, puts_cons, puts_nil, Field.put, Regs.set, upd,
    wakeup_timeout_thres_msb, wakeup_timeout_thres_lsb,
    awk0_with_timeout_msb, awk1_with_timeout_lsb, u16lo, clampU16, sat12, trunc_ff, shl0]
  have ht : min v 4095 ≤ 4095 := Nat.min_le_right _ _
  generalize min v 4095 = t at *
  by_cases h2d : x = 0x2D
  · subst h2d
    simp only [if_true, show ((0x2D : Nat) = 0x2C) = False by simp, if_false]
    rw [← nibble_hi_f6 (t % 16) (by omega)]
    have : BitVec.ofNat 8 (t * 16 % 65536) = BitVec.ofNat 8 (t % 16 * 16) := ofNat8_congr _ _ (by omega)
    rw [this]; rfl
  · simp only [h2d, if_false]
    by_cases h2c : x = 0x2C
    · subst h2c
      simp only [if_true]
      rw [full_field'']
      apply ofNat8_congr; omega
    · simp only [h2c, if_false]

/-- 12-bit reference: clamp, two's complement, low byte / high nibble (LSB register a, MSB a+1) -/
theorem ref12_lsb (b : Byte) (v : Int) :
    ref_lsb_i16 (clampRef v) = b &&& ~~~0xFF#8 ||| (BitVec.ofNat 8 (twos12 (satRef12 v) % 256) <<< 0 &&& 0xFF#8) := by
  rw [full_field']
  simp only [ref_lsb_i16, i16lo, trunc_ff, clampRef, satRef12, twos12]
  apply ofNat8_congr; omega

theorem ref12_msb (b : Byte) (v : Int) (hb : b &&& ~~~0x0F#8 = 0#8) :
    ref_msb_i16 (clampRef v) = b &&& ~~~0x0F#8 ||| (BitVec.ofNat 8 (twos12 (satRef12 v) / 256) <<< 0 &&& 0x0F#8) := by
  rw [hb]
  simp only [ref_msb_i16, i16hi, trunc, clampRef, satRef12, twos12, shl0, BitVec.zero_or, and0f]
  apply ofNat8_congr; omega

/-- the six reference registers at `a .. a+5` -/
theorem setRef12_spec (a : Nat) (x' y' z' : Int) (r : Regs) (x : Nat)
    (hd : DefAt r x) (hm : ∀ k, k = 1 ∨ k = 3 ∨ k = 5 → definedMask (a + k) = 0x0F#8) :
    setRef12 r a x' y' z' x = puts r (ref12 a x' ++ ref12 (a + 2) y' ++ ref12 (a + 4) z') x := by
  simp only [setRef12, ref12, List.cons_append, List.nil_append, puts_cons, puts_nil, Field.put, Regs.set,
    ref_lsb, ref_msb]
  have e3 : a + 2 + 1 = a + 3 := rfl
  have e5 : a + 4 + 1 = a + 5 := rfl
  simp only [e3, e5]
  by_cases h5 : x = a + 5
  · subst h5
    have hb : r (a + 5) &&& ~~~0x0F#8 = 0#8 := by have := hd; unfold DefAt at this; rwa [hm 5 (by simp)] at this
    simp only [if_true, show (a + 5 = a + 4) = False by simp, show (a + 5 = a + 3) = False by simp,
      show (a + 5 = a + 2) = False by simp, show (a + 5 = a + 1) = False by simp,
      show (a + 5 = a) = False by simp, if_false]
    exact ref12_msb _ _ hb
  · by_cases h4 : x = a + 4
    · subst h4
      simp only [if_true, show (a + 4 = a + 5) = False by simp, show (a + 4 = a + 3) = False by simp,
        show (a + 4 = a + 2) = False by simp, show (a + 4 = a + 1) = False by simp,
        show (a + 4 = a) = False by simp, if_false]
      exact ref12_lsb _ _
    · by_cases h3 : x = a + 3
      · subst h3
        have hb : r (a + 3) &&& ~~~0x0F#8 = 0#8 := by have := hd; unfold DefAt at this; rwa [hm 3 (by simp)] at this
        simp only [if_true, show (a + 3 = a + 5) = False by simp, show (a + 3 = a + 4) = False by simp,
          show (a + 3 = a + 2) = False by simp, show (a + 3 = a + 1) = False by simp,
          show (a + 3 = a) = False by simp, if_false]
        exact ref12_msb _ _ hb
      · by_cases h2 : x = a + 2
        · subst h2
          simp only [if_true, show (a + 2 = a + 5) = False by simp, show (a + 2 = a + 4) = False by simp,
            show (a + 2 = a + 3) = False by simp, show (a + 2 = a + 1) = False by simp,
            show (a + 2 = a) = False by simp, if_false]
          exact ref12_lsb _ _
        · by_cases h1 : x = a + 1
          · subst h1
            have hb : r (a + 1) &&& ~~~0x0F#8 = 0#8 := by have := hd; unfold DefAt at this; rwa [hm 1 (by simp)] at this
            simp only [if_true, show (a + 1 = a + 5) = False by simp, show (a + 1 = a + 4) = False by simp,
              show (a + 1 = a + 3) = False by simp, show (a + 1 = a + 2) = False by simp,
              show (a + 1 = a) = False by simp, if_false]
            exact ref12_msb _ _ hb
          · by_cases h0 : x = a
            · subst h0
              simp only [if_true, show (x = x + 5) = False by simp, show (x = x + 4) = False by simp,
                show (x = x + 3) = False by simp, show (x = x + 2) = False by simp,
                show (x = x + 1) = False by simp, if_false]
              exact ref12_lsb _ _
            · simp only [h0, h1, h2, h3, h4, h5, if_false]

theorem wkup_spec (σ : WkupSetter) (r : Regs) (x : Nat) : σ.apply r x = puts r (wkupFields σ) x := by
  cases σ with
  | refMode m =>
    simp only [WkupSetter.apply, wkupFields, puts_cons, puts_nil, upd, Field.put, wkup_refu]
    close_setter r, x
  | axes a b c =>
    simp only [WkupSetter.apply, wkupFields, axes3, puts_cons, puts_nil, upd, Field.put, wkup_x_en, wkup_y_en, wkup_z_en]
    close_setter r, x
  | numSamples n =>
    simp only [WkupSetter.apply, wkupFields, puts_cons, puts_nil, upd, Field.put, wkup_num_of_samples,
      wk0_with_num_samples, clampSamples, satNumSamples]
    split
    · exact numSamples_byte _ _ (by omega)
    · rfl
  | threshold t =>
    simp only [WkupSetter.apply, wkupFields, puts_cons, puts_nil, Field.put, Regs.set, wkup_int_thres, trunc_ff, full_field]
  | refAccel a b c =>
    simp only [WkupSetter.apply, wkupFields, puts_cons, puts_nil, Field.put, Regs.set, wkup_refx, wkup_refy, wkup_refz,
      trunc_ff, i8byte, twos8, full_field']
    repeat' split
    all_goals first | rfl | (exfalso; omega)

theorem ori_spec (σ : OriSetter) (r : Regs) (x : Nat) (hd : DefAt r x) : σ.apply r x = puts r (oriFields σ) x := by
  cases σ with
  | axes a b c =>
    simp only [OriSetter.apply, oriFields, axes3, puts_cons, puts_nil, upd, Field.put, orient_x_en, orient_y_en, orient_z_en]
    clear hd; close_setter r, x
  | src s =>
    simp only [OriSetter.apply, oriFields, puts_cons, puts_nil, upd, Field.put, orient_data_src]
    clear hd; close_setter r, x
  | refMode m =>
    simp only [OriSetter.apply, oriFields, puts_cons, puts_nil, upd, Field.put, orient_refu]
    clear hd; close_setter r, x
  | threshold t =>
    simp only [OriSetter.apply, oriFields, puts_cons, puts_nil, Field.put, Regs.set, orient_thres, trunc_ff, full_field]
  | duration t =>
    simp only [OriSetter.apply, oriFields, puts_cons, puts_nil, Field.put, Regs.set, orient_dur, trunc_ff, full_field]
  | refAccel a b c =>
    have := setRef12_spec 0x39 a b c r x hd (by intro k hk; rcases hk with rfl | rfl | rfl <;> rfl)
    simpa [OriSetter.apply, oriFields] using this

theorem gen_spec (g : GenId) (σ : GenSetter) (r : Regs) (x : Nat) (hd : DefAt r x) :
    σ.apply g r x = puts r (genFields g σ) x := by
  cases σ with
  | axes a b c =>
    cases g <;>
    simp only [GenSetter.apply, genFields, axes3, puts_cons, puts_nil, upd, Field.put, gen_x_en, gen_y_en, gen_z_en,
      GenId.base, genBase, GEN1INT_CONFIG0, GEN2INT_CONFIG0] <;> (clear hd; close_gen r)
  | src s =>
    cases g <;>
    simp only [GenSetter.apply, genFields, puts_cons, puts_nil, upd, Field.put, gen_data_src,
      GenId.base, genBase, GEN1INT_CONFIG0, GEN2INT_CONFIG0] <;> (clear hd; close_gen r)
  | refMode m =>
    cases g <;>
    simp only [GenSetter.apply, genFields, puts_cons, puts_nil, upd, Field.put, gen_refu,
      GenId.base, genBase, GEN1INT_CONFIG0, GEN2INT_CONFIG0] <;> (clear hd; close_gen r)
  | hysteresis h =>
    cases g <;>
    simp only [GenSetter.apply, genFields, puts_cons, puts_nil, upd, Field.put, gen_hyst,
      GenId.base, genBase, GEN1INT_CONFIG0, GEN2INT_CONFIG0] <;> (clear hd; close_gen r)
  | criterion c =>
    cases g <;>
    simp only [GenSetter.apply, genFields, puts_cons, puts_nil, upd, Field.put, gen_criterion,
      GenId.base, genBase, GEN1INT_CONFIG0, GEN2INT_CONFIG0] <;> (clear hd; close_gen r)
  | logic l =>
    cases g <;>
    simp only [GenSetter.apply, genFields, puts_cons, puts_nil, upd, Field.put, gen_comb,
      GenId.base, genBase, GEN1INT_CONFIG0, GEN2INT_CONFIG0] <;> (clear hd; close_gen r)
  | threshold t =>
    cases g <;>
    simp only [GenSetter.apply, genFields, puts_cons, puts_nil, Field.put, Regs.set, gen_thres, trunc_ff, full_field,
      GenId.base, genBase, GEN1INT_CONFIG0, GEN2INT_CONFIG0]
  | duration d =>
    cases g <;>
    simp only [GenSetter.apply, genFields, puts_cons, puts_nil, Field.put, Regs.set, gen_dur_msb, gen_dur_lsb, trunc_ff,
      u16hi, u16lo, GenId.base, genBase, GEN1INT_CONFIG0, GEN2INT_CONFIG0] <;>
    (repeat' split) <;> first
      | rfl
      | (exfalso; omega)
      | (rw [full_field']; apply ofNat8_congr; omega)
  | refAccel a b c =>
    cases g
    · have := setRef12_spec 0x44 a b c r x hd (by intro k hk; rcases hk with rfl | rfl | rfl <;> rfl)
      simpa [GenSetter.apply, genFields, GenId.base, genBase, GEN1INT_CONFIG0] using this
    · have := setRef12_spec 0x4F a b c r x hd (by intro k hk; rcases hk with rfl | rfl | rfl <;> rfl)
      simpa [GenSetter.apply, genFields, GenId.base, genBase, GEN2INT_CONFIG0] using this

/-! ### whole requests -/

theorem fifo_spec (σ : FifoSetter) (r : Regs) (x : Nat) (hd : DefAt r x) : σ.apply r x = puts r (fifoFields σ) x := by
  cases σ with
  | watermark v => exact fifo_spec_wm v r x hd
  | _ => exact fifo_spec_simple _ (by intro v h; cases h) r x
theorem alp_spec (σ : AlpSetter) (r : Regs) (x : Nat) : σ.apply r x = puts r (alpFields σ) x := by
  cases σ with
  | timeout v => exact alp_spec_timeout v r x
  | _ => exact alp_spec_simple _ (by intro v h; cases h) r x
theorem awk_spec (σ : AwkSetter) (r : Regs) (x : Nat) : σ.apply r x = puts r (awkFields σ) x := by
  cases σ with
  | period v => exact awk_spec_period v r x
  | _ => exact awk_spec_simple _ (by intro v h; cases h) r x

/-- `puts` is pointwise: the result at `x` depends only on the prior content of `x` -/
theorem puts_pointwise (fs : List (Field × Nat)) : ∀ (r r' : Regs) (x : Nat), r x = r' x → puts r fs x = puts r' fs x := by
  induction fs with
  | nil => intro r r' x h; exact h
  | cons p ps ih =>
    intro r r' x h
    obtain ⟨f, c⟩ := p
    simp only [puts]
    apply ih
    simp only [Field.put]; split <;> simp [h]

theorem sub_and (b m d : Byte) (h : b &&& ~~~d = 0#8) : (b &&& m) &&& ~~~d = 0#8 := by
  rw [BitVec.and_assoc, BitVec.and_comm m, ← BitVec.and_assoc, h]; simp
theorem sub_and' (v m d : Byte) (h : m &&& ~~~d = 0#8) : (v &&& m) &&& ~~~d = 0#8 := by
  rw [BitVec.and_assoc, h]; simp
theorem sub_or (p q d : Byte) (hp : p &&& ~~~d = 0#8) (hq : q &&& ~~~d = 0#8) : (p ||| q) &&& ~~~d = 0#8 := by
  rw [BitVec.and_or_distrib_right, hp, hq]; simp

/-- a field inside the defined bits keeps the register free of reserved bits -/
theorem put_defAt (f : Field) (c : Nat) (r : Regs) (x : Nat)
    (hm : f.mask &&& ~~~definedMask f.addr = 0#8) (hd : DefAt r x) : DefAt (f.put c r) x := by
  unfold DefAt at *
  simp only [Field.put]
  split
  · rename_i hx; subst hx
    exact sub_or _ _ _ (sub_and _ _ _ hd) (sub_and' _ _ _ hm)
  · exact hd

def FieldOk (p : Field × Nat) : Prop := p.1.mask &&& ~~~definedMask p.1.addr = 0#8
instance (p : Field × Nat) : Decidable (FieldOk p) := by unfold FieldOk; infer_instance

theorem puts_defAt (fs : List (Field × Nat)) (hok : ∀ p ∈ fs, FieldOk p) :
    ∀ (r : Regs) (x : Nat), DefAt r x → DefAt (puts r fs) x := by
  induction fs with
  | nil => intro r x h; exact h
  | cons p ps ih =>
    intro r x h
    obtain ⟨f, c⟩ := p
    simp only [puts]
    exact ih (fun q hq => hok q (by simp [hq])) _ _ (put_defAt f c r x (hok (f, c) (by simp)) h)

/-- the folding argument shared by all builders -/
theorem fold_spec {σT : Type} (apply : Regs → σT → Regs) (fields : σT → List (Field × Nat))
    (hspec : ∀ (σ : σT) (r : Regs) (x : Nat), DefAt r x → apply r σ x = puts r (fields σ) x)
    (hok : ∀ σ, ∀ p ∈ fields σ, FieldOk p) (l : List σT) :
    ∀ (r r' : Regs), (∀ x ∈ cfgAddrs, r x = r' x) → (∀ x ∈ cfgAddrs, DefAt r x) →
      ∀ x ∈ cfgAddrs, l.foldl apply r x = puts r' (l.flatMap fields) x ∧ DefAt (l.foldl apply r) x := by
  induction l with
  | nil => intro r r' h hd x hx; exact ⟨h x hx, hd x hx⟩
  | cons σ l ih =>
    intro r r' h hd x hx
    simp only [List.foldl_cons, List.flatMap_cons, puts_append]
    apply ih (apply r σ) (puts r' (fields σ))
    · intro y hy
      rw [hspec σ r y (hd y hy)]
      exact puts_pointwise _ _ _ _ (h y hy)
    · intro y hy
      have := puts_defAt _ (hok σ) _ _ (hd y hy)
      unfold DefAt at this ⊢
      rw [hspec σ r y (hd y hy)]
      exact this
    · exact hx

theorem acc_ok (σ : AccSetter) : ∀ p ∈ accFields σ, FieldOk p := by cases σ <;> simp [accFields, FieldOk] <;> (try decide)
theorem int_ok (σ : IntSetter) : ∀ p ∈ intFields σ, FieldOk p := by cases σ <;> simp [intFields, FieldOk] <;> (try decide)
theorem pin_ok (σ : PinSetter) : ∀ p ∈ pinFields σ, FieldOk p := by
  cases σ <;> simp [pinFields, map12Fields, FieldOk] <;> (try decide)
theorem fifo_ok (σ : FifoSetter) : ∀ p ∈ fifoFields σ, FieldOk p := by
  cases σ <;> simp [fifoFields, axes3, FieldOk] <;> (try decide)
theorem alp_ok (σ : AlpSetter) : ∀ p ∈ alpFields σ, FieldOk p := by cases σ <;> simp [alpFields, FieldOk] <;> (try decide)
theorem awk_ok (σ : AwkSetter) : ∀ p ∈ awkFields σ, FieldOk p := by cases σ <;> simp [awkFields, FieldOk] <;> (try decide)
theorem wkup_ok (σ : WkupSetter) : ∀ p ∈ wkupFields σ, FieldOk p := by
  cases σ <;> simp [wkupFields, axes3, FieldOk] <;> (try decide)
theorem ori_ok (σ : OriSetter) : ∀ p ∈ oriFields σ, FieldOk p := by
  cases σ <;> simp [oriFields, axes3, ref12, FieldOk] <;> (try decide)
theorem gen_ok (g : GenId) (σ : GenSetter) : ∀ p ∈ genFields g σ, FieldOk p := by
  cases g <;> cases σ <;> simp [genFields, axes3, ref12, genBase, GEN1INT_CONFIG0, GEN2INT_CONFIG0, FieldOk] <;> (try decide)
theorem act_ok (σ : ActSetter) : ∀ p ∈ actFields σ, FieldOk p := by
  cases σ <;> simp [actFields, axes3, FieldOk] <;> (try decide)
theorem tap_ok (σ : TapSetter) : ∀ p ∈ tapFields σ, FieldOk p := by cases σ <;> simp [tapFields, FieldOk] <;> (try decide)

/-- C02 for whole requests: from any configuration without reserved bits, the builder's copy
    after ANY list of setters is the datasheet-level target, on every configuration register,
    and has no reserved bit set -/
theorem C02_target (q : Request) (sh pre : Regs) (hagree : ∀ x ∈ cfgAddrs, sh x = pre x)
    (hdef : ∀ x ∈ cfgAddrs, DefAt sh x) :
    ∀ x ∈ cfgAddrs, q.target sh x = DS.Request.spec q pre x ∧ DefAt (q.target sh) x := by
  cases q with
  | acc l => exact fold_spec AccSetter.apply accFields (fun σ r x _ => acc_spec σ r x) acc_ok l sh pre hagree hdef
  | int l => exact fold_spec IntSetter.apply intFields (fun σ r x _ => int_spec σ r x) int_ok l sh pre hagree hdef
  | pin l => exact fold_spec PinSetter.apply pinFields (fun σ r x _ => pin_spec σ r x) pin_ok l sh pre hagree hdef
  | fifo l => exact fold_spec FifoSetter.apply fifoFields (fun σ r x h => fifo_spec σ r x h) fifo_ok l sh pre hagree hdef
  | alp l => exact fold_spec AlpSetter.apply alpFields (fun σ r x _ => alp_spec σ r x) alp_ok l sh pre hagree hdef
  | awk l => exact fold_spec AwkSetter.apply awkFields (fun σ r x _ => awk_spec σ r x) awk_ok l sh pre hagree hdef
  | wkup l => exact fold_spec WkupSetter.apply wkupFields (fun σ r x _ => wkup_spec σ r x) wkup_ok l sh pre hagree hdef
  | ori l => exact fold_spec OriSetter.apply oriFields (fun σ r x h => ori_spec σ r x h) ori_ok l sh pre hagree hdef
  | gen g l =>
    exact fold_spec (GenSetter.apply g) (genFields g) (fun σ r x h => gen_spec g σ r x h) (gen_ok g) l sh pre hagree hdef
  | act l => exact fold_spec ActSetter.apply actFields (fun σ r x _ => act_spec σ r x) act_ok l sh pre hagree hdef
  | tap l => exact fold_spec TapSetter.apply tapFields (fun σ r x _ => tap_spec σ r x) tap_ok l sh pre hagree hdef

/-- the unsupported sources select the documented substitute and never reach `unreachable!()` -/
theorem C02_substitutes (b : Byte) :
    fifoSrc b .filt2Lp = fifoSrc b .filt2 ∧ genSrc b .filt2Lp = genSrc b .filt2 ∧
    actSrc b .filt2Lp = actSrc b .filt2 ∧ oriSrc b .filt1 = oriSrc b .filt2 ∧
    (∀ s, (fifoSrc? b s).isSome ∧ (genSrc? b s).isSome ∧ (actSrc? b s).isSome ∧ (oriSrc? b s).isSome) := by
  refine ⟨rfl, rfl, rfl, rfl, fun s => ?_⟩
  cases s <;> simp [fifoSrc?, genSrc?, actSrc?, oriSrc?, f0_with_fifo_src, g0_with_src, ac1_with_dta_src, or0_with_data_src]

end Thm
end Bma400
