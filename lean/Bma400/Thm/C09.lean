/-
  C09 - numeric settings saturate as documented and reassemble across split registers.

  Two halves.  (1) Thm/C02 (`fifo_spec_wm`, `alp_spec_timeout`, `awk_spec_period`,
  `wkup_spec`, `setRef12_spec`, `gen_spec`, `ori_spec`, `act_spec`) proves, for EVERY
  argument value and every prior register content, that the model of each numeric setter
  writes the (field, code) pairs of `DS.xxxFields`, each through `Field.put`, which changes
  the field's bits only - so the unrelated bits sharing a register with a low part are
  preserved.  (2) The theorems below show that those codes ARE the documented saturation,
  split across the register pair so that reassembling the parts gives it back, for every
  argument (unbounded `Nat` / `Int`, so in particular all u16 / i16 / u8 / i8 values).
-/
import Bma400.Thm.C02
namespace Bma400
namespace Thm
open DS

/-- FIFO watermark: min(v, 1024), 8 + 3 bits -/
theorem C09_watermark (v : Nat) :
    satWatermark v % 256 + 256 * (satWatermark v / 256) = min v 1024 ∧
    satWatermark v % 256 < 256 ∧ satWatermark v / 256 < 8 := by
  unfold satWatermark; omega

/-- auto-low-power timeout and auto-wake-up period: min(v, 4095), 8 + 4 bits -/
theorem C09_sat12 (v : Nat) :
    16 * (sat12 v / 16) + sat12 v % 16 = min v 4095 ∧ sat12 v / 16 < 256 ∧ sat12 v % 16 < 16 := by
  unfold sat12; omega

/-- wake-up sample count: clamp(v, 1, 8) - 1 in three bits -/
theorem C09_numSamples (v : Nat) :
    satNumSamples v = max 1 (min v 8) - 1 ∧ satNumSamples v < 8 ∧
    (1 ≤ v → v ≤ 8 → satNumSamples v = v - 1) := by
  unfold satNumSamples; omega

theorem sext12_eq (n : Nat) (c : Int) (h1 : -2048 ≤ c ∧ c ≤ 2047) (h2 : (n : Int) = c % 4096) : sext12 n = c := by
  unfold sext12
  by_cases h : n % 4096 < 2048
  · rw [if_pos h]; omega
  · rw [if_neg h]; omega

theorem sext8_eq (n : Nat) (c : Int) (h1 : -128 ≤ c ∧ c ≤ 127) (h2 : (n : Int) = c % 256) : sext8 n = c := by
  unfold sext8
  by_cases h : n % 256 < 128
  · rw [if_pos h]; omega
  · rw [if_neg h]; omega

/-- generic / orientation reference: clamp(v, -2048, 2047) as 12-bit two's complement, 8 + 4 bits -/
theorem C09_ref12 (v : Int) :
    sext12 (twos12 (satRef12 v) % 256 + 256 * (twos12 (satRef12 v) / 256)) = max (-2048) (min v 2047) ∧
    twos12 (satRef12 v) % 256 < 256 ∧ twos12 (satRef12 v) / 256 < 16 := by
  simp only [twos12, satRef12]
  refine ⟨?_, by omega, by omega⟩
  apply sext12_eq <;> omega

/-- wake-up reference: 8-bit two's complement, verbatim -/
theorem C09_ref8 (v : Int) (h : -128 ≤ v ∧ v ≤ 127) : sext8 (twos8 v) = v ∧ twos8 v < 256 := by
  simp only [twos8]
  refine ⟨?_, by omega⟩
  apply sext8_eq <;> omega

/-- 16-bit durations: verbatim, MSB / LSB registers -/
theorem C09_duration (d : Nat) (h : d < 65536) : 256 * (d / 256) + d % 256 = d ∧ d / 256 < 256 := by omega

/-- thresholds and 8-bit durations are written verbatim: a full-register field put of the
    byte's value is the byte (any prior content) -/
theorem C09_verbatim (b t : Byte) :
    b &&& ~~~0xFF#8 ||| BitVec.ofNat 8 t.toNat <<< 0 &&& 0xFF#8 = t := full_field b t

/-- the bits outside a field are untouched by `Field.put` (for every field, code and content) -/
theorem C09_preserves (f : Field) (c : Nat) (r : Regs) :
    (f.put c r) f.addr &&& ~~~f.mask = r f.addr &&& ~~~f.mask ∧ ∀ x, x ≠ f.addr → (f.put c r) x = r x := by
  constructor
  · simp only [Field.put, if_true]
    rw [BitVec.and_or_distrib_right]
    have h1 : (r f.addr &&& ~~~f.mask) &&& ~~~f.mask = r f.addr &&& ~~~f.mask := by
      rw [BitVec.and_assoc]; simp
    have h2 : (BitVec.ofNat 8 c <<< f.shift &&& f.mask) &&& ~~~f.mask = 0#8 := by
      rw [BitVec.and_assoc]; simp
    rw [h1, h2]; simp
  · intro x hx; simp [Field.put, hx]

/-- non-vacuity / examples: 2000 -> 1024 = 0x400; -3000 -> -2048 = 0x800; 4100 -> 4095 -/
example : satWatermark 2000 = 1024 ∧ twos12 (satRef12 (-3000)) = 0x800 ∧ sat12 4100 = 4095 := by decide

end Thm
end Bma400
