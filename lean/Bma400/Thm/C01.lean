/-
  C01 - an accepted config write leaves the device holding exactly that configuration.

  `C01_effect`  for EVERY builder, EVERY list of setters, EVERY recorded configuration `sh`
      and device `chip` that agree on the configuration registers (`Coherent`, an
      invariant of all histories of accepted / rejected / bus-failed calls, self
      tests and soft resets - Thm/C16): if `write()` is accepted, then after its
      whole write script
        * every register of the builder's block holds the builder's copy after the
          setters (`Request.target`, shown equal to the datasheet-level target
          `DS.Request.spec` in Thm/C02), and
        * every other register - in particular every interrupt-enable register the
          script switched off temporarily - holds the value it had before.
  `C01_spec`    the same in the exact form `P.C01` that `judge` evaluates on the real
      crate's register dumps, under the additional invariant that no reserved bit is set.
  `C01_shadow`  the recorded configuration follows: it is coherent with the device again.
-/
import Bma400.Lemmas.Effect
import Bma400.Thm.C02
set_option linter.unusedSimpArgs false
namespace Bma400
namespace Thm
open P R

theorem coh {sh chip : Regs} (h : Coherent sh chip) (a : Nat) (ha : a ∈ DS.cfgAddrs) : chip a = sh a :=
  (h a ha).symm

theorem plain_effect (sh chip rq : Regs) (B : List Nat) (nd : B.Nodup) (hB : ∀ a ∈ B, a ∈ DS.cfgAddrs)
    (hco : Coherent sh chip) :
    ∀ x, applyWrites chip (dws sh rq B) x = if x ∈ B then rq x else chip x :=
  applyWrites_dws sh rq B nd chip (fun a ha => coh hco a (hB a ha))

theorem C01_effect (q : Request) (sh chip : Regs) (hco : Coherent sh chip) (ws : List W)
    (h : q.script sh = .ok ws) :
    ∀ x, applyWrites chip ws x = if x ∈ q.block then q.target sh x else chip x := by
  intro x
  cases q with
  | acc l =>
    simp only [Request.script, accScript] at h
    split at h; · cases h
    split at h; · cases h
    cases h
    exact plain_effect sh chip _ _ (by decide) (by decide) hco x
  | int l =>
    simp only [Request.script, intScript] at h
    split at h; · cases h
    split at h; · cases h
    split at h; · cases h
    split at h; · cases h
    cases h
    exact plain_effect sh chip _ _ (by decide) (by decide) hco x
  | alp l =>
    simp only [Request.script, alpScript] at h
    cases h
    exact plain_effect sh chip _ _ (by decide) (by decide) hco x
  | awk l =>
    simp only [Request.script, awkScript] at h
    cases h
    exact plain_effect sh chip _ _ (by decide) (by decide) hco x
  | gen g l =>
    simp only [Request.script] at h
    have hblk : (Request.gen g l).block = genBlock g := by cases g <;> (simp only [Request.block]; decide)
    rw [hblk]
    rcases genScript_ok g sh _ ws h with ⟨hc, rfl⟩ | ⟨hc, rfl⟩
    · simp only [applyWrites]
      by_cases hx : x ∈ genBlock g
      · have hxc : x ∈ DS.cfgAddrs := by cases g <;> revert x <;> decide
        rw [if_pos hx, ← chg_false hc x hx]; exact coh hco x hxc
      · rw [if_neg hx]
    · apply bracket_effect chip sh _ (genBlock g) (by cases g <;> decide) 0x1F (by cases g <;> decide)
      · intro a ha; exact coh hco a (by cases g <;> revert a <;> decide)
      · exact coh hco _ (by decide)
      · intro hd; simp [hd]
      · intro hd; simp [hd]; exact (clr_strictSub _ _ hd).2
  | act l =>
    simp only [Request.script] at h
    rcases actScript_ok sh _ ws h with ⟨hc, rfl⟩ | ⟨hc, rfl⟩
    · show chip x = if x ∈ [0x55, 0x56] then _ else chip x
      by_cases hx : x ∈ [0x55, 0x56]
      · have hxc : x ∈ DS.cfgAddrs := by revert x; decide
        rw [if_pos hx, ← chg_false hc x hx]; exact coh hco x hxc
      · rw [if_neg hx]
    · apply bracket_effect chip sh _ [0x55, 0x56] (by decide) 0x20 (by decide)
      · intro a ha; exact coh hco a (by revert a; decide)
      · exact coh hco _ (by decide)
      · intro hd; simp [hd]
      · intro hd; simp [hd]; exact (clr_strictSub _ _ hd).2
  | tap l =>
    simp only [Request.script] at h
    rw [tapScript_ok sh _ ws h]
    apply bracket_effect chip sh _ [0x57, 0x58] (by decide) 0x20 (by decide)
    · intro a ha; exact coh hco a (by revert a; decide)
    · exact coh hco _ (by decide)
    · intro hd; simp [hd]
    · intro hd
      simp only [hd, if_true]
      have hh : has (sh 0x20) 0x0C#8 = true := by
        rw [← (tap_mask (sh 0x20)).2]
        simp at hd; simp [hd.1]
      rw [(tap_mask (sh 0x20)).1]
      exact (clr_strictSub _ _ hh).2
  | ori l =>
    simp only [Request.script] at h
    rw [oriScript_ok sh _ ws h]
    apply bracket_effect chip sh _ oriBlock (by decide) 0x1F (by decide)
    · intro a ha; exact coh hco a (by revert a; decide)
    · exact coh hco _ (by decide)
    · intro hd; simp [hd]
    · intro hd
      simp only [hd, if_true]
      simp at hd
      exact (clr_strictSub _ _ hd.1).2
  | fifo l =>
    simp only [Request.script] at h
    rw [fifoScript_ok sh _ ws h]
    show _ = if x ∈ [0x26, 0x27, 0x28, 0x29] then _ else chip x
    simp only [applyWrites_append]
    generalize hrq : (Request.fifo l).target sh = rq
    generalize hdis : (has (sh 0x1F) ic0_FWM && chg sh rq [0x27, 0x28]) = dis
    -- three stages
    have s1 := plain_effect sh chip rq [0x26] (by decide) (by decide) hco
    generalize hc1 : applyWrites chip (dws sh rq [0x26]) = c1 at s1 ⊢
    have hc1' : ∀ a, a ≠ 0x26 → c1 a = chip a := by intro a ha; simp [s1 a, ha]
    have s2 := bracket_effect c1 sh rq [0x27, 0x28] (by decide) 0x1F (by decide)
      (if dis = true then clr (sh 0x1F) ic0_FWM else sh 0x1F) dis
      (by intro a ha; rw [hc1' a (by revert a; decide)]; exact coh hco a (by revert a; decide))
      (by rw [hc1' _ (by decide)]; exact coh hco _ (by decide))
      (by intro hd; simp [hd])
      (by intro hd
          simp only [hd, if_true]
          rw [hd] at hdis; simp at hdis
          exact (clr_strictSub _ _ hdis.1).2)
    generalize hc2 : applyWrites c1 (bracket sh 0x1F dis (if dis = true then clr (sh 0x1F) ic0_FWM else sh 0x1F)
      (dws sh rq [0x27, 0x28])) = c2 at s2 ⊢
    have hc2' : ∀ a, a ≠ 0x26 → a ∉ [0x27, 0x28] → c2 a = chip a := by
      intro a h1 h2; rw [s2 a]; simp only [h2, if_false]; exact hc1' a h1
    have s3 := applyWrites_dws sh rq [0x29] (by decide) c2
      (by intro a ha; rw [hc2' a (by revert a; decide) (by revert a; decide)]; exact coh hco a (by revert a; decide))
    rw [s3 x]
    by_cases h29 : x = 0x29
    · subst h29; simp
    · have hne : x ∉ [0x29] := by simpa using h29
      simp only [hne, if_false]
      by_cases h278 : x ∈ [0x27, 0x28]
      · have : x ∈ [0x26, 0x27, 0x28, 0x29] := by
          simp at h278 ⊢; rcases h278 with h | h <;> simp [h]
        rw [s2 x]; simp only [h278, this, if_true]
      · rw [s2 x]; simp only [h278, if_false]
        by_cases h26 : x = 0x26
        · subst h26; rw [s1]; simp
        · have hnb : x ∉ [0x26, 0x27, 0x28, 0x29] := by
            simp at h278 ⊢; exact ⟨h26, h278.1, h278.2, h29⟩
          simp only [hnb, if_false]
          exact hc1' x h26
  | wkup l =>
    simp only [Request.script, wkupScript] at h
    cases h
    show _ = if x ∈ [0x2F, 0x30, 0x31, 0x32, 0x33] then _ else chip x
    simp only [applyWrites_append]
    generalize hrq : (Request.wkup l).target sh = rq
    generalize hdis : (has (sh 0x2F) wk0_AXES && chg sh rq [0x2F, 0x30, 0x31, 0x32, 0x33]) = dis
    generalize hheld : (if dis = true then clr (clr (clr (sh 0x2F) wk0_X) wk0_Y) wk0_Z else sh 0x2F) = held
    -- stage 1: the optional disable leaves `held` in 0x2F
    have e1 : applyWrites chip (wIf dis 0x2F held) = chip.set 0x2F held := by
      rw [applyWrites_wIf]
      cases dis with
      | true => rfl
      | false =>
        simp at hheld; subst hheld
        funext y; simp [Regs.set]; intro hy; subst hy; exact coh hco 0x2F (by decide)
    rw [e1]
    have s2 := applyWrites_dws sh rq [0x30, 0x31, 0x32, 0x33] (by decide) (chip.set 0x2F held)
      (by intro a ha
          have : a ≠ 0x2F := by revert a; decide
          simp [Regs.set, this]; exact coh hco a (by revert a; decide))
    -- stage 3: whether or not the final write is sent, 0x2F ends up holding the request
    have e3 : applyWrites (applyWrites (chip.set 0x2F held) (dws sh rq [0x30, 0x31, 0x32, 0x33]))
        (wIf (held != rq 0x2F) 0x2F (rq 0x2F)) =
        (applyWrites (chip.set 0x2F held) (dws sh rq [0x30, 0x31, 0x32, 0x33])).set 0x2F (rq 0x2F) := by
      rw [applyWrites_wIf]
      by_cases hh : (held != rq 0x2F) = true
      · simp [hh]
      · simp only [hh, if_false]
        funext y; simp [Regs.set]; intro hy; subst hy
        rw [s2 0x2F]; simp at hh; simp [Regs.set, hh]
    rw [e3]
    by_cases hx : x = 0x2F
    · subst hx; simp [Regs.set]
    · simp only [Regs.set, hx, if_false]
      rw [s2 x]
      by_cases hb : x ∈ [0x30, 0x31, 0x32, 0x33]
      · have : x ∈ [0x2F, 0x30, 0x31, 0x32, 0x33] := List.mem_cons_of_mem _ hb
        simp [hb, this]
      · have : x ∉ [0x2F, 0x30, 0x31, 0x32, 0x33] := by simp at hb ⊢; exact ⟨hx, hb⟩
        simp [hb, this, Regs.set, hx]
  | pin l =>
    simp only [Request.script, pinScript] at h
    cases h
    show _ = if x ∈ [0x21, 0x22, 0x23, 0x24] then _ else chip x
    simp only [applyWrites_append]
    generalize hrq : (Request.pin l).target sh = rq
    generalize pinTmp0 sh rq = t0
    generalize pinTmp1 sh rq = t1
    generalize pinTmpW sh rq = tw
    have e1F := coh hco 0x1F (by decide)
    have e20 := coh hco 0x20 (by decide)
    have e2F := coh hco 0x2F (by decide)
    -- a conditional write of `v` to `a`, skipped exactly when the register already holds `v`,
    -- is an unconditional one
    have pre : ∀ (c : Regs) (a : Nat) (orig v : Byte), c a = orig →
        applyWrites c (wIf (orig != v) a v) = c.set a v := by
      intro c a orig v hc
      rw [applyWrites_wIf]
      by_cases hh : (orig != v) = true
      · simp [hh]
      · simp only [hh, if_false]
        funext y; simp [Regs.set]; intro hy; subst hy; simp at hh; rw [hc, hh]
    have post : ∀ (c : Regs) (a : Nat) (orig v : Byte), c a = v →
        applyWrites c (wIf (orig != v) a orig) = c.set a orig := by
      intro c a orig v hc
      rw [applyWrites_wIf]
      by_cases hh : (orig != v) = true
      · simp [hh]
      · simp only [hh, if_false]
        funext y; simp [Regs.set]; intro hy; subst hy; simp at hh; rw [hc, hh]
    rw [pre chip 0x1F (sh 0x1F) t0 e1F]
    rw [pre (chip.set 0x1F t0) 0x20 (sh 0x20) t1 (by simp [Regs.set, e20])]
    rw [pre ((chip.set 0x1F t0).set 0x20 t1) 0x2F (sh 0x2F) tw (by simp [Regs.set, e2F])]
    have s4 := applyWrites_dws sh rq [0x21, 0x22, 0x23, 0x24] (by decide) (((chip.set 0x1F t0).set 0x20 t1).set 0x2F tw)
      (by intro a ha
          have h1 : a ≠ 0x1F := by revert a; decide
          have h2 : a ≠ 0x20 := by revert a; decide
          have h3 : a ≠ 0x2F := by revert a; decide
          simp [Regs.set, h1, h2, h3]; exact coh hco a (by revert a; decide))
    generalize hc4 : applyWrites (((chip.set 0x1F t0).set 0x20 t1).set 0x2F tw) (dws sh rq [0x21, 0x22, 0x23, 0x24]) = c4 at s4 ⊢
    rw [post c4 0x1F (sh 0x1F) t0 (by rw [s4]; simp [Regs.set])]
    rw [post (c4.set 0x1F (sh 0x1F)) 0x20 (sh 0x20) t1 (by simp [Regs.set]; rw [s4]; simp [Regs.set])]
    rw [post ((c4.set 0x1F (sh 0x1F)).set 0x20 (sh 0x20)) 0x2F (sh 0x2F) tw (by simp [Regs.set]; rw [s4]; simp [Regs.set])]
    by_cases hb : x ∈ [0x21, 0x22, 0x23, 0x24]
    · have h1 : x ≠ 0x1F := by revert x; decide
      have h2 : x ≠ 0x20 := by revert x; decide
      have h3 : x ≠ 0x2F := by revert x; decide
      simp [Regs.set, h1, h2, h3, hb, s4 x]
    · by_cases h1 : x = 0x1F
      · subst h1; simp [Regs.set, e1F]
      · by_cases h2 : x = 0x20
        · subst h2; simp [Regs.set, e20]
        · by_cases h3 : x = 0x2F
          · subst h3; simp [Regs.set, e2F]
          · simp [Regs.set, h1, h2, h3, hb, s4 x]

/-- the recorded configuration and the device receive the same writes -/
theorem coherent_applyWrites (sh chip : Regs) (ws : List W) (hco : Coherent sh chip) :
    Coherent (applyWrites sh ws) (applyWrites chip ws) := by
  induction ws generalizing sh chip with
  | nil => exact hco
  | cons w ws ih =>
    simp only [applyWrites]
    apply ih
    intro a ha
    simp only [Regs.set]
    split
    · rfl
    · exact hco a ha

/-- C01 in the form `judge` evaluates on the crate (`P.C01`), and the observable part of C02
    (`P.C02`): from a coherent state without reserved bits, after an accepted `write()` the
    block holds the datasheet-level target and everything else is unchanged -/
theorem C01_spec (q : Request) (sh chip : Regs) (hco : Coherent sh chip)
    (hdef : ∀ x ∈ DS.cfgAddrs, DefAt sh x) (ws : List W) (h : q.script sh = .ok ws) :
    P.C01 q chip (applyWrites chip ws) ∧ P.C02 q chip (applyWrites chip ws) := by
  have hagree : ∀ x ∈ DS.cfgAddrs, sh x = chip x := hco
  have ht := C02_target q sh chip hagree hdef
  have he := C01_effect q sh chip hco ws h
  refine ⟨?_, ?_, ?_, ?_⟩
  · intro a _
    rw [he a]
    unfold ideal
    by_cases hb : a ∈ q.block
    · simp only [hb, if_true]; exact (ht a (block_sub_cfg q a hb)).1
    · simp only [hb, if_false]
  · intro a hb
    rw [he a]; simp only [hb, if_true]; exact (ht a (block_sub_cfg q a hb)).1
  · intro a hb
    rw [he a]; simp only [hb, if_true]; exact (ht a (block_sub_cfg q a hb)).2
  · intro a _ hb
    rw [he a]; simp only [hb, if_false]

/-- after the call the recorded configuration is again coherent and free of reserved bits -/
theorem C01_shadow (q : Request) (sh chip : Regs) (hco : Coherent sh chip)
    (hdef : ∀ x ∈ DS.cfgAddrs, DefAt sh x) (ws : List W) (h : q.script sh = .ok ws) :
    Coherent (applyWrites sh ws) (applyWrites chip ws) ∧ ∀ x ∈ DS.cfgAddrs, DefAt (applyWrites sh ws) x := by
  refine ⟨coherent_applyWrites sh chip ws hco, ?_⟩
  intro x hx
  have he := C01_effect q sh sh (fun a _ => rfl) ws h x
  unfold DefAt
  rw [he]
  by_cases hb : x ∈ q.block
  · simp only [hb, if_true]
    exact (C02_target q sh sh (fun _ _ => rfl) hdef x hx).2
  · simp only [hb, if_false]; exact hdef x hx

/-- non-vacuity: gen1 enabled on filter 2 at 200 Hz, threshold changed: the script is
    disable, write, re-enable and the device ends with only 0x41 changed -/
def exampleSh : Regs := (shadowDefault.set 0x3F 0x10#8).set 0x1F 0x04#8
example : (match (Request.gen .g1 [.threshold 5#8]).script exampleSh with
    | .ok ws => ws == [⟨0x1F, 0x00#8⟩, ⟨0x41, 0x05#8⟩, ⟨0x1F, 0x04#8⟩]
    | .error _ => false) = true := by decide

end Thm
end Bma400
