/-
  FifoT - the FIFO frame header and the iterator step of src/types.rs, TRANSLATED from the source on
  every run by CONCRETE execution (tools/gen_fifo.py -> Bma400/GeneratedFifo.lean: the parser of
  gen_builders.py plus a small evaluator with `while`, compound assignment, `match`, bitflags
  operations), ARE the model's (Types.lean):

  * `fifo_header`: for ALL 256 header bytes, `Header::from_bits_truncate(b)` followed by
    `frame_type`, `resolution_is_12bit`, `has_data`, `num_payload_bytes` (the popcount loop
    included), `has_x_data`, `has_y_data`, `has_z_data` give what `hdr`, `frameType`,
    `resolutionIs12bit`, `hasData`, `numPayloadBytes`, `hasX`, `hasY`, `hasZ` give;
  * `fifo_next`: `FifoFrames::next()` with the cursor at offset 3 and 0 .. 8 bytes left, for all 256
    bytes under the cursor: the yielded slice and the new cursor are the model's `next`
    (`numPayloadBytes ≤ 6`, `fifo_payload_le`: with 8 or more bytes left nothing depends on how many).

  The theorems of C04 / C05 (every list of frames, every byte list, no bound on the length) are
  about `next` and the header functions; this file makes the finite core they rest on a statement
  about the current source.  Not covered by translation: the `Frame` accessors' sample arithmetic
  (`data_at_offset`) and the width of the cursor (a `u16` cursor only shows beyond 65 535 bytes:
  stream `fifo-huge`).
-/
import Bma400.Types
import Bma400.GeneratedFifo
namespace Bma400
namespace Thm
open T Generated

def ftCode : FrameType → Nat | .data => 0 | .time => 1 | .control => 2

def modelHeaderRow (b : Nat) : Nat × Nat × Bool × Bool × Nat × Bool × Bool × Bool :=
  let h := hdr (BitVec.ofNat 8 b)
  (b, ftCode (frameType h), resolutionIs12bit h, hasData h, numPayloadBytes h, hasX h, hasY h, hasZ h)

theorem fifo_header : (FifoT.header == (List.range 256).map modelHeaderRow) = true := by decide +kernel

def modelNextRow (b rem : Nat) : Nat × Nat × Option (Nat × Nat) × Nat :=
  let buf : List Byte := [0#8, 0#8, 0#8] ++ (if rem ≥ 1 then BitVec.ofNat 8 b :: List.replicate (rem - 1) 0#8 else [])
  let r := next buf ⟨3⟩
  (b, rem, r.1.map (fun f => (f.start, f.stop)), r.2.index)

theorem fifo_next :
    (FifoT.next == (List.range 256).flatMap (fun b => (List.range 9).map (modelNextRow b))) = true := by
  decide +kernel

/-- no frame is longer than 7 bytes: 8 bytes left are as good as any larger number -/
theorem fifo_payload_le : ∀ n, n < 256 → numPayloadBytes (hdr (BitVec.ofNat 8 n)) ≤ 6 := by decide +kernel

theorem fifo_payload_le_byte (b : Byte) : numPayloadBytes (hdr b) ≤ 6 := by
  have h := fifo_payload_le b.toNat b.isLt
  simpa using h

/-- with 8 or more bytes left, `next` does not depend on how many: the table rows for 8 bytes left
    stand for every longer buffer and every cursor position (in the model; the source's text has the
    same shape, and the width of its cursor is exercised by stream `fifo-huge`) -/
theorem fifo_next_far (buf : List Byte) (i : Nat) (b : Byte) (h : buf[i]? = some b) (hlen : i + 8 ≤ buf.length) :
    next buf ⟨i⟩ =
      (if frameType (hdr b) == .data && !hasData (hdr b) then (none, ⟨i + 2⟩)
       else (some ⟨i, i + numPayloadBytes (hdr b) + 1⟩, ⟨i + numPayloadBytes (hdr b) + 1⟩)) := by
  have hp := fifo_payload_le_byte b
  unfold next
  have h1 : ¬ (i ≥ buf.length) := by omega
  simp only [h1, if_false, h]
  split
  · rfl
  · have h2 : ¬ (i + numPayloadBytes (hdr b) + 1 > buf.length) := by omega
    simp [h2]

end Thm
end Bma400
