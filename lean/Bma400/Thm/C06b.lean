/-
  C06, second half: the invariant survives every outcome of a configuration call.

  `Safe6 c ws` says that `Inv6` holds in the device state before every write of `ws` and
  after the last one.  `C06_safe`: for EVERY builder, request and coherent state satisfying
  `Inv6` (no reserved bits), the write script of an accepted request is `Safe6` - so
  `Inv6` holds after any prefix of it (`C06_prefix`, a bus failure at any position) and
  after all of it (`C06_accept`).  `C06_reject`: a rejected request performs no bus
  transaction and changes nothing.
-/
import Bma400.Thm.C06
set_option linter.unusedSimpArgs false
namespace Bma400
namespace Thm
open P R

def Safe6 : Regs → List W → Prop
  | c, [] => Inv6 c
  | c, w :: ws => Inv6 c ∧ Safe6 (c.set w.addr w.val) ws

theorem Safe6_head (c : Regs) (ws : List W) (h : Safe6 c ws) : Inv6 c := by
  cases ws with
  | nil => exact h
  | cons w ws => exact h.1

theorem Safe6_last (c : Regs) (ws : List W) (h : Safe6 c ws) : Inv6 (applyWrites c ws) := by
  induction ws generalizing c with
  | nil => exact h
  | cons w ws ih => exact ih _ h.2

theorem Safe6_append (c : Regs) (w1 w2 : List W) (h1 : Safe6 c w1) (h2 : Safe6 (applyWrites c w1) w2) :
    Safe6 c (w1 ++ w2) := by
  induction w1 generalizing c with
  | nil => simpa [applyWrites] using h2
  | cons w ws ih => exact ⟨h1.1, ih _ h1.2 h2⟩

theorem Safe6_take (c : Regs) (ws : List W) (n : Nat) (h : Safe6 c ws) : Inv6 (applyWrites c (ws.take n)) := by
  induction ws generalizing c n with
  | nil => simp [applyWrites]; exact h
  | cons w ws ih =>
    cases n with
    | zero => exact h.1
    | succ n => exact ih _ n h.2

def six : List Nat := [0x1A, 0x1F, 0x20, 0x3F, 0x4A, 0x56]

/-- a step that preserves `Inv6` whenever it holds, for a family of states closed under the step -/
theorem Safe6_of_steps (I : Regs → Prop) (ws : List W)
    (hstep : ∀ c, I c → ∀ w ∈ ws, I (c.set w.addr w.val) ∧ (Inv6 c → Inv6 (c.set w.addr w.val))) :
    ∀ c, I c → Inv6 c → Safe6 c ws := by
  induction ws with
  | nil => intro c _ h; exact h
  | cons w ws ih =>
    intro c hI h
    have hs := hstep c hI w (by simp)
    exact ⟨h, ih (fun c' hc' w' hw' => hstep c' hc' w' (by simp [hw'])) _ hs.1 (hs.2 h)⟩

/-- (L1) a register outside the six does not matter -/
theorem Inv6_set_irrelevant (c : Regs) (a : Nat) (v : Byte) (ha : a ∉ six) : Inv6 (c.set a v) ↔ Inv6 c := by
  apply Inv6_congr
  intro x hx
  have : x ≠ a := fun e => ha (e ▸ hx)
  simp [Regs.set, this]

theorem Safe6_irrelevant (c : Regs) (ws : List W) (h : ∀ w ∈ ws, w.addr ∉ six) (hi : Inv6 c) : Safe6 c ws :=
  Safe6_of_steps (fun _ => True) ws
    (fun c' _ w hw => ⟨trivial, (Inv6_set_irrelevant c' w.addr w.val (h w hw)).mpr⟩) c trivial hi

/-- (L2) clearing enable bits keeps the invariant -/
theorem and255 : ∀ v : Byte, v &&& 255#8 = v := by decide +kernel

theorem sub_eq_and (v c : Byte) (hs : v &&& ~~~c = 0#8) : v = v &&& c := by
  have h1 : v = v &&& (c ||| ~~~c) := by simp [and255]
  rw [BitVec.and_or_distrib_left, hs] at h1
  simpa using h1

theorem has_sub (v c m : Byte) (hs : v &&& ~~~c = 0#8) (h : has v m = true) : has c m = true := by
  unfold has at *
  simp at h ⊢
  intro hc
  apply h
  rw [sub_eq_and v c hs, BitVec.and_assoc, hc]; simp

theorem Inv6_set_sub1F (c : Regs) (v : Byte) (hs : v &&& ~~~(c 0x1F) = 0#8) (h : Inv6 c) : Inv6 (c.set 0x1F v) := by
  unfold Inv6 P.odr at *
  simp only [Regs.set, show ((0x20 : Nat) = 0x1F) = False by simp, show ((0x1A : Nat) = 0x1F) = False by simp,
    show ((0x3F : Nat) = 0x1F) = False by simp, show ((0x4A : Nat) = 0x1F) = False by simp,
    show ((0x56 : Nat) = 0x1F) = False by simp, if_false, if_true]
  obtain ⟨h1, h2, h3, h4⟩ := h
  refine ⟨h1, ?_, ?_, h4⟩
  · intro ⟨a, b, c'⟩; exact h2 ⟨has_sub _ _ _ hs a, b, c'⟩
  · intro ⟨a, b, c'⟩; exact h3 ⟨has_sub _ _ _ hs a, b, c'⟩

theorem Inv6_set_sub20 (c : Regs) (v : Byte) (hs : v &&& ~~~(c 0x20) = 0#8) (h : Inv6 c) : Inv6 (c.set 0x20 v) := by
  unfold Inv6 P.odr at *
  simp only [Regs.set, show ((0x1F : Nat) = 0x20) = False by simp, show ((0x1A : Nat) = 0x20) = False by simp,
    show ((0x3F : Nat) = 0x20) = False by simp, show ((0x4A : Nat) = 0x20) = False by simp,
    show ((0x56 : Nat) = 0x20) = False by simp, if_false, if_true]
  obtain ⟨h1, h2, h3, h4⟩ := h
  refine ⟨?_, h2, h3, ?_⟩
  · intro ⟨a, b⟩; exact h1 ⟨has_sub _ _ _ hs a, b⟩
  · intro ⟨a, b, c'⟩; exact h4 ⟨has_sub _ _ _ hs a, b, c'⟩

/-- (L3) a source register does not matter while its interrupt is disabled -/
theorem Inv6_set_src (c : Regs) (a : Nat) (m : Byte) (e : Nat) (v : Byte)
    (hcase : (a = 0x3F ∧ e = 0x1F ∧ m = 0x04#8) ∨ (a = 0x4A ∧ e = 0x1F ∧ m = 0x08#8) ∨ (a = 0x56 ∧ e = 0x20 ∧ m = 0x10#8))
    (hdis : has (c e) m = false) : Inv6 (c.set a v) ↔ Inv6 c := by
  unfold Inv6 P.odr
  rcases hcase with ⟨rfl, rfl, rfl⟩ | ⟨rfl, rfl, rfl⟩ | ⟨rfl, rfl, rfl⟩ <;>
    simp [Regs.set, hdis]

/-! ### the final state of an accepted request -/

theorem Inv6_final (q : Request) (sh chip : Regs) (hco : Coherent sh chip)
    (hdef : ∀ x ∈ DS.cfgAddrs, DefAt sh x) (hinv : Inv6 chip) (ws : List W) (h : q.script sh = .ok ws) :
    Inv6 (applyWrites chip ws) := by
  have hv := C06_iff q sh chip hco hdef hinv
  rw [h] at hv
  have hid : Inv6 (ideal q chip) := by
    apply Decidable.byContradiction
    intro hn
    obtain ⟨e, he⟩ := hv.1.mpr hn
    simp [outcomeOf] at he
  apply (Inv6_congr (ideal q chip) (applyWrites chip ws) ?_).mpr hid
  intro a _
  rw [C01_effect q sh chip hco ws h a]
  by_cases hb : a ∈ q.block
  · simp only [hb, if_true]; exact (ideal_block q sh chip hco hdef a hb).symm
  · simp only [hb, if_false]; exact (ideal_other q chip a hb).symm

theorem Safe6_snoc (c : Regs) (ws : List W) (w : W) (h : Safe6 c ws) (hf : Inv6 (applyWrites c (ws ++ [w]))) :
    Safe6 c (ws ++ [w]) := by
  apply Safe6_append c ws [w] h
  refine ⟨Safe6_last c ws h, ?_⟩
  simpa [applyWrites_append, applyWrites, Safe6] using hf

/-! ### passive builders: never touch ODR or sources, only clear and restore enable bits -/

/-- states that differ from `chip` only outside the six registers or by cleared enable bits -/
def Below (chip c : Regs) : Prop :=
  c 0x1A = chip 0x1A ∧ c 0x3F = chip 0x3F ∧ c 0x4A = chip 0x4A ∧ c 0x56 = chip 0x56 ∧
  c 0x1F &&& ~~~(chip 0x1F) = 0#8 ∧ c 0x20 &&& ~~~(chip 0x20) = 0#8

theorem Inv6_below (chip c : Regs) (hb : Below chip c) (h : Inv6 chip) : Inv6 c := by
  obtain ⟨h1, h2, h3, h4, h5, h6⟩ := hb
  unfold Inv6 P.odr at *
  rw [h1, h2, h3, h4]
  obtain ⟨a1, a2, a3, a4⟩ := h
  refine ⟨?_, ?_, ?_, ?_⟩
  · intro ⟨x, y⟩; exact a1 ⟨has_sub _ _ _ h6 x, y⟩
  · intro ⟨x, y, z⟩; exact a2 ⟨has_sub _ _ _ h5 x, y, z⟩
  · intro ⟨x, y, z⟩; exact a3 ⟨has_sub _ _ _ h5 x, y, z⟩
  · intro ⟨x, y, z⟩; exact a4 ⟨has_sub _ _ _ h6 x, y, z⟩

/-- a write is harmless for `Below chip`: outside the six, or a sub-value into 0x1F / 0x20 -/
def Harmless (chip : Regs) (w : W) : Prop :=
  w.addr ∉ [0x1A, 0x3F, 0x4A, 0x56] ∧ (w.addr = 0x1F → w.val &&& ~~~(chip 0x1F) = 0#8) ∧
  (w.addr = 0x20 → w.val &&& ~~~(chip 0x20) = 0#8)

theorem Below_step (chip c : Regs) (w : W) (hb : Below chip c) (hw : Harmless chip w) :
    Below chip (c.set w.addr w.val) := by
  obtain ⟨h1, h2, h3, h4, h5, h6⟩ := hb
  obtain ⟨n, s1, s2⟩ := hw
  simp only [List.mem_cons, List.mem_nil_iff, or_false, not_or] at n
  obtain ⟨n1, n2, n3, n4⟩ := n
  unfold Below
  simp only [Regs.set, Ne.symm n1, Ne.symm n2, Ne.symm n3, Ne.symm n4, if_false]
  refine ⟨h1, h2, h3, h4, ?_, ?_⟩
  · split
    · rename_i e; exact s1 e.symm
    · exact h5
  · split
    · rename_i e; exact s2 e.symm
    · exact h6

theorem Safe6_harmless (chip : Regs) (ws : List W) (hinv : Inv6 chip) (hw : ∀ w ∈ ws, Harmless chip w) :
    ∀ c, Below chip c → Safe6 c ws := by
  induction ws with
  | nil => intro c hb; exact Inv6_below chip c hb hinv
  | cons w ws ih =>
    intro c hb
    exact ⟨Inv6_below chip c hb hinv,
      ih (fun w' hw' => hw w' (by simp [hw'])) _ (Below_step chip c w hb (hw w (by simp)))⟩

theorem Below_refl (chip : Regs) : Below chip chip := by
  unfold Below; simp [sub_refl]

theorem harmless_dws (chip sh rq : Regs) (B : List Nat) (hB : ∀ a ∈ B, a ∉ six) :
    ∀ w ∈ dws sh rq B, Harmless chip w := by
  intro w hw
  have ha := hB _ (mem_dws hw).1
  simp only [six, List.mem_cons, List.mem_nil_iff, or_false, not_or] at ha
  refine ⟨by simp [ha.1, ha.2.2.2.1, ha.2.2.2.2.1, ha.2.2.2.2.2], fun e => absurd e ha.2.1, fun e => absurd e ha.2.2.1⟩

theorem harmless_wIf (chip : Regs) (b : Bool) (e : Nat) (v : Byte) (he : e = 0x1F ∨ e = 0x20 ∨ e = 0x2F)
    (hs : v &&& ~~~(chip e) = 0#8) : ∀ w ∈ wIf b e v, Harmless chip w := by
  intro w hw
  rw [(mem_wIf hw).2]
  rcases he with rfl | rfl | rfl <;> simp [Harmless, hs]

theorem clr_sub_self (c m : Byte) : clr c m &&& ~~~c = 0#8 := clr_sub c c m (sub_refl c)

/-- the scripts of the seven passive builders consist of harmless writes -/
theorem passive_harmless (q : Request) (sh chip : Regs) (hco : Coherent sh chip) (ws : List W)
    (h : q.script sh = .ok ws)
    (hq : (∀ l, q ≠ .acc l) ∧ (∀ l, q ≠ .int l) ∧ (∀ g l, q ≠ .gen g l) ∧ (∀ l, q ≠ .act l)) :
    ∀ w ∈ ws, Harmless chip w := by
  have e1F : sh 0x1F = chip 0x1F := hco 0x1F (by decide)
  have e20 : sh 0x20 = chip 0x20 := hco 0x20 (by decide)
  have e2F : sh 0x2F = chip 0x2F := hco 0x2F (by decide)
  intro w hw
  cases q with
  | acc l => exact absurd rfl (hq.1 l)
  | int l => exact absurd rfl (hq.2.1 l)
  | gen g l => exact absurd rfl (hq.2.2.1 g l)
  | act l => exact absurd rfl (hq.2.2.2 l)
  | alp l =>
    simp only [Request.script, alpScript] at h; cases h
    exact harmless_dws chip sh _ _ (by decide) w hw
  | awk l =>
    simp only [Request.script, awkScript] at h; cases h
    exact harmless_dws chip sh _ _ (by decide) w hw
  | tap l =>
    simp only [Request.script] at h
    rw [tapScript_ok sh _ ws h] at hw
    unfold bracket at hw
    simp only [List.mem_append] at hw
    rcases hw with (hw | hw) | hw
    · apply harmless_wIf chip _ 0x20 _ (by simp) _ w hw
      rw [← e20]; split
      · exact clr_sub _ _ _ (clr_sub_self _ _)
      · exact sub_refl _
    · exact harmless_dws chip sh _ _ (by decide) w hw
    · apply harmless_wIf chip _ 0x20 _ (by simp) _ w hw
      rw [← e20]; exact sub_refl _
  | ori l =>
    simp only [Request.script] at h
    rw [oriScript_ok sh _ ws h] at hw
    unfold bracket at hw
    simp only [List.mem_append] at hw
    rcases hw with (hw | hw) | hw
    · apply harmless_wIf chip _ 0x1F _ (by simp) _ w hw
      rw [← e1F]; split
      · exact clr_sub_self _ _
      · exact sub_refl _
    · exact harmless_dws chip sh _ _ (by decide) w hw
    · apply harmless_wIf chip _ 0x1F _ (by simp) _ w hw
      rw [← e1F]; exact sub_refl _
  | fifo l =>
    simp only [Request.script] at h
    rw [fifoScript_ok sh _ ws h] at hw
    unfold bracket at hw
    simp only [List.mem_append] at hw
    rcases hw with (hw | ((hw | hw) | hw)) | hw
    · exact harmless_dws chip sh _ _ (by decide) w hw
    · apply harmless_wIf chip _ 0x1F _ (by simp) _ w hw
      rw [← e1F]; split
      · exact clr_sub_self _ _
      · exact sub_refl _
    · exact harmless_dws chip sh _ _ (by decide) w hw
    · apply harmless_wIf chip _ 0x1F _ (by simp) _ w hw
      rw [← e1F]; exact sub_refl _
    · exact harmless_dws chip sh _ _ (by decide) w hw
  | wkup l =>
    simp only [Request.script, wkupScript] at h; cases h
    simp only [List.mem_append] at hw
    rcases hw with (hw | hw) | hw
    · rw [(mem_wIf hw).2]; simp [Harmless]
    · exact harmless_dws chip sh _ _ (by decide) w hw
    · rw [(mem_wIf hw).2]; simp [Harmless]
  | pin l =>
    simp only [Request.script, pinScript] at h; cases h
    simp only [List.mem_append] at hw
    rcases hw with ((((((hw | hw) | hw) | hw) | hw) | hw) | hw)
    · apply harmless_wIf chip _ 0x1F _ (by simp) _ w hw; rw [← e1F]; exact pinTmp0_sub sh _
    · apply harmless_wIf chip _ 0x20 _ (by simp) _ w hw; rw [← e20]; exact pinTmp1_sub sh _
    · rw [(mem_wIf hw).2]; simp [Harmless]
    · exact harmless_dws chip sh _ _ (by decide) w hw
    · apply harmless_wIf chip _ 0x1F _ (by simp) _ w hw; rw [← e1F]; exact sub_refl _
    · apply harmless_wIf chip _ 0x20 _ (by simp) _ w hw; rw [← e20]; exact sub_refl _
    · rw [(mem_wIf hw).2]; simp [Harmless]

theorem Safe6_of_inv (I : Regs → Prop) (hI : ∀ c, I c → Inv6 c) (ws : List W)
    (hstep : ∀ c, I c → ∀ w ∈ ws, I (c.set w.addr w.val)) : ∀ c, I c → Safe6 c ws := by
  induction ws with
  | nil => intro c h; exact hI c h
  | cons w ws ih =>
    intro c h
    exact ⟨hI c h, ih (fun c' hc' w' hw' => hstep c' hc' w' (by simp [hw'])) _ (hstep c h w (by simp))⟩

/-- each clause of `Inv6` looks at only one of 0x1F / 0x20: a state between two good states is good -/
theorem Inv6_mix (a b c : Regs) (ha : Inv6 a) (hb : Inv6 b)
    (h4a : ∀ x ∈ [0x1A, 0x3F, 0x4A, 0x56], c x = a x) (h4b : ∀ x ∈ [0x1A, 0x3F, 0x4A, 0x56], c x = b x)
    (h1F : c 0x1F = a 0x1F ∨ c 0x1F = b 0x1F) (h20 : c 0x20 = a 0x20 ∨ c 0x20 = b 0x20) : Inv6 c := by
  have e1 := h4a 0x1A (by simp); have e2 := h4a 0x3F (by simp); have e3 := h4a 0x4A (by simp); have e4 := h4a 0x56 (by simp)
  have f1 := h4b 0x1A (by simp); have f2 := h4b 0x3F (by simp); have f3 := h4b 0x4A (by simp); have f4 := h4b 0x56 (by simp)
  unfold Inv6 P.odr at *
  obtain ⟨a1, a2, a3, a4⟩ := ha
  obtain ⟨b1, b2, b3, b4⟩ := hb
  refine ⟨?_, ?_, ?_, ?_⟩
  · rcases h20 with h | h
    · rw [h, e1]; exact a1
    · rw [h, f1]; exact b1
  · rcases h1F with h | h
    · rw [h, e1, e2]; exact a2
    · rw [h, f1, f2]; exact b2
  · rcases h1F with h | h
    · rw [h, e1, e3]; exact a3
    · rw [h, f1, f3]; exact b3
  · rcases h20 with h | h
    · rw [h, e1, e4]; exact a4
    · rw [h, f1, f4]; exact b4

/-- accelerometer builder: of the six registers only ACC_CONFIG1 is written -/
theorem Safe6_acc (chip fin sh rq : Regs) (hchip : Inv6 chip) (hfin : Inv6 fin)
    (hfinA : fin 0x1A = rq 0x1A) (hfinO : ∀ a ∈ six, a ≠ 0x1A → fin a = chip a) :
    Safe6 chip (dws sh rq [0x19, 0x1A, 0x1B]) := by
  let I : Regs → Prop := fun c => (∀ x ∈ six, x ≠ 0x1A → c x = chip x) ∧ (c 0x1A = chip 0x1A ∨ c 0x1A = fin 0x1A)
  have hI : ∀ c, I c → Inv6 c := by
    intro c ⟨h1, h2⟩
    rcases h2 with h2 | h2
    · apply (Inv6_congr chip c ?_).mpr hchip
      intro x hx
      by_cases e : x = 0x1A
      · subst e; exact h2
      · exact h1 x hx e
    · apply (Inv6_congr fin c ?_).mpr hfin
      intro x hx
      by_cases e : x = 0x1A
      · subst e; exact h2
      · rw [h1 x hx e, hfinO x hx e]
  exact Safe6_of_inv I hI _ (by
    intro c ⟨h1, h2⟩ w hw
    obtain ⟨m1, m2, _⟩ := mem_dws hw
    constructor
    · intro x hx hne
      have : x ≠ w.addr := by
        intro e; subst e
        simp only [six, List.mem_cons, List.mem_nil_iff, or_false] at hx m1
        rcases m1 with m | m | m <;> rcases hx with h | h | h | h | h | h <;> omega
      simp [Regs.set, this]; exact h1 x hx hne
    · simp only [Regs.set]
      split
      · rename_i e; right; rw [m2, ← e, hfinA]
      · exact h2) chip ⟨fun _ _ _ => rfl, Or.inl rfl⟩

/-- interrupt-enable builder: INT_CONFIG0 then INT_CONFIG1 -/
theorem Safe6_int (chip fin sh rq : Regs) (hchip : Inv6 chip) (hfin : Inv6 fin)
    (hfin1F : fin 0x1F = rq 0x1F) (hfin20 : fin 0x20 = rq 0x20)
    (hfinO : ∀ a ∈ [0x1A, 0x3F, 0x4A, 0x56], fin a = chip a) :
    Safe6 chip (dws sh rq [0x1F, 0x20]) := by
  let I : Regs → Prop := fun c => (∀ x ∈ [0x1A, 0x3F, 0x4A, 0x56], c x = chip x) ∧
    (c 0x1F = chip 0x1F ∨ c 0x1F = fin 0x1F) ∧ (c 0x20 = chip 0x20 ∨ c 0x20 = fin 0x20)
  have hI : ∀ c, I c → Inv6 c := by
    intro c ⟨h1, h2, h3⟩
    exact Inv6_mix chip fin c hchip hfin h1 (fun x hx => by rw [h1 x hx, hfinO x hx]) h2 h3
  exact Safe6_of_inv I hI _ (by
    intro c ⟨h1, h2, h3⟩ w hw
    obtain ⟨m1, m2, _⟩ := mem_dws hw
    simp only [List.mem_cons, List.mem_nil_iff, or_false] at m1
    refine ⟨?_, ?_, ?_⟩
    · intro x hx
      have : x ≠ w.addr := by
        intro e; subst e
        simp only [List.mem_cons, List.mem_nil_iff, or_false] at hx
        rcases m1 with m | m <;> rcases hx with h | h | h | h <;> omega
      simp [Regs.set, this]; exact h1 x hx
    · simp only [Regs.set]
      split
      · rename_i e; right; rw [m2, ← e, hfin1F]
      · exact h2
    · simp only [Regs.set]
      split
      · rename_i e; right; rw [m2, ← e, hfin20]
      · exact h3) chip ⟨fun _ _ => rfl, Or.inl rfl, Or.inl rfl⟩

/-- generic / activity-change builders: the source register is rewritten only while the
    interrupt is disabled.  `e`/`m`: enable register and bit, `base`: the source register -/
theorem Safe6_src_body (chip c0 sh rq : Regs) (B : List Nat) (base e : Nat) (m : Byte)
    (hcase : (base = 0x3F ∧ e = 0x1F ∧ m = 0x04#8) ∨ (base = 0x4A ∧ e = 0x1F ∧ m = 0x08#8) ∨
             (base = 0x56 ∧ e = 0x20 ∧ m = 0x10#8))
    (hB : ∀ a ∈ B, a = base ∨ a ∉ six) (hinv : Inv6 chip)
    (hb0 : Below chip (c0.set base (chip base))) (hd0 : has (c0 e) m = false) :
    Safe6 c0 (dws sh rq B) := by
  let I : Regs → Prop := fun c => Below chip (c.set base (chip base)) ∧ has (c e) m = false
  have hI : ∀ c, I c → Inv6 c := by
    intro c ⟨h1, h2⟩
    have := Inv6_below chip _ h1 hinv
    exact (Inv6_set_src c base m e (chip base) hcase h2).mp this
  have hne : e ≠ base := by rcases hcase with ⟨rfl, rfl, _⟩ | ⟨rfl, rfl, _⟩ | ⟨rfl, rfl, _⟩ <;> simp
  exact Safe6_of_inv I hI _ (by
    intro c ⟨h1, h2⟩ w hw
    obtain ⟨m1, _, _⟩ := mem_dws hw
    rcases hB _ m1 with hb | hb
    · -- the source register itself
      constructor
      · have : (c.set w.addr w.val).set base (chip base) = c.set base (chip base) := by
          funext x; simp only [Regs.set, hb]; split <;> rfl
        rw [this]; exact h1
      · simp [Regs.set, hb, hne]; exact h2
    · -- a register outside the six
      have hwb : w.addr ≠ base := by
        intro e'; apply hb; rw [e']
        rcases hcase with ⟨rfl, _, _⟩ | ⟨rfl, _, _⟩ | ⟨rfl, _, _⟩ <;> simp [six]
      have hwe : e ≠ w.addr := by
        intro e'; apply hb; rw [← e']
        rcases hcase with ⟨_, rfl, _⟩ | ⟨_, rfl, _⟩ | ⟨_, rfl, _⟩ <;> simp [six]
      constructor
      · have : (c.set w.addr w.val).set base (chip base) = (c.set base (chip base)).set w.addr w.val := by
          funext x; simp only [Regs.set]
          by_cases h1 : x = base <;> by_cases h2 : x = w.addr <;> simp [h1, h2]
          · exact absurd (h2 ▸ h1 ▸ rfl : w.addr = base) hwb
          · intro e'; exact absurd e'.symm hwb
          · intro e'; exact absurd e' hwb
        rw [this]
        apply Below_step chip _ w h1
        simp only [six, List.mem_cons, List.mem_nil_iff, or_false, not_or] at hb
        exact ⟨by simp [hb.1, hb.2.2.2.1, hb.2.2.2.2.1, hb.2.2.2.2.2], fun e' => absurd e' hb.2.1, fun e' => absurd e' hb.2.2.1⟩
      · simp [Regs.set, hwe]; exact h2) c0 ⟨hb0, hd0⟩

theorem set_self (c : Regs) (a : Nat) : c.set a (c a) = c := by
  funext x; simp only [Regs.set]; split
  · rename_i e; rw [e]
  · rfl

theorem below_after_disable (chip : Regs) (e base : Nat) (tmp : Byte) (he : e = 0x1F ∨ e = 0x20)
    (hb : base ∈ [0x3F, 0x4A, 0x56]) (hs : tmp &&& ~~~(chip e) = 0#8) :
    Below chip ((chip.set e tmp).set base (chip base)) := by
  have hne : base ≠ e := by
    simp only [List.mem_cons, List.mem_nil_iff, or_false] at hb
    rcases he with rfl | rfl <;> rcases hb with rfl | rfl | rfl <;> simp
  have : (chip.set e tmp).set base (chip base) = chip.set e tmp := by
    funext x; simp only [Regs.set]
    by_cases h1 : x = base
    · subst h1; simp [hne]
    · simp [h1]
  rw [this]
  have := Below_step chip chip ⟨e, tmp⟩ (Below_refl chip)
    ⟨by rcases he with rfl | rfl <;> simp, fun e' => by subst e'; exact hs, fun e' => by subst e'; exact hs⟩
  exact this

/-- the write script of every accepted request keeps `Inv6` at every step -/
theorem C06_safe (q : Request) (sh chip : Regs) (hco : Coherent sh chip)
    (hdef : ∀ x ∈ DS.cfgAddrs, DefAt sh x) (hinv : Inv6 chip) (ws : List W) (h : q.script sh = .ok ws) :
    Safe6 chip ws := by
  have hfin := Inv6_final q sh chip hco hdef hinv ws h
  have heff := C01_effect q sh chip hco ws h
  have e1F : sh 0x1F = chip 0x1F := hco 0x1F (by decide)
  have e20 : sh 0x20 = chip 0x20 := hco 0x20 (by decide)
  have passive : (∀ l, q ≠ .acc l) ∧ (∀ l, q ≠ .int l) ∧ (∀ g l, q ≠ .gen g l) ∧ (∀ l, q ≠ .act l) → Safe6 chip ws :=
    fun hq => Safe6_harmless chip ws hinv (passive_harmless q sh chip hco ws h hq) chip (Below_refl chip)
  cases q with
  | pin l => exact passive ⟨(fun _ e => nomatch e), (fun _ e => nomatch e), (fun _ _ e => nomatch e), (fun _ e => nomatch e)⟩
  | fifo l => exact passive ⟨(fun _ e => nomatch e), (fun _ e => nomatch e), (fun _ _ e => nomatch e), (fun _ e => nomatch e)⟩
  | alp l => exact passive ⟨(fun _ e => nomatch e), (fun _ e => nomatch e), (fun _ _ e => nomatch e), (fun _ e => nomatch e)⟩
  | awk l => exact passive ⟨(fun _ e => nomatch e), (fun _ e => nomatch e), (fun _ _ e => nomatch e), (fun _ e => nomatch e)⟩
  | wkup l => exact passive ⟨(fun _ e => nomatch e), (fun _ e => nomatch e), (fun _ _ e => nomatch e), (fun _ e => nomatch e)⟩
  | ori l => exact passive ⟨(fun _ e => nomatch e), (fun _ e => nomatch e), (fun _ _ e => nomatch e), (fun _ e => nomatch e)⟩
  | tap l => exact passive ⟨(fun _ e => nomatch e), (fun _ e => nomatch e), (fun _ _ e => nomatch e), (fun _ e => nomatch e)⟩
  | acc l =>
    have h' := h
    simp only [Request.script, accScript] at h'
    split at h'; · cases h'
    split at h'; · cases h'
    cases h'
    apply Safe6_acc chip _ sh _ hinv hfin
    · rw [heff 0x1A]; simp [Request.block]
    · intro a ha hne
      rw [heff a]
      have : a ∉ (Request.acc l).block := by
        simp only [six, List.mem_cons, List.mem_nil_iff, or_false] at ha
        simp only [Request.block, List.mem_cons, List.mem_nil_iff, or_false]
        rcases ha with rfl | rfl | rfl | rfl | rfl | rfl <;> simp at hne ⊢
      simp only [this, if_false]
  | int l =>
    have h' := h
    simp only [Request.script, intScript] at h'
    split at h'; · cases h'
    split at h'; · cases h'
    split at h'; · cases h'
    split at h'; · cases h'
    cases h'
    apply Safe6_int chip _ sh _ hinv hfin
    · rw [heff 0x1F]; simp [Request.block]
    · rw [heff 0x20]; simp [Request.block]
    · intro a ha
      rw [heff a]
      have : a ∉ (Request.int l).block := by
        simp only [List.mem_cons, List.mem_nil_iff, or_false] at ha
        simp only [Request.block, List.mem_cons, List.mem_nil_iff, or_false]
        rcases ha with rfl | rfl | rfl | rfl <;> simp
      simp only [this, if_false]
  | gen g l =>
    have h' := h
    simp only [Request.script] at h'
    rcases genScript_ok g sh _ ws h' with ⟨_, rfl⟩ | ⟨_, hws⟩
    · exact hinv
    · have hcase : (g.base = 0x3F ∧ (0x1F : Nat) = 0x1F ∧ g.enMask = 0x04#8) ∨ (g.base = 0x4A ∧ (0x1F : Nat) = 0x1F ∧ g.enMask = 0x08#8) ∨
          (g.base = 0x56 ∧ (0x1F : Nat) = 0x20 ∧ g.enMask = 0x10#8) := by cases g <;> simp [GenId.base, GenId.enMask, ic0_GEN1, ic0_GEN2]
      have hB : ∀ a ∈ genBlock g, a = g.base ∨ a ∉ six := by cases g <;> decide
      have hbm : g.base ∈ [0x3F, 0x4A, 0x56] := by cases g <;> simp [GenId.base]
      cases hen : has (sh 0x1F) g.enMask with
      | false =>
        rw [hen] at hws
        have : ws = dws sh ((Request.gen g l).target sh) (genBlock g) := by
          rw [hws]; simp [bracket, wIf]
        rw [this]
        apply Safe6_src_body chip chip sh _ (genBlock g) g.base 0x1F g.enMask hcase hB hinv
        · rw [set_self]; exact Below_refl chip
        · rw [← e1F]; exact hen
      | true =>
        rw [hen] at hws
        have hne : (sh 0x1F != clr (sh 0x1F) g.enMask) = true := by
          simp; exact fun e => (clr_strictSub _ _ hen).2 e.symm
        have : ws = ([⟨0x1F, clr (sh 0x1F) g.enMask⟩] ++ dws sh ((Request.gen g l).target sh) (genBlock g)) ++ [⟨0x1F, sh 0x1F⟩] := by
          rw [hws]; simp [bracket, wIf, hne]
        rw [this]
        apply Safe6_snoc
        · refine ⟨hinv, ?_⟩
          apply Safe6_src_body chip _ sh _ (genBlock g) g.base 0x1F g.enMask hcase hB hinv
          · apply below_after_disable chip 0x1F g.base _ (Or.inl rfl) hbm
            rw [← e1F]; exact clr_sub_self _ _
          · simp [Regs.set]; exact has_clr _ _
        · rw [← this]; exact hfin
  | act l =>
    have h' := h
    simp only [Request.script] at h'
    rcases actScript_ok sh _ ws h' with ⟨_, rfl⟩ | ⟨_, hws⟩
    · exact hinv
    · have hcase : ((0x56 : Nat) = 0x3F ∧ (0x20 : Nat) = 0x1F ∧ ic1_ACTCH = 0x04#8) ∨ ((0x56 : Nat) = 0x4A ∧ (0x20 : Nat) = 0x1F ∧ ic1_ACTCH = 0x08#8) ∨
          ((0x56 : Nat) = 0x56 ∧ (0x20 : Nat) = 0x20 ∧ ic1_ACTCH = 0x10#8) := by simp [ic1_ACTCH]
      have hB : ∀ a ∈ [0x55, 0x56], a = 0x56 ∨ a ∉ six := by decide
      cases hen : has (sh 0x20) ic1_ACTCH with
      | false =>
        rw [hen] at hws
        have : ws = dws sh ((Request.act l).target sh) [0x55, 0x56] := by
          rw [hws]; simp [bracket, wIf]
        rw [this]
        apply Safe6_src_body chip chip sh _ [0x55, 0x56] 0x56 0x20 ic1_ACTCH hcase hB hinv
        · rw [set_self]; exact Below_refl chip
        · rw [← e20]; exact hen
      | true =>
        rw [hen] at hws
        have hne : (sh 0x20 != clr (sh 0x20) ic1_ACTCH) = true := by
          simp; exact fun e => (clr_strictSub _ _ hen).2 e.symm
        have : ws = ([⟨0x20, clr (sh 0x20) ic1_ACTCH⟩] ++ dws sh ((Request.act l).target sh) [0x55, 0x56]) ++ [⟨0x20, sh 0x20⟩] := by
          rw [hws]; simp [bracket, wIf, hne]
        rw [this]
        apply Safe6_snoc
        · refine ⟨hinv, ?_⟩
          apply Safe6_src_body chip _ sh _ [0x55, 0x56] 0x56 0x20 ic1_ACTCH hcase hB hinv
          · apply below_after_disable chip 0x20 0x56 _ (Or.inr rfl) (by simp)
            rw [← e20]; exact clr_sub_self _ _
          · simp [Regs.set]; exact has_clr _ _
        · rw [← this]; exact hfin

/-- after ANY prefix of the script of an accepted request - a bus failure at any position -
    no interrupt is enabled at an ODR it cannot use -/
theorem C06_prefix (q : Request) (sh chip : Regs) (hco : Coherent sh chip)
    (hdef : ∀ x ∈ DS.cfgAddrs, DefAt sh x) (hinv : Inv6 chip) (ws : List W) (h : q.script sh = .ok ws) (n : Nat) :
    Inv6 (applyWrites chip (ws.take n)) :=
  Safe6_take chip ws n (C06_safe q sh chip hco hdef hinv ws h)

theorem C06_accept (q : Request) (sh chip : Regs) (hco : Coherent sh chip)
    (hdef : ∀ x ∈ DS.cfgAddrs, DefAt sh x) (hinv : Inv6 chip) (ws : List W) (h : q.script sh = .ok ws) :
    Inv6 (applyWrites chip ws) := Inv6_final q sh chip hco hdef hinv ws h

/-- a rejected request performs no bus transaction and changes nothing, over either
    transport and whatever the fault schedule -/
theorem C06_reject (q : Request) (t : Transport) (fails : Nat → Bool) (w : World) (e : CfgErr)
    (h : q.script w.shadow = .error e) :
    runOp t fails w (.config q) = ([], { w with idx := 0 }, .err (.cfg e)) := by
  simp [runOp, Op.plan, h]

/-- non-vacuity: tap enabled at 200 Hz, request 100 Hz: rejected with the tap error -/
example : (match (Request.acc [.odr .hz100]).script (shadowDefault.set 0x20 0x04#8) with
    | .error .tapOdr => true | _ => false) = true := by decide

end Thm
end Bma400
