/-
  C05 - FIFO iteration is panic-free, in-bounds and terminating on arbitrary bytes.

  For EVERY buffer (a `List Byte` of any length and content, including malformed, unknown
  or truncated headers) and every iterator position:
  `C05_progress`   a call of `next` inside the buffer advances the cursor by at least one byte
                   (so indexing `bytes[header_idx]` is guarded and the cursor never overflows);
  `C05_none_after` once the cursor is at or past the end, `next` returns None and does not move;
  `C05_frame`      a yielded frame starts at the old cursor, ends at the new one, lies inside the
                   buffer and is exactly one header byte plus the payload length implied by
                   that header;
  `C05_order`      consecutive yielded frames do not overlap and increase;
  `C05_termination` after `len` calls the cursor is at or past the end: every call from the
                   (len+1)-th on returns None - iteration ends within len+1 calls;
  `C05_accessors`  on a yielded frame EVERY accessor (frame_type, x, y, z, time and the three
                   control flags) only evaluates indices inside the frame: `Frame.view` is
                   `some` - the Rust code cannot panic on any yielded frame.
-/
import Bma400.Fifo
set_option linter.unusedSimpArgs false
namespace Bma400
namespace Thm
open T

theorem payload_pos : ∀ h : Byte, numPayloadBytes h ≥ 1 ∨ (frameType h = .data ∧ hasData h = true ∧ numPayloadBytes h ≥ 1) := by
  decide +kernel

theorem payload_ge_one : ∀ h : Byte, numPayloadBytes h ≥ 1 := by decide +kernel

theorem C05_progress (buf : List Byte) (it : Iter) (h : it.index < buf.length) :
    (next buf it).2.index ≥ it.index + 1 := by
  unfold next
  have hn : ¬ it.index ≥ buf.length := by omega
  simp only [hn, if_false]
  have hget : buf[it.index]? = some buf[it.index] := by simp [h]
  rw [hget]
  simp only
  split
  · simp
  · split <;> simp <;> omega

theorem C05_none_after (buf : List Byte) (it : Iter) (h : it.index ≥ buf.length) :
    next buf it = (none, it) := by
  unfold next; simp [h]

theorem C05_frame (buf : List Byte) (it it' : Iter) (f : Frame) (h : next buf it = (some f, it')) :
    f.start = it.index ∧ f.stop = it'.index ∧ f.stop ≤ buf.length ∧ f.start < f.stop ∧
    ∃ b, buf[f.start]? = some b ∧ f.stop - f.start = 1 + numPayloadBytes (hdr b) := by
  unfold next at h
  split at h
  · simp at h
  · split at h
    · simp at h
    · rename_i b hb
      simp only at h
      split at h
      · simp at h
      · split at h
        · simp at h
        · rename_i hle
          simp only [Prod.mk.injEq, Option.some.injEq] at h
          obtain ⟨rfl, rfl⟩ := h
          simp only at hle ⊢
          refine ⟨trivial, trivial, by omega, by omega, b, hb, by omega⟩

/-- the cursor never moves backwards -/
theorem next_mono (buf : List Byte) (it : Iter) : (next buf it).2.index ≥ it.index := by
  by_cases h : it.index < buf.length
  · have := C05_progress buf it h; omega
  · rw [C05_none_after buf it (by omega)]; simp

/-- a frame yielded by a later call starts at or after the end of an earlier one -/
theorem C05_order (buf : List Byte) (it1 it2 it2' : Iter) (f1 f2 : Frame) (it1' : Iter)
    (h1 : next buf it1 = (some f1, it1')) (hle : it1'.index ≤ it2.index) (h2 : next buf it2 = (some f2, it2')) :
    f1.stop ≤ f2.start := by
  have a := C05_frame buf it1 it1' f1 h1
  have b := C05_frame buf it2 it2' f2 h2
  omega

/-- cursor after n calls -/
def cursorAfter (buf : List Byte) (it : Iter) : Nat → Iter
  | 0 => it
  | n + 1 => cursorAfter buf (next buf it).2 n

theorem cursor_progress (buf : List Byte) (n : Nat) : ∀ it : Iter,
    (cursorAfter buf it n).index ≥ min (it.index + n) buf.length := by
  induction n with
  | zero => intro it; simp [cursorAfter]; omega
  | succ n ih =>
    intro it
    simp only [cursorAfter]
    have := ih (next buf it).2
    by_cases h : it.index < buf.length
    · have := C05_progress buf it h; omega
    · have := next_mono buf it; omega

/-- iteration ends within len+1 calls: after len calls every further call returns None -/
theorem C05_termination (buf : List Byte) (it : Iter) (n : Nat) (hn : n ≥ buf.length) :
    (next buf (cursorAfter buf it n)).1 = none := by
  have := cursor_progress buf n it
  rw [C05_none_after buf _ (by omega)]

theorem callN_cursor (buf : List Byte) (n : Nat) : ∀ it, (callN buf it n).2 = cursorAfter buf it n := by
  induction n with
  | zero => intro it; rfl
  | succ n ih => intro it; simp only [callN, cursorAfter]; exact ih _

/-! ### accessors never index outside a yielded frame -/

/-- what each accessor needs of the payload length, for every header byte -/
theorem header_facts : ∀ h : Byte,
    (frameType h = .time → numPayloadBytes h = 3) ∧
    (frameType h = .control → numPayloadBytes h = 1) ∧
    (hasX h = true → (if resolutionIs12bit h then 2 else 1) ≤ numPayloadBytes h) ∧
    (hasY h = true → (if resolutionIs12bit h then (if hasX h then 1 else 0) * 2 + 2 else (if hasX h then 1 else 0) + 1)
        ≤ numPayloadBytes h) ∧
    (hasZ h = true →
      (if resolutionIs12bit h then ((if hasX h then 1 else 0) + (if hasY h then 1 else 0)) * 2 + 2
       else ((if hasX h then 1 else 0) + (if hasY h then 1 else 0)) + 1) ≤ numPayloadBytes h) := by
  decide +kernel

/-- a frame as `next` yields them -/
structure Yielded (buf : List Byte) (f : Frame) (b : Byte) : Prop where
  inb : f.stop ≤ buf.length
  hb : buf[f.start]? = some b
  len : f.stop - f.start = 1 + numPayloadBytes (hdr b)
  lt : f.start < f.stop

theorem yielded_of_next (buf : List Byte) (it it' : Iter) (f : Frame) (h : next buf it = (some f, it')) :
    ∃ b, Yielded buf f b := by
  obtain ⟨_, _, h3, h4, b, h5, h6⟩ := C05_frame buf it it' f h
  exact ⟨b, ⟨h3, h5, h6, h4⟩⟩

theorem at_some (buf : List Byte) (f : Frame) (b : Byte) (hy : Yielded buf f b) (i : Nat)
    (hi : i ≤ numPayloadBytes (hdr b)) : ∃ v, f.at buf i = some v := by
  have h1 : f.start + i < f.stop := by have := hy.len; omega
  have h2 : f.start + i < buf.length := by have := hy.inb; omega
  exact ⟨buf[f.start + i], by simp [Frame.at, h1, h2]⟩

theorem at_zero (buf : List Byte) (f : Frame) (b : Byte) (hy : Yielded buf f b) : f.at buf 0 = some b := by
  have := hy.lt
  simp [Frame.at, this, hy.hb]

theorem dataAtOffset_some (buf : List Byte) (f : Frame) (b : Byte) (hy : Yielded buf f b) (off : Nat) (r : Bool)
    (h : (if r then off * 2 + 2 else off + 1) ≤ numPayloadBytes (hdr b)) :
    (f.dataAtOffset buf off r).isSome = true := by
  cases r with
  | true =>
    simp only [if_true] at h
    obtain ⟨a1, h1⟩ := at_some buf f b hy (off * 2 + 1) (by omega)
    obtain ⟨a2, h2⟩ := at_some buf f b hy (off * 2 + 2) (by omega)
    simp [Frame.dataAtOffset, h1, h2]
  | false =>
    simp only [Bool.false_eq_true, if_false] at h
    obtain ⟨a1, h1⟩ := at_some buf f b hy (off + 1) (by omega)
    simp [Frame.dataAtOffset, h1]

theorem isSome_map_some {α} (o : Option α) (h : o.isSome = true) : (o.map some).isSome = true := by
  cases o <;> simp_all

theorem C05_accessors (buf : List Byte) (f : Frame) (b : Byte) (hy : Yielded buf f b) :
    (f.view buf).isSome = true := by
  have hf := header_facts (hdr b)
  obtain ⟨ht, hc, hx, hyy, hz⟩ := hf
  have h0 := at_zero buf f b hy
  have e_ft : f.frameType buf = some (frameType (hdr b)) := by simp [Frame.frameType, h0]
  have e_x : (f.x buf).isSome = true := by
    simp only [Frame.x, h0, Option.bind_eq_bind, Option.bind_some]
    by_cases hcond : (frameType (hdr b) != FrameType.data || !hasX (hdr b)) = true
    · simp [hcond]
    · simp only [hcond, if_false]
      apply isSome_map_some
      apply dataAtOffset_some buf f b hy
      have hxx : hasX (hdr b) = true := by
        cases hh : hasX (hdr b) <;> simp_all
      have := hx hxx
      split <;> simp_all
  have e_y : (f.y buf).isSome = true := by
    simp only [Frame.y, h0, Option.bind_eq_bind, Option.bind_some]
    by_cases hcond : (frameType (hdr b) != FrameType.data || !hasY (hdr b)) = true
    · simp [hcond]
    · simp only [hcond, if_false]
      apply isSome_map_some
      apply dataAtOffset_some buf f b hy
      have hxx : hasY (hdr b) = true := by
        cases hh : hasY (hdr b) <;> simp_all
      have := hyy hxx
      split <;> simp_all
  have e_z : (f.z buf).isSome = true := by
    simp only [Frame.z, h0, Option.bind_eq_bind, Option.bind_some]
    by_cases hcond : (frameType (hdr b) != FrameType.data || !hasZ (hdr b)) = true
    · simp [hcond]
    · simp only [hcond, if_false]
      apply isSome_map_some
      apply dataAtOffset_some buf f b hy
      have hxx : hasZ (hdr b) = true := by
        cases hh : hasZ (hdr b) <;> simp_all
      have := hz hxx
      split <;> simp_all
  have e_t : (f.time buf).isSome = true := by
    simp only [Frame.time, e_ft, Option.bind_eq_bind, Option.bind_some]
    by_cases hcond : (frameType (hdr b) != FrameType.time) = true
    · simp [hcond]
    · simp only [hcond, if_false]
      have htime : frameType (hdr b) = .time := by simpa using hcond
      have hp := ht htime
      obtain ⟨a1, h1⟩ := at_some buf f b hy 1 (by omega)
      obtain ⟨a2, h2⟩ := at_some buf f b hy 2 (by omega)
      obtain ⟨a3, h3⟩ := at_some buf f b hy 3 (by omega)
      simp [h1, h2, h3]
  have e_c : ∀ m, (f.ctrlBit buf m).isSome = true := by
    intro m
    simp only [Frame.ctrlBit, e_ft, Option.bind_eq_bind, Option.bind_some]
    by_cases hcond : (frameType (hdr b) != FrameType.control) = true
    · simp [hcond]
    · simp only [hcond, if_false]
      have hctl : frameType (hdr b) = .control := by simpa using hcond
      have hp := hc hctl
      obtain ⟨a1, h1⟩ := at_some buf f b hy 1 (by omega)
      simp [h1]
  have ha' := e_c 0x02#8
  have hb' := e_c 0x04#8
  have hc' := e_c 0x08#8
  rcases hx' : f.x buf with _ | vx
  · simp [hx'] at e_x
  rcases hy' : f.y buf with _ | vy
  · simp [hy'] at e_y
  rcases hz' : f.z buf with _ | vz
  · simp [hz'] at e_z
  rcases ht' : f.time buf with _ | vt
  · simp [ht'] at e_t
  rcases h1' : f.ctrlBit buf 0x02#8 with _ | v1
  · simp [h1'] at ha'
  rcases h2' : f.ctrlBit buf 0x04#8 with _ | v2
  · simp [h2'] at hb'
  rcases h3' : f.ctrlBit buf 0x08#8 with _ | v3
  · simp [h3'] at hc'
  simp [Frame.view, e_ft, hx', hy', hz', ht', Frame.fifoSrcChg, Frame.filt1BwChg, Frame.acc1Chg, h1', h2', h3']

/-- C05, all together, for one call of `next` on any buffer at any position -/
theorem C05 (buf : List Byte) (it : Iter) :
    (next buf it).2.index ≥ it.index ∧
    (it.index < buf.length → (next buf it).2.index ≥ it.index + 1) ∧
    (∀ f, (next buf it).1 = some f →
      f.start = it.index ∧ f.stop = (next buf it).2.index ∧ f.stop ≤ buf.length ∧ f.start < f.stop ∧
      (∃ b, buf[f.start]? = some b ∧ f.stop - f.start = 1 + numPayloadBytes (hdr b)) ∧
      (f.view buf).isSome = true) := by
  refine ⟨next_mono buf it, C05_progress buf it, ?_⟩
  intro f hf
  have h : next buf it = (some f, (next buf it).2) := by rw [← hf]
  obtain ⟨h1, h2, h3, h4, h5⟩ := C05_frame buf it _ f h
  obtain ⟨b, hyb⟩ := yielded_of_next buf it _ f h
  exact ⟨h1, h2, h3, h4, h5, C05_accessors buf f b hyb⟩

/-- non-vacuity: a malformed control header with axis-like bits, an unknown time-like header
    and a truncated data frame -/
example : (frames [0x46#8, 0xFF#8, 0xE0#8, 1, 2, 3, 0x9E#8, 1, 2]).length = 2 := by decide

end Thm
end Bma400
