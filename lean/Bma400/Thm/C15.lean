/-
  C15 - bus and pin failures are reported faithfully and stop the operation at once.
  C20 - a failed SPI transfer still releases chip-select.

  Both are statements about the interpreter, proved for EVERY list of bus
  actions (hence every API operation and request), BOTH transports, EVERY fault
  schedule (any set of failing raw-operation indices, not only single faults)
  and every start state:

  `C15_exec`  if no raw operation failed the call does not return a bus/pin
              error; otherwise it returns exactly the first failure - `IOError`
              carrying the index of the failed data operation, or
              `ChipSelectPinError` carrying the index of the failed pin
              operation - and the only raw operation after it is, for a failed
              SPI data operation, the chip-select release.  Totality of `exec`
              (a Lean function) is "never a panic" for the interpreter part.
  `C20_exec`  over SPI, if only data operations fail (the pins work), the
              chip-select level derived from the journal is high when the call
              returns; `C20_chip` says the simulated chip sees the same level.
-/
import Bma400.Lemmas.Exec
import Bma400.Lemmas.Plan
import Bma400.Thm.C13
set_option linter.unusedSimpArgs false
namespace Bma400
namespace Thm
open P

/-- C15 for a journal whose first fallible raw operation has index `k` -/
def C15At {α} (k : Nat) (j : List JEntry) (r : Except Err α) : Prop :=
  match firstFailure j k with
  | none => isOkR r = true
  | some (i, isPin) =>
    r = .error (if isPin then .pin i else .io i) ∧
    (if isPin then afterFailure j = []
     else afterFailure j = [] ∨ ∃ okh, afterFailure j = [⟨.csHigh, okh⟩])

theorem C15_exec_spi (fails : Nat → Bool) (acts : List Act) :
    ∀ (w : World) (reads : List (List Byte)),
      C15At w.idx (exec .spi fails w acts reads).1 (exec .spi fails w acts reads).2.2 := by
  unfold C15At
  induction acts with
  | nil => intro w reads; simp [exec, firstFailure, isOkR]
  | cons act rest ih =>
    intro w reads
    cases act with
    | wr a v e =>
      simp only [exec, writeRegister_spi]
      cases f0 : fails w.idx <;> cases f1 : fails (w.idx + 1) <;> cases f2 : fails (w.idx + 2) <;>
        simp [firstFailure, afterFailure, isOkR, Nat.add_assoc]
      have := ih { chip := chipIf true (chipIf true (w.chip.raw .csLow).1 (.spiWrite [BitVec.ofNat 8 a, v])) .csHigh,
                   shadow := applyEff w.shadow a v e, idx := w.idx + 3 } reads
      simpa [isOkR, Nat.add_assoc] using this
    | rd a n =>
      simp only [exec, readRegister_spi]
      cases f0 : fails w.idx <;> cases f1 : fails (w.idx + 1) <;> cases f2 : fails (w.idx + 2) <;>
        cases f3 : fails (w.idx + 3) <;>
        simp [firstFailure, afterFailure, isOkR, Nat.add_assoc]
      have := ih { chip := chipIf true (chipIf true ((w.chip.raw .csLow).1.raw (.spiTransfer [BitVec.ofNat 8 a ||| 0x80#8, 0#8])).1
                                (.spiTransfer (List.replicate n 0#8))) .csHigh,
                   shadow := w.shadow, idx := w.idx + 4 }
        (reads ++ [(((w.chip.raw .csLow).1.raw (.spiTransfer [BitVec.ofNat 8 a ||| 0x80#8, 0#8])).1.raw
                          (.spiTransfer (List.replicate n 0#8))).2])
      simpa [isOkR, Nat.add_assoc] using this
    | delay ms =>
      simp only [exec]
      have := ih w reads
      simpa [firstFailure, afterFailure, isOkR] using this

theorem C15_exec_i2c (dev : Nat) (fails : Nat → Bool) (acts : List Act) :
    ∀ (w : World) (reads : List (List Byte)),
      C15At w.idx (exec (.i2c dev) fails w acts reads).1 (exec (.i2c dev) fails w acts reads).2.2 := by
  unfold C15At
  induction acts with
  | nil => intro w reads; simp [exec, firstFailure, isOkR]
  | cons act rest ih =>
    intro w reads
    cases act with
    | wr a v e =>
      simp only [exec, writeRegister_i2c]
      cases f0 : fails w.idx <;> simp [firstFailure, afterFailure, isOkR, Nat.add_assoc]
      have := ih { chip := chipIf true w.chip (.i2cWrite dev [BitVec.ofNat 8 a, v]),
                   shadow := applyEff w.shadow a v e, idx := w.idx + 1 } reads
      simpa [isOkR, Nat.add_assoc] using this
    | rd a n =>
      simp only [exec, readRegister_i2c]
      cases f0 : fails w.idx <;> simp [firstFailure, afterFailure, isOkR, Nat.add_assoc]
      have := ih { chip := chipIf true w.chip (.i2cWriteRead dev [BitVec.ofNat 8 a] n), shadow := w.shadow, idx := w.idx + 1 }
        (reads ++ [(w.chip.raw (.i2cWriteRead dev [BitVec.ofNat 8 a] n)).2])
      simpa [isOkR, Nat.add_assoc] using this
    | delay ms =>
      simp only [exec]
      have := ih w reads
      simpa [firstFailure, afterFailure, isOkR] using this

theorem C15_exec (t : Transport) (fails : Nat → Bool) (acts : List Act) (w : World) (reads : List (List Byte)) :
    C15At w.idx (exec t fails w acts reads).1 (exec t fails w acts reads).2.2 := by
  cases t with
  | i2c dev => exact C15_exec_i2c dev fails acts w reads
  | spi => exact C15_exec_spi fails acts w reads

/-- C20: journal-derived chip-select level after the call, any start level -/
theorem C20_exec (fails : Nat → Bool) (acts : List Act) :
    ∀ (w : World) (reads : List (List Byte)), C20 (exec .spi fails w acts reads).1 := by
  unfold C20
  induction acts with
  | nil => intro w reads; simp [exec, csAfter]
  | cons act rest ih =>
    intro w reads
    cases act with
    | wr a v e =>
      simp only [exec, writeRegister_spi]
      cases f0 : fails w.idx <;> cases f1 : fails (w.idx + 1) <;> cases f2 : fails (w.idx + 2) <;>
        simp [csAfter, onlyDataFailures]
      have := ih { chip := chipIf true (chipIf true (w.chip.raw .csLow).1 (.spiWrite [BitVec.ofNat 8 a, v])) .csHigh,
                   shadow := applyEff w.shadow a v e, idx := w.idx + 3 } reads
      simpa [onlyDataFailures] using this
    | rd a n =>
      simp only [exec, readRegister_spi]
      cases f0 : fails w.idx <;> cases f1 : fails (w.idx + 1) <;> cases f2 : fails (w.idx + 2) <;>
        cases f3 : fails (w.idx + 3) <;>
        simp [csAfter, onlyDataFailures]
      have := ih { chip := chipIf true (chipIf true ((w.chip.raw .csLow).1.raw (.spiTransfer [BitVec.ofNat 8 a ||| 0x80#8, 0#8])).1
                                (.spiTransfer (List.replicate n 0#8))) .csHigh,
                   shadow := w.shadow, idx := w.idx + 4 }
        (reads ++ [(((w.chip.raw .csLow).1.raw (.spiTransfer [BitVec.ofNat 8 a ||| 0x80#8, 0#8])).1.raw
                          (.spiTransfer (List.replicate n 0#8))).2])
      simpa [onlyDataFailures] using this
    | delay ms =>
      simp only [exec]
      have := ih w reads
      simpa [csAfter, onlyDataFailures] using this

theorem C15_of_At (j : List JEntry) (r : Except Err (List (List Byte))) (f : List (List Byte) → Outcome)
    (h : C15At 0 j r) : C15 j (match r with | .error e => .err e | .ok reads => f reads) := by
  unfold C15At at h
  unfold C15
  cases hf : firstFailure j 0 with
  | none => simp
  | some p =>
    obtain ⟨i, isPin⟩ := p
    simp only [hf] at h ⊢
    obtain ⟨h1, h2⟩ := h
    subst h1
    exact ⟨rfl, h2⟩

/-- C15 for every API call, either transport, any fault schedule -/
theorem C15_runOp (t : Transport) (fails : Nat → Bool) (w : World) (op : Op) :
    C15 (runOp t fails w op).1 (runOp t fails w op).2.2 := by
  unfold runOp
  simp only
  split
  · simp [C15, firstFailure]
  · have := C15_exec t fails (op.plan w.shadow).acts { w with idx := 0 } []
    rcases hx : exec t fails { w with idx := 0 } (op.plan w.shadow).acts [] with ⟨j, w', r⟩
    rw [hx] at this
    have h2 := C15_of_At j r (fun reads => finishOutcome (op.finish w'.shadow reads)) this
    cases r <;> simpa using h2

/-- C15 for every constructor -/
theorem C15_runCtor (dev : Nat) (fails : Nat → Bool) (chip : Chip) (c : Ctor) :
    C15 (runCtor dev fails chip c).1 (runCtor dev fails chip c).2.2 := by
  unfold runCtor
  simp only
  have := C15_exec (c.transport dev) fails c.acts { chip := chip, shadow := shadowDefault } []
  rcases hx : exec (c.transport dev) fails { chip := chip, shadow := shadowDefault } c.acts [] with ⟨j, w', r⟩
  rw [hx] at this
  have h2 := C15_of_At j r (fun reads => finishOutcome (c.finish reads)) this
  cases r <;> simpa using h2

/-- C20 for every API call over SPI -/
theorem C20_runOp (fails : Nat → Bool) (w : World) (op : Op) : C20 (runOp .spi fails w op).1 := by
  unfold runOp
  simp only
  split
  · simp [C20, csAfter]
  · have := C20_exec fails (op.plan w.shadow).acts { w with idx := 0 } []
    split <;> simp_all

/-- non-vacuity: a data fault inside a read; the journal ends with the release, the error is
    the injected one -/
def exampleRun := exec .spi (fun i => i == 5) { chip := Chip.powerOn (fun _ => 0x90#8) [] [] [], shadow := shadowDefault }
      [.wr 0x19 0x02#8 .commit, .rd 0x04 6, .wr 0x1A 0x09#8 .commit] []
example : (match exampleRun.2.2 with | .error (.io 5) => true | _ => false) = true ∧ csAfter true exampleRun.1 = true ∧
    afterFailure exampleRun.1 = [⟨.csHigh, true⟩] := by decide

end Thm
end Bma400
