/-
  C16 - a bus failure never leaves the driver with a false belief about the device.

  `Good t w`: the recorded configuration equals the device on every configuration register
  (`P.Coherent`) and, over SPI, chip-select is high and the chip has left its power-on I2C
  mode - i.e. the next access starts a fresh transaction.
  `C16_exec`: for EVERY list of well-formed bus actions (`ActOk`: a recorded write goes to a
  configuration register, an unrecorded one does not, the reset command resets), BOTH
  transports and EVERY fault schedule in which only data operations fail (any number, any
  positions; a failed operation is not applied by the chip), `Good` is preserved.  Hence it
  is an invariant of every history of API calls (`C16_runOp` with `plan_ok`), and every
  later accepted request satisfies C01 / C07 / C08 verbatim - they assume nothing else.
  In particular a needed write is never skipped: `C01_effect` says the device ends up
  holding the request, whatever happened before.
  Chip-select *pin* failures are not bus errors in the sense of the property (they are
  reported as ChipSelectPinError) and are excluded: after a failed release the chip sees
  every later byte as part of the old transaction, which no driver can repair.
-/
import Bma400.Thm.C14
import Bma400.Thm.C15
import Bma400.Lemmas.Script
set_option linter.unusedSimpArgs false
namespace Bma400
namespace Thm
open P

/-- recorded writes go to configuration registers, unrecorded ones do not touch them -/
def ActOk : Act → Prop
  | .wr a _ .commit => a ∈ DS.cfgAddrs
  | .wr a v .none => a ∉ DS.cfgAddrs ∧ ¬ (a = 0x7E ∧ v = 0xB6#8)
  | .wr a v .reset => a = 0x7E ∧ v = 0xB6#8
  | _ => True

theorem defaults_eq_reset : ∀ x ∈ DS.cfgAddrs, shadowDefault x = DS.resetVal x := by decide

theorem coherent_write (sh : Regs) (c : Chip) (a : Nat) (v : Byte) (e : Eff) (hok : ActOk (.wr a v e))
    (hco : Coherent sh c.regs) : Coherent (applyEff sh a v e) (c.write a v).regs := by
  intro x hx
  have hxr := cfg_lt_128 x hx
  cases e with
  | commit =>
    have ha := cfg_lt_128 a hok
    simp only [applyEff, Chip.write, Regs.set]
    have h1 : ¬ a = 0x7E := by omega
    have h2 : ¬ (a < 0x19 ∨ a ≥ 0x80) := by omega
    simp only [h1, h2, if_false]
    by_cases hxa : x = a
    · simp [hxa]
    · simp [hxa]; exact hco x hx
  | none =>
    obtain ⟨h1, h2⟩ := hok
    simp only [applyEff, Chip.write]
    split
    · rename_i ha
      split
      · rename_i hv; exact absurd ⟨ha, hv⟩ h2
      · exact hco x hx
    · split
      · exact hco x hx
      · simp only [Regs.set]
        have : x ≠ a := fun e => h1 (e ▸ hx)
        simp [this]; exact hco x hx
  | reset =>
    obtain ⟨rfl, rfl⟩ := hok
    simp only [applyEff, Chip.write, if_true]
    have : x ≥ 0x19 := hxr.1
    simp [this, defaults_eq_reset x hx]

def Good (t : Transport) (w : World) : Prop :=
  Coherent w.shadow w.chip.regs ∧ (t = .spi → w.chip.csHigh = true ∧ w.chip.spiMode = true)

theorem coherent_same (sh : Regs) (c d : Chip) (h : Chip.Same c d) (hco : Coherent sh d.regs) : Coherent sh c.regs := by
  intro x hx; rw [h.1]; exact hco x hx

theorem odf_append (j1 j2 : List JEntry) :
    onlyDataFailures (j1 ++ j2) = (onlyDataFailures j1 && onlyDataFailures j2) := by
  simp [onlyDataFailures]

theorem csLow_props (c : Chip) (hcs : c.csHigh = true) :
    Chip.Same (c.raw .csLow).1 c ∧ (c.raw .csLow).1.csHigh = false ∧ (c.raw .csLow).1.spiMode = c.spiMode ∧
    (c.raw .csLow).1.winLen = 0 := by
  simp [Chip.raw, hcs, Chip.Same]

theorem csHigh_props (c : Chip) :
    Chip.Same (c.raw .csHigh).1 c ∧ (c.raw .csHigh).1.csHigh = true ∧ (c.raw .csHigh).1.spiMode = true := by
  simp [Chip.raw, Chip.Same]

/-- the two header bytes of a read leave the registers alone -/
theorem read_header_same (c : Chip) (a : Nat) (hcs : c.csHigh = true) (ha : a < 128) :
    Chip.Same ((c.raw .csLow).1.raw (.spiTransfer [BitVec.ofNat 8 a ||| 0x80#8, 0#8])).1 c := by
  simp [Chip.raw, hcs, Chip.clockAll, Chip.clock, bit7r a ha, Chip.Same]

theorem C16_exec (t : Transport) (fails : Nat → Bool) (acts : List Act) (hwf : ActsWf acts)
    (hok : ∀ a ∈ acts, ActOk a) :
    ∀ (w : World) (reads : List (List Byte)), Good t w →
      onlyDataFailures (exec t fails w acts reads).1 = true → Good t (exec t fails w acts reads).2.1 := by
  induction acts with
  | nil => intro w reads hg _; exact hg
  | cons act rest ih =>
    intro w reads hg
    obtain ⟨h1, h2⟩ := ActsWf_cons hwf
    have hok1 := hok act (by simp)
    have hok2 : ∀ a ∈ rest, ActOk a := fun a ha => hok a (by simp [ha])
    obtain ⟨hco, hspi⟩ := hg
    cases t with
    | i2c dev =>
      cases act with
      | wr a v e =>
        simp only [exec, writeRegister_i2c, chipIf]
        cases f0 : fails w.idx
        · simp only [Bool.not_false, if_true, odf_append]
          intro hj
          simp at hj
          apply ih h2 hok2 _ _ ⟨?_, by intro h; cases h⟩ hj.2
          simp only [Chip.raw, toNat_ofNat_lt a h1]
          exact coherent_write _ _ _ _ _ hok1 hco
        · simp only [Bool.not_true, Bool.false_eq_true, if_false]
          intro _; exact ⟨hco, by intro h; cases h⟩
      | rd a n =>
        simp only [exec, readRegister_i2c, chipIf]
        cases f0 : fails w.idx
        · simp only [Bool.not_false, if_true, odf_append]
          intro hj
          simp at hj
          apply ih h2 hok2 _ _ ⟨?_, by intro h; cases h⟩ hj.2
          simp only [Chip.raw]; exact hco
        · simp only [Bool.not_true, Bool.false_eq_true, if_false]
          intro _; exact ⟨hco, by intro h; cases h⟩
      | delay ms =>
        simp only [exec]
        intro hj
        have : onlyDataFailures (exec (.i2c dev) fails w rest reads).1 = true := by
          simpa [onlyDataFailures] using hj
        exact ih h2 hok2 w reads ⟨hco, hspi⟩ this
    | spi =>
      obtain ⟨hcs, hsm⟩ := hspi rfl
      cases act with
      | wr a v e =>
        obtain ⟨s1, s2, s3, _⟩ := spi_write_window w.chip a v hcs h1
        simp only [exec, writeRegister_spi, chipIf]
        cases f0 : fails w.idx <;> cases f1 : fails (w.idx + 1) <;> cases f2 : fails (w.idx + 2) <;>
          simp [onlyDataFailures]
        · -- no failure: the window is the register write
          intro hj
          have hj' : onlyDataFailures (exec .spi fails
              { chip := (((w.chip.raw .csLow).1.raw (.spiWrite [BitVec.ofNat 8 a, v])).1.raw .csHigh).1,
                shadow := applyEff w.shadow a v e, idx := w.idx + 3 } rest reads).1 = true := by
            simpa [onlyDataFailures] using hj
          exact ih h2 hok2 _ _ ⟨coherent_same _ _ _ s1 (coherent_write _ _ _ _ _ hok1 hco), fun _ => ⟨s2, s3⟩⟩ hj'
        · -- the data operation failed, the release worked: nothing applied, chip-select high
          obtain ⟨l1, _, _, _⟩ := csLow_props w.chip hcs
          obtain ⟨g1, g2, g3⟩ := csHigh_props (w.chip.raw .csLow).1
          exact ⟨coherent_same _ _ _ (g1.trans l1) hco, fun _ => ⟨g2, g3⟩⟩
      | rd a n =>
        obtain ⟨s0, s1, s2, s3, _⟩ := spi_read_window w.chip a n hcs hsm h1
        simp only [exec, readRegister_spi, chipIf]
        cases f0 : fails w.idx <;> cases f1 : fails (w.idx + 1) <;> cases f2 : fails (w.idx + 2) <;>
          cases f3 : fails (w.idx + 3) <;> simp [onlyDataFailures]
        · intro hj
          have hj' : onlyDataFailures (exec .spi fails
              { chip := ((((w.chip.raw .csLow).1.raw (.spiTransfer [BitVec.ofNat 8 a ||| 0x80#8, 0#8])).1.raw
                    (.spiTransfer (List.replicate n 0#8))).1.raw .csHigh).1,
                shadow := w.shadow, idx := w.idx + 4 } rest
              (reads ++ [(((w.chip.raw .csLow).1.raw (.spiTransfer [BitVec.ofNat 8 a ||| 0x80#8, 0#8])).1.raw
                    (.spiTransfer (List.replicate n 0#8))).2])).1 = true := by
            simpa [onlyDataFailures] using hj
          exact ih h2 hok2 _ _ ⟨coherent_same _ _ _ s1 hco, fun _ => ⟨s2, s3⟩⟩ hj'
        all_goals
          first
          | (obtain ⟨g1, g2, g3⟩ := csHigh_props ((w.chip.raw .csLow).1.raw (.spiTransfer [BitVec.ofNat 8 a ||| 0x80#8, 0#8])).1
             exact ⟨coherent_same _ _ _ (g1.trans (read_header_same w.chip a hcs h1)) hco, fun _ => ⟨g2, g3⟩⟩)
          | (obtain ⟨l1, _, _, _⟩ := csLow_props w.chip hcs
             obtain ⟨g1, g2, g3⟩ := csHigh_props (w.chip.raw .csLow).1
             exact ⟨coherent_same _ _ _ (g1.trans l1) hco, fun _ => ⟨g2, g3⟩⟩)
      | delay ms =>
        simp only [exec]
        intro hj
        have : onlyDataFailures (exec .spi fails w rest reads).1 = true := by
          simpa [onlyDataFailures] using hj
        exact ih h2 hok2 w reads ⟨hco, hspi⟩ this

/-- every operation's plan is made of well-formed actions -/
theorem plan_ok (sh : Regs) (op : Op) : ∀ a ∈ (op.plan sh).acts, ActOk a := by
  intro act hact
  cases op with
  | config q =>
    simp only [Op.plan] at hact
    split at hact
    · simp at hact
    · rename_i ws hs
      simp only [List.mem_map] at hact
      obtain ⟨w, hw, rfl⟩ := hact
      exact script_addr_cfg q sh ws hs w hw
  | readFifo n =>
    simp only [Op.plan] at hact
    split at hact <;> simp at hact
    subst hact; trivial
  | selfTest =>
    simp only [Op.plan, selfTestActs] at hact
    simp at hact
    rcases hact with h | h | h | h | h | h | h | h | h | h | h | h | h | h | h | h | h | h | h | h | h <;>
      (subst h; simp [ActOk, R.selftest_trunc, R.trunc]; try decide)
  | softReset =>
    simp only [Op.plan] at hact
    simp at hact
    rcases hact with h | h <;> (subst h; simp [ActOk, R.cmd_SoftReset])
  | flushFifo => simp only [Op.plan] at hact; simp at hact; subst hact; simp [ActOk, R.cmd_FlushFifo]; decide
  | clearStepCount => simp only [Op.plan] at hact; simp at hact; subst hact; simp [ActOk, R.cmd_ClearStepCount]; decide
  | _ =>
    simp only [Op.plan] at hact
    simp at hact
    subst hact; trivial

theorem ctor_ok (c : Ctor) : ∀ a ∈ c.acts, ActOk a := by
  intro act hact
  cases c <;> simp [Ctor.acts] at hact
  · subst hact; trivial
  · subst hact; trivial
  · rcases hact with h | h
    · subst h; trivial
    · subst h; simp [ActOk, flag, R.ifc_SPI3]; decide

/-- C16 for every API call: whatever the outcome (Ok, rejected, bus error at any data
    operation), the belief is true afterwards and the next access starts cleanly -/
theorem C16_runOp (t : Transport) (fails : Nat → Bool) (w : World) (op : Op) (hg : Good t w)
    (hd : onlyDataFailures (runOp t fails w op).1 = true) : Good t (runOp t fails w op).2.1 := by
  unfold runOp at hd ⊢
  simp only at hd ⊢
  split
  · exact hg
  · have := C16_exec t fails (op.plan w.shadow).acts (plan_wf _ op) (plan_ok _ op) { w with idx := 0 } [] hg
    rename_i hguard
    simp only [hguard] at hd
    split <;> rename_i hx <;> simp only [hx] at this hd ⊢ <;> exact this hd

/-- and it holds for a freshly constructed driver on a chip at its power-on values -/
theorem C16_init (dev : Nat) (fails : Nat → Bool) (chip : Chip) (c : Ctor)
    (hreset : ∀ x ∈ DS.cfgAddrs, chip.regs x = DS.resetVal x) (hcs : chip.csHigh = true)
    (hd : onlyDataFailures (runCtor dev fails chip c).1 = true) (hnofault : ∀ i, fails i = false) :
    Good (c.transport dev) (runCtor dev fails chip c).2.1 := by
  have hf : fails = noFaults := by funext i; simp [hnofault]
  subst hf
  have hco : Coherent shadowDefault chip.regs := fun x hx => by rw [hreset x hx, defaults_eq_reset x hx]
  unfold runCtor
  simp only
  cases c with
  | newI2c =>
    have := C16_exec (.i2c dev) noFaults Ctor.newI2c.acts (ctor_wf _) (ctor_ok _) { chip := chip, shadow := shadowDefault } []
      ⟨hco, by intro h; cases h⟩
    unfold runCtor at hd; simp only [Ctor.transport] at hd ⊢
    split <;> rename_i hx <;> simp only [hx] at this hd ⊢ <;> exact this hd
  | newSpi =>
    -- the first (throw-away) access leaves I2C mode; from then on the SPI window lemmas apply
    simp only [Ctor.transport, Ctor.acts, exec, readRegister_spi, noFaults_apply, chipIf, Bool.false_eq_true, if_false,
      Bool.not_false, if_true]
    refine ⟨?_, fun _ => ?_⟩ <;> simp [Chip.raw, hcs, Chip.clockAll, Chip.clock, Coherent] <;>
      (try (intro x hx; exact hco x hx))
  | newSpi3 =>
    simp only [Ctor.transport, Ctor.acts, exec, readRegister_spi, writeRegister_spi, noFaults_apply, chipIf,
      Bool.false_eq_true, if_false, Bool.not_false, if_true]
    refine ⟨?_, fun _ => ?_⟩ <;> simp [Chip.raw, hcs, Chip.clockAll, Chip.clock, Coherent, applyEff, Chip.write, flag, R.ifc_SPI3] <;>
      (try (intro x hx; have := cfg_lt_128 x hx; simp [Regs.set, show x ≠ 124 by omega]; exact hco x hx))

end Thm
end Bma400
