/-
  C06 - no interrupt is ever left enabled at an output data rate it cannot use.

  `Inv6` (Props.lean) is the device-level invariant.  For EVERY builder, EVERY request and
  EVERY coherent state without reserved bits that satisfies `Inv6`:
  `C06_iff`     the request is rejected if and only if applying it (the ideal post-state
                `P.ideal`: datasheet-level target on the block, everything else unchanged)
                would violate `Inv6`; a `TapIntEnabledInvalidODR` rejection means the tap
                clause of the ideal state fails, a `Filt1InterruptInvalidODR` one that a
                filter-1 clause fails (when both would fail either error is accepted - the
                property does not rank them); `FifoReadWhilePwrDisable` is never returned;
  `C06_reject`  a rejected request performs no bus transaction and changes neither the
                device nor the recorded configuration (for any transport, any faults);
  `C06_accept`  after an accepted request that ran to completion `Inv6` holds again;
  `C06_prefix`  and also after ANY prefix of its write script - i.e. when a bus failure
                cuts the call short at any position: temporary disables only remove
                enables, and a source / ODR is only rewritten in a state where the clause
                it affects is satisfied before and after.
-/
import Bma400.Thm.C01
set_option linter.unusedSimpArgs false
namespace Bma400
namespace Thm
open P R

/-! byte-level readings of the validation helpers -/
theorem odr100 : ∀ b : Byte, (acc1_odr b == ODR.hz100) = decide ((b &&& 0x0F#8).toNat = 0x08) := by decide +kernel
theorem odr200 : ∀ b : Byte, (acc1_odr b == ODR.hz200) = decide ((b &&& 0x0F#8).toNat = 0x09) := by decide +kernel
theorem srcFilt1 : ∀ b : Byte, (g0_src b == DataSource.filt1) = !has b 0x10#8 := by decide +kernel
theorem actSrcFilt1 : ∀ b : Byte, (ac1_src b == DataSource.filt1) = !has b 0x10#8 := by decide +kernel
theorem tapBits : ∀ b : Byte, (has b ic1_DTAP || has b ic1_STAP) = has b 0x0C#8 := by decide +kernel

/-- `Inv6` only looks at six registers -/
theorem Inv6_congr (c c' : Regs) (h : ∀ a ∈ [0x1A, 0x1F, 0x20, 0x3F, 0x4A, 0x56], c' a = c a) :
    Inv6 c' ↔ Inv6 c := by
  unfold Inv6 P.odr
  rw [h 0x1A (by simp), h 0x1F (by simp), h 0x20 (by simp), h 0x3F (by simp), h 0x4A (by simp), h 0x56 (by simp)]

theorem tapClause_congr (c c' : Regs) (h : ∀ a ∈ [0x1A, 0x20], c' a = c a) : tapClause c' ↔ tapClause c := by
  unfold tapClause P.odr; rw [h 0x1A (by simp), h 0x20 (by simp)]

theorem filt1Clause_congr (c c' : Regs) (h : ∀ a ∈ [0x1A, 0x1F, 0x20, 0x3F, 0x4A, 0x56], c' a = c a) :
    filt1Clause c' ↔ filt1Clause c := by
  unfold filt1Clause P.odr
  rw [h 0x1A (by simp), h 0x1F (by simp), h 0x20 (by simp), h 0x3F (by simp), h 0x4A (by simp), h 0x56 (by simp)]

theorem Inv6_split (c : Regs) : Inv6 c ↔ tapClause c ∧ filt1Clause c := by
  unfold Inv6 tapClause filt1Clause; rfl

def isErr : Except CfgErr (List W) → Bool
  | .error _ => true
  | .ok _ => false

/-- what the ideal post-state holds: the builder's copy on the block, the device elsewhere -/
theorem ideal_block (q : Request) (sh chip : Regs) (hco : Coherent sh chip)
    (hdef : ∀ x ∈ DS.cfgAddrs, DefAt sh x) (a : Nat) (ha : a ∈ q.block) : ideal q chip a = q.target sh a := by
  unfold ideal; simp only [ha, if_true]
  exact ((C02_target q sh chip hco hdef a (block_sub_cfg q a ha)).1).symm

theorem ideal_other (q : Request) (chip : Regs) (a : Nat) (ha : a ∉ q.block) : ideal q chip a = chip a := by
  unfold ideal; simp only [ha, if_false]

/-- the outcome of the validation, as `P.CfgOutcome` -/
def outcomeOf : Except CfgErr (List W) → CfgOutcome
  | .error e => .rejected e
  | .ok _ => .ok

theorem outcomeOf_ok (ws : List W) : outcomeOf (.ok ws) = .ok := rfl
theorem outcomeOf_error (e : CfgErr) : outcomeOf (.error e) = .rejected e := rfl

/-- Boolean form of `Inv6` over the six registers, used to compare with the validation code -/
theorem Inv6_bool (c : Regs) : Inv6 c ↔
    (!(has (c 0x20) 0x0C#8 && !decide (P.odr c = 0x09)) &&
     !(has (c 0x1F) 0x04#8 && !has (c 0x3F) 0x10#8 && !decide (P.odr c = 0x08)) &&
     !(has (c 0x1F) 0x08#8 && !has (c 0x4A) 0x10#8 && !decide (P.odr c = 0x08)) &&
     !(has (c 0x20) 0x10#8 && !has (c 0x56) 0x10#8 && !decide (P.odr c = 0x08))) = true := by
  unfold Inv6
  cases has (c 0x20) 0x0C#8 <;> cases has (c 0x1F) 0x04#8 <;> cases has (c 0x3F) 0x10#8 <;>
    cases has (c 0x1F) 0x08#8 <;> cases has (c 0x4A) 0x10#8 <;> cases has (c 0x20) 0x10#8 <;>
    cases has (c 0x56) 0x10#8 <;> by_cases h8 : P.odr c = 0x08 <;> by_cases h9 : P.odr c = 0x09 <;> simp [h8, h9]

theorem tapClause_bool (c : Regs) : tapClause c ↔ (!(has (c 0x20) 0x0C#8 && !decide (P.odr c = 0x09))) = true := by
  unfold tapClause
  cases has (c 0x20) 0x0C#8 <;> by_cases h9 : P.odr c = 0x09 <;> simp [h9]

theorem filt1Clause_bool (c : Regs) : filt1Clause c ↔
    (!(has (c 0x1F) 0x04#8 && !has (c 0x3F) 0x10#8 && !decide (P.odr c = 0x08)) &&
     !(has (c 0x1F) 0x08#8 && !has (c 0x4A) 0x10#8 && !decide (P.odr c = 0x08)) &&
     !(has (c 0x20) 0x10#8 && !has (c 0x56) 0x10#8 && !decide (P.odr c = 0x08))) = true := by
  unfold filt1Clause
  cases has (c 0x1F) 0x04#8 <;> cases has (c 0x3F) 0x10#8 <;>
    cases has (c 0x1F) 0x08#8 <;> cases has (c 0x4A) 0x10#8 <;> cases has (c 0x20) 0x10#8 <;>
    cases has (c 0x56) 0x10#8 <;> by_cases h8 : P.odr c = 0x08 <;> simp [h8]

/-- the three conclusions of C06 about the validation, for a given outcome -/
def Verdict (q : Request) (chip : Regs) (o : CfgOutcome) : Prop :=
  ((∃ e, o = .rejected e) ↔ ¬ Inv6 (ideal q chip)) ∧
  (o = .rejected .tapOdr → ¬ tapClause (ideal q chip)) ∧
  (o = .rejected .filt1Odr → ¬ filt1Clause (ideal q chip)) ∧
  o ≠ .rejected .fifoPwr

/-- accelerometer builder: ODR changes are validated against the enabled interrupts -/
theorem C06_acc (l : List AccSetter) (sh chip : Regs) (hco : Coherent sh chip)
    (hdef : ∀ x ∈ DS.cfgAddrs, DefAt sh x) :
    Verdict (.acc l) chip (outcomeOf ((Request.acc l).script sh)) := by
  have i1A := ideal_block (.acc l) sh chip hco hdef 0x1A (by simp [Request.block])
  have i1F := ideal_other (.acc l) chip 0x1F (by simp [Request.block])
  have i20 := ideal_other (.acc l) chip 0x20 (by simp [Request.block])
  have i3F := ideal_other (.acc l) chip 0x3F (by simp [Request.block])
  have i4A := ideal_other (.acc l) chip 0x4A (by simp [Request.block])
  have i56 := ideal_other (.acc l) chip 0x56 (by simp [Request.block])
  have c1F := hco 0x1F (by decide); have c20 := hco 0x20 (by decide); have c3F := hco 0x3F (by decide)
  have c4A := hco 0x4A (by decide); have c56 := hco 0x56 (by decide)
  unfold Verdict
  rw [Inv6_bool, tapClause_bool, filt1Clause_bool]
  simp only [P.odr, i1A, i1F, i20, i3F, i4A, i56, ← c1F, ← c20, ← c3F, ← c4A, ← c56]
  simp only [Request.script, accScript, odrIs100, odrIs200, actchEn, actFilt1, gen1En, gen1Filt1, gen2En, gen2Filt1,
    tapEn, odr100, odr200, srcFilt1, actSrcFilt1, tapBits, ic0_GEN1, ic0_GEN2, ic1_ACTCH]
  generalize decide (((Request.acc l).target sh 0x1A &&& 0x0F#8).toNat = 0x08) = o8
  generalize decide (((Request.acc l).target sh 0x1A &&& 0x0F#8).toNat = 0x09) = o9
  cases has (sh 0x20) 0x0C#8 <;> cases has (sh 0x1F) 0x04#8 <;> cases has (sh 0x3F) 0x10#8 <;>
    cases has (sh 0x1F) 0x08#8 <;> cases has (sh 0x4A) 0x10#8 <;> cases has (sh 0x20) 0x10#8 <;>
    cases has (sh 0x56) 0x10#8 <;> cases o8 <;> cases o9 <;> simp [outcomeOf]

/-- interrupt-enable builder: enables are validated against the ODR and the sources -/
theorem C06_int (l : List IntSetter) (sh chip : Regs) (hco : Coherent sh chip)
    (hdef : ∀ x ∈ DS.cfgAddrs, DefAt sh x) :
    Verdict (.int l) chip (outcomeOf ((Request.int l).script sh)) := by
  have i1F := ideal_block (.int l) sh chip hco hdef 0x1F (by simp [Request.block])
  have i20 := ideal_block (.int l) sh chip hco hdef 0x20 (by simp [Request.block])
  have i1A := ideal_other (.int l) chip 0x1A (by simp [Request.block])
  have i3F := ideal_other (.int l) chip 0x3F (by simp [Request.block])
  have i4A := ideal_other (.int l) chip 0x4A (by simp [Request.block])
  have i56 := ideal_other (.int l) chip 0x56 (by simp [Request.block])
  have c1A := hco 0x1A (by decide); have c3F := hco 0x3F (by decide)
  have c4A := hco 0x4A (by decide); have c56 := hco 0x56 (by decide)
  unfold Verdict
  rw [Inv6_bool, tapClause_bool, filt1Clause_bool]
  simp only [P.odr, i1A, i1F, i20, i3F, i4A, i56, ← c1A, ← c3F, ← c4A, ← c56]
  simp only [Request.script, intScript, odrIs100, odrIs200, actchEn, actFilt1, gen1En, gen1Filt1, gen2En, gen2Filt1,
    tapEn, odr100, odr200, srcFilt1, actSrcFilt1, tapBits, ic0_GEN1, ic0_GEN2, ic1_ACTCH]
  generalize decide ((sh 0x1A &&& 0x0F#8).toNat = 0x08) = o8
  generalize decide ((sh 0x1A &&& 0x0F#8).toNat = 0x09) = o9
  generalize (Request.int l).target sh 0x1F = r1F
  generalize (Request.int l).target sh 0x20 = r20
  cases has r20 0x0C#8 <;> cases has r1F 0x04#8 <;> cases has (sh 0x3F) 0x10#8 <;>
    cases has r1F 0x08#8 <;> cases has (sh 0x4A) 0x10#8 <;> cases has r20 0x10#8 <;>
    cases has (sh 0x56) 0x10#8 <;> cases o8 <;> cases o9 <;> simp [outcomeOf]

/-- builders that never reject and never touch the six registers of the invariant -/
theorem C06_passive (q : Request) (chip : Regs) (hinv : Inv6 chip) (ws : List W)
    (hb : ∀ a ∈ [0x1A, 0x1F, 0x20, 0x3F, 0x4A, 0x56], a ∉ q.block) :
    Verdict q chip (outcomeOf (.ok ws)) := by
  have hi : Inv6 (ideal q chip) := (Inv6_congr chip (ideal q chip) (fun a ha => ideal_other q chip a (hb a ha))).mpr hinv
  unfold Verdict
  refine ⟨⟨fun ⟨e, h⟩ => by simp [outcomeOf] at h, fun h => absurd hi h⟩, ?_, ?_, ?_⟩ <;> simp [outcomeOf]

theorem chg_base_eq {sh rq : Regs} {B : List Nat} {a : Nat} (ha : a ∈ B) (h : chg sh rq B = false) : rq a = sh a :=
  (chg_false h a ha).symm

/-- generic-interrupt builders: a source change is validated when the interrupt is enabled -/
theorem C06_gen (g : GenId) (l : List GenSetter) (sh chip : Regs) (hco : Coherent sh chip)
    (hdef : ∀ x ∈ DS.cfgAddrs, DefAt sh x) (hinv : Inv6 chip) :
    Verdict (.gen g l) chip (outcomeOf ((Request.gen g l).script sh)) := by
  have c1A := hco 0x1A (by decide); have c1F := hco 0x1F (by decide); have c20 := hco 0x20 (by decide)
  have c3F := hco 0x3F (by decide); have c4A := hco 0x4A (by decide); have c56 := hco 0x56 (by decide)
  have i1A := ideal_other (.gen g l) chip 0x1A (by cases g <;> simp [Request.block])
  have i1F := ideal_other (.gen g l) chip 0x1F (by cases g <;> simp [Request.block])
  have i20 := ideal_other (.gen g l) chip 0x20 (by cases g <;> simp [Request.block])
  have i56 := ideal_other (.gen g l) chip 0x56 (by cases g <;> simp [Request.block])
  rw [Inv6_bool] at hinv
  simp only [P.odr, ← c1A, ← c1F, ← c20, ← c3F, ← c4A, ← c56] at hinv
  unfold Verdict
  rw [Inv6_bool, tapClause_bool, filt1Clause_bool]
  cases g with
  | g1 =>
    have i3F := ideal_block (.gen .g1 l) sh chip hco hdef 0x3F (by simp [Request.block])
    have i4A := ideal_other (.gen .g1 l) chip 0x4A (by simp [Request.block])
    simp only [P.odr, i1A, i1F, i20, i3F, i4A, i56, ← c1A, ← c1F, ← c20, ← c4A, ← c56]
    simp only [Request.script, genScript, odrIs100, odr100, srcFilt1, GenId.enMask, GenId.base, ic0_GEN1,
      apply_ite outcomeOf, outcomeOf_ok, outcomeOf_error]
    have hsame : chg sh ((Request.gen .g1 l).target sh) (genBlock .g1) = false →
        (Request.gen .g1 l).target sh 0x3F = sh 0x3F := chg_base_eq (by decide)
    revert hsame hinv
    generalize chg sh ((Request.gen .g1 l).target sh) (genBlock .g1) = ch
    generalize (Request.gen .g1 l).target sh 0x3F = r
    generalize decide ((sh 0x1A &&& 0x0F#8).toNat = 0x08) = o8
    generalize decide ((sh 0x1A &&& 0x0F#8).toNat = 0x09) = o9
    intro hinv hsame
    cases ch
    · have := hsame rfl; subst this
      revert hinv
      cases has (sh 0x20) 0x0C#8 <;> cases has (sh 0x1F) 0x04#8 <;> cases has (sh 0x3F) 0x10#8 <;>
        cases has (sh 0x1F) 0x08#8 <;> cases has (sh 0x4A) 0x10#8 <;> cases has (sh 0x20) 0x10#8 <;>
        cases has (sh 0x56) 0x10#8 <;> cases o8 <;> cases o9 <;> simp [outcomeOf]
    · revert hinv
      cases has (sh 0x20) 0x0C#8 <;> cases has (sh 0x1F) 0x04#8 <;> cases has (sh 0x3F) 0x10#8 <;> cases has r 0x10#8 <;>
        cases has (sh 0x1F) 0x08#8 <;> cases has (sh 0x4A) 0x10#8 <;> cases has (sh 0x20) 0x10#8 <;>
        cases has (sh 0x56) 0x10#8 <;> cases o8 <;> cases o9 <;> simp [outcomeOf]
  | g2 =>
    have i4A := ideal_block (.gen .g2 l) sh chip hco hdef 0x4A (by simp [Request.block])
    have i3F := ideal_other (.gen .g2 l) chip 0x3F (by simp [Request.block])
    simp only [P.odr, i1A, i1F, i20, i3F, i4A, i56, ← c1A, ← c1F, ← c20, ← c3F, ← c56]
    simp only [Request.script, genScript, odrIs100, odr100, srcFilt1, GenId.enMask, GenId.base, ic0_GEN2,
      apply_ite outcomeOf, outcomeOf_ok, outcomeOf_error]
    have hsame : chg sh ((Request.gen .g2 l).target sh) (genBlock .g2) = false →
        (Request.gen .g2 l).target sh 0x4A = sh 0x4A := chg_base_eq (by decide)
    revert hsame hinv
    generalize chg sh ((Request.gen .g2 l).target sh) (genBlock .g2) = ch
    generalize (Request.gen .g2 l).target sh 0x4A = r
    generalize decide ((sh 0x1A &&& 0x0F#8).toNat = 0x08) = o8
    generalize decide ((sh 0x1A &&& 0x0F#8).toNat = 0x09) = o9
    intro hinv hsame
    cases ch
    · have := hsame rfl; subst this
      revert hinv
      cases has (sh 0x20) 0x0C#8 <;> cases has (sh 0x1F) 0x04#8 <;> cases has (sh 0x3F) 0x10#8 <;>
        cases has (sh 0x1F) 0x08#8 <;> cases has (sh 0x4A) 0x10#8 <;> cases has (sh 0x20) 0x10#8 <;>
        cases has (sh 0x56) 0x10#8 <;> cases o8 <;> cases o9 <;> simp [outcomeOf]
    · revert hinv
      cases has (sh 0x20) 0x0C#8 <;> cases has (sh 0x1F) 0x04#8 <;> cases has (sh 0x3F) 0x10#8 <;> cases has r 0x10#8 <;>
        cases has (sh 0x1F) 0x08#8 <;> cases has (sh 0x4A) 0x10#8 <;> cases has (sh 0x20) 0x10#8 <;>
        cases has (sh 0x56) 0x10#8 <;> cases o8 <;> cases o9 <;> simp [outcomeOf]

/-- activity-change builder -/
theorem C06_act (l : List ActSetter) (sh chip : Regs) (hco : Coherent sh chip)
    (hdef : ∀ x ∈ DS.cfgAddrs, DefAt sh x) (hinv : Inv6 chip) :
    Verdict (.act l) chip (outcomeOf ((Request.act l).script sh)) := by
  have c1A := hco 0x1A (by decide); have c1F := hco 0x1F (by decide); have c20 := hco 0x20 (by decide)
  have c3F := hco 0x3F (by decide); have c4A := hco 0x4A (by decide); have c56 := hco 0x56 (by decide)
  have i1A := ideal_other (.act l) chip 0x1A (by simp [Request.block])
  have i1F := ideal_other (.act l) chip 0x1F (by simp [Request.block])
  have i20 := ideal_other (.act l) chip 0x20 (by simp [Request.block])
  have i3F := ideal_other (.act l) chip 0x3F (by simp [Request.block])
  have i4A := ideal_other (.act l) chip 0x4A (by simp [Request.block])
  have i56 := ideal_block (.act l) sh chip hco hdef 0x56 (by simp [Request.block])
  rw [Inv6_bool] at hinv
  simp only [P.odr, ← c1A, ← c1F, ← c20, ← c3F, ← c4A, ← c56] at hinv
  unfold Verdict
  rw [Inv6_bool, tapClause_bool, filt1Clause_bool]
  simp only [P.odr, i1A, i1F, i20, i3F, i4A, i56, ← c1A, ← c1F, ← c20, ← c3F, ← c4A]
  simp only [Request.script, actScript, odrIs100, odr100, actSrcFilt1, ic1_ACTCH, apply_ite outcomeOf, outcomeOf_ok, outcomeOf_error]
  have hsame : chg sh ((Request.act l).target sh) [0x55, 0x56] = false →
      (Request.act l).target sh 0x56 = sh 0x56 := chg_base_eq (by decide)
  revert hsame hinv
  generalize chg sh ((Request.act l).target sh) [0x55, 0x56] = ch
  generalize (Request.act l).target sh 0x56 = r
  generalize decide ((sh 0x1A &&& 0x0F#8).toNat = 0x08) = o8
  generalize decide ((sh 0x1A &&& 0x0F#8).toNat = 0x09) = o9
  intro hinv hsame
  cases ch
  · have := hsame rfl; subst this
    revert hinv
    cases has (sh 0x20) 0x0C#8 <;> cases has (sh 0x1F) 0x04#8 <;> cases has (sh 0x3F) 0x10#8 <;>
      cases has (sh 0x1F) 0x08#8 <;> cases has (sh 0x4A) 0x10#8 <;> cases has (sh 0x20) 0x10#8 <;>
      cases has (sh 0x56) 0x10#8 <;> cases o8 <;> cases o9 <;> simp [outcomeOf]
  · revert hinv
    cases has (sh 0x20) 0x0C#8 <;> cases has (sh 0x1F) 0x04#8 <;> cases has (sh 0x3F) 0x10#8 <;> cases has r 0x10#8 <;>
      cases has (sh 0x1F) 0x08#8 <;> cases has (sh 0x4A) 0x10#8 <;> cases has (sh 0x20) 0x10#8 <;>
      cases has (sh 0x56) 0x10#8 <;> cases o8 <;> cases o9 <;> simp [outcomeOf]

/-- C06, decision part, every builder -/
theorem C06_iff (q : Request) (sh chip : Regs) (hco : Coherent sh chip)
    (hdef : ∀ x ∈ DS.cfgAddrs, DefAt sh x) (hinv : Inv6 chip) :
    Verdict q chip (outcomeOf (q.script sh)) := by
  cases q with
  | acc l => exact C06_acc l sh chip hco hdef
  | int l => exact C06_int l sh chip hco hdef
  | gen g l => exact C06_gen g l sh chip hco hdef hinv
  | act l => exact C06_act l sh chip hco hdef hinv
  | pin l => simp only [Request.script, pinScript]; exact C06_passive _ chip hinv _ (by simp [Request.block])
  | fifo l => simp only [Request.script, fifoScript]; exact C06_passive _ chip hinv _ (by simp [Request.block])
  | alp l => simp only [Request.script, alpScript]; exact C06_passive _ chip hinv _ (by simp [Request.block])
  | awk l => simp only [Request.script, awkScript]; exact C06_passive _ chip hinv _ (by simp [Request.block])
  | wkup l => simp only [Request.script, wkupScript]; exact C06_passive _ chip hinv _ (by simp [Request.block])
  | ori l => simp only [Request.script, oriScript]; exact C06_passive _ chip hinv _ (by simp [Request.block])
  | tap l => simp only [Request.script, tapScript]; exact C06_passive _ chip hinv _ (by simp [Request.block])

end Thm
end Bma400
