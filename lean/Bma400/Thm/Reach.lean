/-
  Reach - the invariants every other theorem assumes hold in EVERY reachable state.

  Part A (`exec_prefix`): under ANY schedule of data-operation failures, over either transport,
  the run of an action list is the abstract run (`aexec`, Thm/C14) of a PREFIX of that list:
  the actions before the first failed one were applied and recorded, the failed one was neither
  applied nor recorded, nothing after it was attempted, chip-select is released.
-/
import Bma400.Thm.C16
import Bma400.Thm.C06b
import Bma400.Thm.C01
import Bma400.Thm.C07
import Bma400.Thm.C08
import Bma400.Thm.C03
import Bma400.Thm.C10
set_option linter.unusedSimpArgs false
namespace Bma400
namespace Thm
open P R

/-- the run `r` is the abstract run of the first `n` actions, from the device `c` -/
@[reducible] def IsPrefixRun (t : Transport) (r : List JEntry × World × Except Err (List (List Byte))) (c : Chip) (sh : Regs)
    (acts : List Act) (reads : List (List Byte)) (n : Nat) : Prop :=
  n ≤ acts.length ∧
  Chip.Same r.2.1.chip (aexec c sh (acts.take n) reads).1 ∧
  r.2.1.shadow = (aexec c sh (acts.take n) reads).2.1 ∧
  (t = .spi → r.2.1.chip.csHigh = true ∧ r.2.1.chip.spiMode = true) ∧
  (∀ out, r.2.2 = .ok out → n = acts.length ∧ out = (aexec c sh acts reads).2.2)

theorem exec_prefix (t : Transport) (fails : Nat → Bool) (acts : List Act) (hwf : ActsWf acts) :
    ∀ (w : World) (c : Chip) (reads : List (List Byte)), Chip.Same w.chip c →
      (t = .spi → w.chip.csHigh = true ∧ w.chip.spiMode = true) →
      onlyDataFailures (exec t fails w acts reads).1 = true →
      ∃ n, IsPrefixRun t (exec t fails w acts reads) c w.shadow acts reads n := by
  induction acts with
  | nil =>
    intro w c reads hs hspi _
    exact ⟨0, Nat.le_refl _, by simpa [exec, aexec] using hs, by simp [exec, aexec], by simpa [exec] using hspi,
      by intro out h; simp [exec] at h; simp [aexec, h]⟩
  | cons act rest ih =>
    intro w c reads hs hspi
    obtain ⟨h1, h2⟩ := ActsWf_cons hwf
    cases t with
    | i2c dev =>
      cases act with
      | wr a v e =>
        simp only [exec, writeRegister_i2c, chipIf]
        cases f0 : fails w.idx
        · simp only [Bool.not_false, if_true, odf_append]
          intro hj
          simp at hj
          have hs' : Chip.Same (w.chip.raw (.i2cWrite dev [BitVec.ofNat 8 a, v])).1 (c.write a v) := by
            simp only [Chip.raw, toNat_ofNat_lt a h1]; exact write_same _ _ hs a v
          obtain ⟨n, hn, p1, p2, p3, p4⟩ := ih h2
            { chip := (w.chip.raw (.i2cWrite dev [BitVec.ofNat 8 a, v])).1, shadow := applyEff w.shadow a v e, idx := w.idx + 1 }
            (c.write a v) reads hs' (by intro h; cases h) hj.2
          refine ⟨n + 1, ?_, ?_, ?_, ?_, ?_⟩
          · simp; omega
          · simpa [aexec] using p1
          · simpa [aexec] using p2
          · intro h; cases h
          · intro out ho
            have := p4 out (by simpa using ho)
            simpa [aexec] using this
        · simp only [Bool.not_true, Bool.false_eq_true, if_false]
          intro _
          refine ⟨0, Nat.zero_le _, ?_, ?_, ?_, ?_⟩
          · simpa [aexec] using hs
          · simp [aexec]
          · intro h; cases h
          · intro out h; simp at h
      | rd a n =>
        simp only [exec, readRegister_i2c, chipIf]
        cases f0 : fails w.idx
        · simp only [Bool.not_false, if_true, odf_append]
          intro hj
          simp at hj
          have hb : (w.chip.raw (.i2cWriteRead dev [BitVec.ofNat 8 a] n)).2 = c.burst a n := by
            simp only [Chip.raw, toNat_ofNat_lt a h1]; exact burst_same _ _ hs a n
          have hs' : Chip.Same (w.chip.raw (.i2cWriteRead dev [BitVec.ofNat 8 a] n)).1 c := by
            simp only [Chip.raw]; exact hs
          obtain ⟨m, hn, p1, p2, p3, p4⟩ := ih h2
            { chip := (w.chip.raw (.i2cWriteRead dev [BitVec.ofNat 8 a] n)).1, shadow := w.shadow, idx := w.idx + 1 }
            c (reads ++ [(w.chip.raw (.i2cWriteRead dev [BitVec.ofNat 8 a] n)).2]) hs' (by intro h; cases h) hj.2
          refine ⟨m + 1, ?_, ?_, ?_, ?_, ?_⟩
          · simp; omega
          · simpa [aexec, ← hb] using p1
          · simpa [aexec, ← hb] using p2
          · intro h; cases h
          · intro out ho
            have := p4 out (by simpa using ho)
            simpa [aexec, ← hb] using this
        · simp only [Bool.not_true, Bool.false_eq_true, if_false]
          intro _
          refine ⟨0, Nat.zero_le _, ?_, ?_, ?_, ?_⟩
          · simpa [aexec] using hs
          · simp [aexec]
          · intro h; cases h
          · intro out h; simp at h
      | delay ms =>
        simp only [exec]
        intro hj
        have hj' : onlyDataFailures (exec (.i2c dev) fails w rest reads).1 = true := by
          simpa [onlyDataFailures] using hj
        obtain ⟨m, hn, p1, p2, p3, p4⟩ := ih h2 w c reads hs hspi hj'
        refine ⟨m + 1, ?_, ?_, ?_, ?_, ?_⟩
        · simp; omega
        · simpa [aexec] using p1
        · simpa [aexec] using p2
        · intro h; cases h
        · intro out ho
          have := p4 out (by simpa using ho)
          simpa [aexec] using this
    | spi =>
      obtain ⟨hcs, hsm⟩ := hspi rfl
      cases act with
      | wr a v e =>
        obtain ⟨s1, s2, s3, _⟩ := spi_write_window w.chip a v hcs h1
        simp only [exec, writeRegister_spi, chipIf]
        cases f0 : fails w.idx <;> cases f1 : fails (w.idx + 1) <;> cases f2 : fails (w.idx + 2) <;>
          simp [onlyDataFailures]
        · intro hj
          have hj' : onlyDataFailures (exec .spi fails
              { chip := (((w.chip.raw .csLow).1.raw (.spiWrite [BitVec.ofNat 8 a, v])).1.raw .csHigh).1,
                shadow := applyEff w.shadow a v e, idx := w.idx + 3 } rest reads).1 = true := by
            simpa [onlyDataFailures] using hj
          obtain ⟨n, hn, p1, p2, p3, p4⟩ := ih h2
            { chip := (((w.chip.raw .csLow).1.raw (.spiWrite [BitVec.ofNat 8 a, v])).1.raw .csHigh).1,
              shadow := applyEff w.shadow a v e, idx := w.idx + 3 }
            (c.write a v) reads (s1.trans (write_same _ _ hs a v)) (fun _ => ⟨s2, s3⟩) hj'
          refine ⟨n + 1, ?_, ?_, ?_, ?_, ?_⟩
          · simp; omega
          · simpa [aexec] using p1
          · simpa [aexec] using p2
          · simpa using p3
          · intro out ho
            have := p4 out (by simpa using ho)
            simpa [aexec] using this
        · -- the data operation failed, the release worked: nothing applied, chip-select high
          obtain ⟨l1, _, _, _⟩ := csLow_props w.chip hcs
          obtain ⟨g1, g2, g3⟩ := csHigh_props (w.chip.raw .csLow).1
          refine ⟨0, Nat.zero_le _, ?_, ?_, fun _ => ⟨g2, g3⟩, ?_⟩
          · simpa [aexec] using (g1.trans l1).trans hs
          · simp [aexec]
          · intro out h; simp at h
      | rd a n =>
        obtain ⟨s0, s1, s2, s3, _⟩ := spi_read_window w.chip a n hcs hsm h1
        simp only [exec, readRegister_spi, chipIf]
        cases f0 : fails w.idx <;> cases f1 : fails (w.idx + 1) <;> cases f2 : fails (w.idx + 2) <;>
          cases f3 : fails (w.idx + 3) <;> simp [onlyDataFailures]
        · intro hj
          have hj' : onlyDataFailures (exec .spi fails
              { chip := ((((w.chip.raw .csLow).1.raw (.spiTransfer [BitVec.ofNat 8 a ||| 0x80#8, 0#8])).1.raw
                    (.spiTransfer (List.replicate n 0#8))).1.raw .csHigh).1,
                shadow := w.shadow, idx := w.idx + 4 } rest
              (reads ++ [(((w.chip.raw .csLow).1.raw (.spiTransfer [BitVec.ofNat 8 a ||| 0x80#8, 0#8])).1.raw
                    (.spiTransfer (List.replicate n 0#8))).2])).1 = true := by
            simpa [onlyDataFailures] using hj
          have hb : (((w.chip.raw .csLow).1.raw (.spiTransfer [BitVec.ofNat 8 a ||| 0x80#8, 0#8])).1.raw
                    (.spiTransfer (List.replicate n 0#8))).2 = c.burst a n := by
            rw [s0]; exact burst_same _ _ hs a n
          obtain ⟨m, hn, p1, p2, p3, p4⟩ := ih h2
            { chip := ((((w.chip.raw .csLow).1.raw (.spiTransfer [BitVec.ofNat 8 a ||| 0x80#8, 0#8])).1.raw
                    (.spiTransfer (List.replicate n 0#8))).1.raw .csHigh).1,
              shadow := w.shadow, idx := w.idx + 4 }
            c (reads ++ [(((w.chip.raw .csLow).1.raw (.spiTransfer [BitVec.ofNat 8 a ||| 0x80#8, 0#8])).1.raw
                    (.spiTransfer (List.replicate n 0#8))).2]) (s1.trans hs) (fun _ => ⟨s2, s3⟩) hj'
          refine ⟨m + 1, ?_, ?_, ?_, ?_, ?_⟩
          · simp; omega
          · simpa [aexec, ← hb] using p1
          · simpa [aexec, ← hb] using p2
          · simpa using p3
          · intro out ho
            have := p4 out (by simpa using ho)
            simpa [aexec, ← hb] using this
        all_goals
          first
          | (obtain ⟨g1, g2, g3⟩ := csHigh_props ((w.chip.raw .csLow).1.raw (.spiTransfer [BitVec.ofNat 8 a ||| 0x80#8, 0#8])).1
             refine ⟨0, Nat.zero_le _, ?_, ?_, fun _ => ⟨g2, g3⟩, ?_⟩
             · simpa [aexec] using (g1.trans (read_header_same w.chip a hcs h1)).trans hs
             · simp [aexec]
             · intro out h; simp at h)
          | (obtain ⟨l1, _, _, _⟩ := csLow_props w.chip hcs
             obtain ⟨g1, g2, g3⟩ := csHigh_props (w.chip.raw .csLow).1
             refine ⟨0, Nat.zero_le _, ?_, ?_, fun _ => ⟨g2, g3⟩, ?_⟩
             · simpa [aexec] using (g1.trans l1).trans hs
             · simp [aexec]
             · intro out h; simp at h)
      | delay ms =>
        simp only [exec]
        intro hj
        have hj' : onlyDataFailures (exec .spi fails w rest reads).1 = true := by
          simpa [onlyDataFailures] using hj
        obtain ⟨m, hn, p1, p2, p3, p4⟩ := ih h2 w c reads hs hspi hj'
        refine ⟨m + 1, ?_, ?_, ?_, ?_, ?_⟩
        · simp; omega
        · simpa [aexec] using p1
        · simpa [aexec] using p2
        · simpa using p3
        · intro out ho
          have := p4 out (by simpa using ho)
          simpa [aexec] using this

/-! ## Part B: the abstract run of any prefix keeps the invariants -/

theorem sub_trans (t c m : Byte) (h1 : t &&& ~~~c = 0#8) (h2 : c &&& ~~~m = 0#8) : t &&& ~~~m = 0#8 := by
  rw [sub_eq_and t c h1, BitVec.and_assoc, h2]; simp

/-- every value a builder sends is the requested value of that register or a sub-value of
    what the recorded configuration holds there (a temporary disable, or the restore) -/
theorem script_vals (q : Request) (sh : Regs) (ws : List W) (h : q.script sh = .ok ws) :
    ∀ w ∈ ws, w.val = q.target sh w.addr ∨ w.val &&& ~~~(sh w.addr) = 0#8 := by
  intro w hw
  have tmpsub : ∀ (d : Bool) (c m : Byte), (if d = true then clr c m else c) &&& ~~~c = 0#8 := by
    intro d c m; split
    · exact clr_sub c c m (sub_refl c)
    · exact sub_refl c
  cases q with
  | acc l =>
    simp only [Request.script, accScript] at h
    split at h; · cases h
    split at h; · cases h
    cases h
    exact Or.inl (mem_dws hw).2.1
  | int l =>
    simp only [Request.script, intScript] at h
    split at h; · cases h
    split at h; · cases h
    split at h; · cases h
    split at h; · cases h
    cases h
    exact Or.inl (mem_dws hw).2.1
  | pin l =>
    simp only [Request.script, pinScript] at h
    cases h
    simp only [List.mem_append] at hw
    rcases hw with ((((((hw | hw) | hw) | hw) | hw) | hw) | hw)
    · right; rw [(mem_wIf hw).2]; exact pinTmp0_sub sh _
    · right; rw [(mem_wIf hw).2]; exact pinTmp1_sub sh _
    · right; rw [(mem_wIf hw).2]; exact pinTmpW_sub sh _
    · exact Or.inl (mem_dws hw).2.1
    · right; rw [(mem_wIf hw).2]; exact sub_refl _
    · right; rw [(mem_wIf hw).2]; exact sub_refl _
    · right; rw [(mem_wIf hw).2]; exact sub_refl _
  | fifo l =>
    simp only [Request.script, fifoScript] at h
    cases h
    simp only [List.mem_append] at hw
    rcases hw with (((((hw | hw) | hw) | hw) | hw) | hw)
    · left; rw [(mem_dw hw).2.1, (mem_dw hw).1]
    · right; rw [(mem_wIf hw).2]; exact tmpsub _ _ _
    · left; rw [(mem_dw hw).2.1, (mem_dw hw).1]
    · left; rw [(mem_dw hw).2.1, (mem_dw hw).1]
    · right; rw [(mem_wIf hw).2]; exact sub_refl _
    · left; rw [(mem_dw hw).2.1, (mem_dw hw).1]
  | alp l =>
    simp only [Request.script, alpScript] at h
    cases h
    exact Or.inl (mem_dws hw).2.1
  | awk l =>
    simp only [Request.script, awkScript] at h
    cases h
    exact Or.inl (mem_dws hw).2.1
  | wkup l =>
    simp only [Request.script, wkupScript] at h
    cases h
    simp only [List.mem_append] at hw
    rcases hw with ((hw | hw) | hw)
    · right; rw [(mem_wIf hw).2]
      show (if _ then clr (clr (clr (sh 0x2F) wk0_X) wk0_Y) wk0_Z else sh 0x2F) &&& ~~~(sh 0x2F) = 0#8
      split
      · exact clr_sub _ _ _ (clr_sub _ _ _ (clr_sub _ _ _ (sub_refl _)))
      · exact sub_refl _
    · exact Or.inl (mem_dws hw).2.1
    · left; rw [(mem_wIf hw).2]
  | ori l =>
    simp only [Request.script, oriScript] at h
    cases h
    simp only [List.mem_append] at hw
    rcases hw with ((hw | hw) | hw)
    · right; rw [(mem_wIf hw).2]; exact tmpsub _ _ _
    · exact Or.inl (mem_dws hw).2.1
    · right; rw [(mem_wIf hw).2]; exact sub_refl _
  | gen g l =>
    simp only [Request.script, genScript] at h
    split at h
    · cases h; simp at hw
    split at h; · cases h
    cases h
    simp only [List.mem_append] at hw
    rcases hw with ((hw | hw) | hw)
    · right; rw [(mem_wIf hw).2]; exact tmpsub _ _ _
    · exact Or.inl (mem_dws hw).2.1
    · right; rw [(mem_wIf hw).2]; exact sub_refl _
  | act l =>
    simp only [Request.script, actScript] at h
    split at h
    · cases h; simp at hw
    split at h; · cases h
    cases h
    simp only [List.mem_append] at hw
    rcases hw with ((hw | hw) | hw)
    · right; rw [(mem_wIf hw).2]; exact tmpsub _ _ _
    · exact Or.inl (mem_dws hw).2.1
    · right; rw [(mem_wIf hw).2]; exact sub_refl _
  | tap l =>
    simp only [Request.script, tapScript] at h
    cases h
    simp only [List.mem_append] at hw
    rcases hw with ((hw | hw) | hw)
    · right; rw [(mem_wIf hw).2]
      show (if _ then clr (clr (sh 0x20) ic1_STAP) ic1_DTAP else sh 0x20) &&& ~~~(sh 0x20) = 0#8
      split
      · exact clr_sub _ _ _ (clr_sub _ _ _ (sub_refl _))
      · exact sub_refl _
    · exact Or.inl (mem_dws hw).2.1
    · right; rw [(mem_wIf hw).2]; exact sub_refl _

/-- ... hence no builder ever sends a value with a reserved bit set -/
theorem script_defined (q : Request) (sh : Regs) (hdef : ∀ x ∈ DS.cfgAddrs, DefAt sh x) (ws : List W)
    (h : q.script sh = .ok ws) : ∀ w ∈ ws, w.val &&& ~~~DS.definedMask w.addr = 0#8 := by
  intro w hw
  have hc := script_addr_cfg q sh ws h w hw
  rcases script_vals q sh ws h w hw with hv | hv
  · rw [hv]; exact (C02_target q sh sh (fun _ _ => rfl) hdef w.addr hc).2
  · exact sub_trans _ _ _ hv (hdef w.addr hc)

/-- recorded writes carry no reserved bit -/
def ActDef : Act → Prop
  | .wr a v .commit => v &&& ~~~DS.definedMask a = 0#8
  | _ => True

theorem defined_default : ∀ x ∈ DS.cfgAddrs, DefAt shadowDefault x := by unfold DefAt; decide

theorem aexec_defined (acts : List Act) (hd : ∀ a ∈ acts, ActDef a) :
    ∀ (c : Chip) (sh : Regs) (reads : List (List Byte)), (∀ x ∈ DS.cfgAddrs, DefAt sh x) →
      ∀ x ∈ DS.cfgAddrs, DefAt (aexec c sh acts reads).2.1 x := by
  induction acts with
  | nil => intro c sh reads h; exact h
  | cons act rest ih =>
    intro c sh reads h
    have hd1 := hd act (by simp)
    have hd2 : ∀ a ∈ rest, ActDef a := fun a ha => hd a (by simp [ha])
    cases act with
    | wr a v e =>
      simp only [aexec]
      apply ih hd2
      cases e with
      | none => exact h
      | reset => exact defined_default
      | commit =>
        intro x hx
        unfold DefAt applyEff
        simp only [Regs.set]
        split
        · rename_i hxa; subst hxa; exact hd1
        · exact h x hx
    | rd a n => simp only [aexec]; exact ih hd2 _ _ _ h
    | delay ms => simp only [aexec]; exact ih hd2 _ _ _ h

theorem aexec_coherent (acts : List Act) (hok : ∀ a ∈ acts, ActOk a) :
    ∀ (c : Chip) (sh : Regs) (reads : List (List Byte)), Coherent sh c.regs →
      Coherent (aexec c sh acts reads).2.1 (aexec c sh acts reads).1.regs := by
  induction acts with
  | nil => intro c sh reads h; exact h
  | cons act rest ih =>
    intro c sh reads h
    have h1 := hok act (by simp)
    have h2 : ∀ a ∈ rest, ActOk a := fun a ha => hok a (by simp [ha])
    cases act with
    | wr a v e => simp only [aexec]; exact ih h2 _ _ _ (coherent_write sh c a v e h1 h)
    | rd a n => simp only [aexec]; exact ih h2 _ _ _ h
    | delay ms => simp only [aexec]; exact ih h2 _ _ _ h

/-- the abstract run of a list of recorded configuration writes is `applyWrites` on both sides -/
theorem aexec_writes (ws : List W) (hcfg : ∀ w ∈ ws, w.addr ∈ DS.cfgAddrs) :
    ∀ (c : Chip) (sh : Regs) (reads : List (List Byte)),
      (aexec c sh (ws.map W.act) reads).1.regs = applyWrites c.regs ws ∧
      (aexec c sh (ws.map W.act) reads).2.1 = applyWrites sh ws := by
  induction ws with
  | nil => intro c sh reads; exact ⟨rfl, rfl⟩
  | cons w rest ih =>
    intro c sh reads
    have hw := cfg_lt_128 w.addr (hcfg w (by simp))
    have h2 : ∀ x ∈ rest, x.addr ∈ DS.cfgAddrs := fun x hx => hcfg x (by simp [hx])
    simp only [List.map, W.act, aexec, applyWrites, applyEff]
    have hcw : (c.write w.addr w.val) = { c with regs := c.regs.set w.addr w.val } := by
      unfold Chip.write
      have n1 : ¬ w.addr = 0x7E := by omega
      have n2 : ¬ (w.addr < 0x19 ∨ w.addr ≥ 0x80) := by omega
      simp [n1, n2]
    rw [hcw]
    exact ih h2 _ _ _

/-- the recorded (configuration) writes of an action list -/
def cw : List Act → List W
  | [] => []
  | .wr a v .commit :: r => ⟨a, v⟩ :: cw r
  | _ :: r => cw r

theorem cw_take (acts : List Act) : ∀ n, ∃ m, cw (acts.take n) = (cw acts).take m := by
  induction acts with
  | nil => intro n; exact ⟨0, by simp [cw]⟩
  | cons act rest ih =>
    intro n
    cases n with
    | zero => exact ⟨0, by simp [cw]⟩
    | succ n =>
      obtain ⟨m, hm⟩ := ih n
      cases act with
      | wr a v e =>
        cases e with
        | commit => exact ⟨m + 1, by simp [cw, hm]⟩
        | none => exact ⟨m, by simpa [cw] using hm⟩
        | reset => exact ⟨m, by simpa [cw] using hm⟩
      | rd a k => exact ⟨m, by simpa [cw] using hm⟩
      | delay ms => exact ⟨m, by simpa [cw] using hm⟩

theorem cw_map (ws : List W) : cw (ws.map W.act) = ws := by
  induction ws with
  | nil => rfl
  | cons w r ih => simp [W.act, cw, ih]

def NoReset (acts : List Act) : Prop := ∀ a v, Act.wr a v .reset ∉ acts

/-- on the configuration registers, the abstract run is `applyWrites` of the recorded writes -/
theorem aexec_cw (acts : List Act) (hok : ∀ a ∈ acts, ActOk a) (hnr : NoReset acts) :
    ∀ (c : Chip) (r sh : Regs) (reads : List (List Byte)), (∀ x ∈ DS.cfgAddrs, c.regs x = r x) →
      ∀ x ∈ DS.cfgAddrs, (aexec c sh acts reads).1.regs x = applyWrites r (cw acts) x := by
  induction acts with
  | nil => intro c r sh reads h; exact h
  | cons act rest ih =>
    intro c r sh reads h
    have h1 := hok act (by simp)
    have h2 : ∀ a ∈ rest, ActOk a := fun a ha => hok a (by simp [ha])
    have h3 : NoReset rest := fun a v hm => hnr a v (by simp [hm])
    cases act with
    | rd a n => simp only [aexec, cw]; exact ih h2 h3 _ _ _ _ h
    | delay ms => simp only [aexec, cw]; exact ih h2 h3 _ _ _ _ h
    | wr a v e =>
      cases e with
      | reset => exact absurd (by simp) (hnr a v)
      | commit =>
        simp only [aexec, cw, applyWrites]
        apply ih h2 h3
        intro x hx
        have ha := cfg_lt_128 a h1
        unfold Chip.write
        have n1 : ¬ a = 0x7E := by omega
        have n2 : ¬ (a < 0x19 ∨ a ≥ 0x80) := by omega
        simp only [n1, n2, if_false, Regs.set]
        split
        · rfl
        · exact h x hx
      | none =>
        simp only [aexec, cw]
        apply ih h2 h3
        intro x hx
        obtain ⟨g1, g2⟩ := h1
        unfold Chip.write
        split
        · rename_i ha
          split
          · rename_i hv; exact absurd ⟨ha, hv⟩ g2
          · exact h x hx
        · split
          · exact h x hx
          · have : x ≠ a := fun e => g1 (e ▸ hx)
            simp [Regs.set, this]; exact h x hx

theorem six_sub_cfg : ∀ a ∈ [0x1A, 0x1F, 0x20, 0x3F, 0x4A, 0x56], a ∈ DS.cfgAddrs := by decide

/-- if the recorded writes are safe from the device state, `Inv6` holds after the abstract run
    of EVERY prefix of the action list -/
theorem aexec_inv6 (acts : List Act) (hok : ∀ a ∈ acts, ActOk a) (hnr : NoReset acts) (c : Chip) (sh : Regs)
    (reads : List (List Byte)) (hs : Safe6 c.regs (cw acts)) (n : Nat) :
    Inv6 (aexec c sh (acts.take n) reads).1.regs := by
  obtain ⟨m, hm⟩ := cw_take acts n
  have hok' : ∀ a ∈ acts.take n, ActOk a := fun a ha => hok a (List.mem_of_mem_take ha)
  have hnr' : NoReset (acts.take n) := fun a v hmem => hnr a v (List.mem_of_mem_take hmem)
  have := aexec_cw (acts.take n) hok' hnr' c c.regs sh reads (fun _ _ => rfl)
  rw [Inv6_congr (applyWrites c.regs (cw (acts.take n))) _ (fun a ha => this a (six_sub_cfg a ha)), hm]
  exact Safe6_take _ _ m hs

/-! ### the self test -/

theorem st_bytes : ∀ b : Byte,
    (b &&& ~~~0xF6#8 = 0#8 → flag b awk1_WKUP_INT false &&& ~~~0xF6#8 = 0#8) ∧
    (flag (flag (flag b f0_X false) f0_Y false) f0_Z false &&& ~~~0xFF#8 = 0#8) ∧
    (b &&& ~~~0xE3#8 = 0#8 → acc0_with_power_mode b .normal &&& ~~~0xE3#8 = 0#8) := by decide +kernel

theorem selftest_def (sh : Regs) (hdef : ∀ x ∈ DS.cfgAddrs, DefAt sh x) : ∀ a ∈ selfTestActs sh, ActDef a := by
  intro act hact
  have d19 : sh 0x19 &&& ~~~0xE3#8 = 0#8 := hdef 0x19 (by decide)
  have d1A : sh 0x1A &&& ~~~0xFF#8 = 0#8 := hdef 0x1A (by decide)
  have d1F : sh 0x1F &&& ~~~0xEE#8 = 0#8 := hdef 0x1F (by decide)
  have d20 : sh 0x20 &&& ~~~0x9D#8 = 0#8 := hdef 0x20 (by decide)
  have d2D : sh 0x2D &&& ~~~0xF6#8 = 0#8 := hdef 0x2D (by decide)
  have d26 : sh 0x26 &&& ~~~0xFF#8 = 0#8 := hdef 0x26 (by decide)
  simp only [selfTestActs] at hact
  simp at hact
  rcases hact with h | h | h | h | h | h | h | h | h | h | h | h | h | h | h | h | h | h | h | h | h <;> subst h <;>
    simp only [ActDef, DS.definedMask, trunc] <;>
    first
    | trivial
    | exact d19 | exact d1A | exact d1F | exact d20 | exact d2D | exact d26
    | exact (st_bytes _).1 d2D
    | exact (st_bytes _).2.1
    | exact (st_bytes _).2.2 d19
    | decide

theorem Inv6_quiet (c : Regs) (h1 : c 0x1F = 0#8) (h2 : c 0x20 = 0#8) : Inv6 c := by
  unfold Inv6; rw [h1, h2]; simp [has]

theorem selftest_safe (sh chip : Regs) (hco : Coherent sh chip) (hinv : Inv6 chip) :
    Safe6 chip (cw (selfTestActs sh)) := by
  have c1A : sh 0x1A = chip 0x1A := hco 0x1A (by decide)
  have c1F : sh 0x1F = chip 0x1F := hco 0x1F (by decide)
  have c20 : sh 0x20 = chip 0x20 := hco 0x20 (by decide)
  simp only [selfTestActs, cw, Safe6]
  refine ⟨hinv, ?_, ?_, ?_, ?_, ?_, ?_, ?_, ?_, ?_, ?_, ?_, ?_⟩
  all_goals
    first
    | (apply Inv6_quiet
       · simp [Regs.set, trunc]
       · simp [Regs.set, trunc])
    | (apply Inv6_below chip _ _ hinv
       unfold Below
       simp [Regs.set, trunc, c1A, c1F, c20, sub_refl])

theorem Inv6_reset (r : Regs) : Inv6 (fun x => if x ≥ 0x19 then DS.resetVal x else r x) := by
  unfold Inv6 P.odr
  simp [DS.resetVal, has]

/-! ### every operation -/

/-- the three invariants the property theorems assume: the recorded configuration equals the
    device (`Coherent`), carries no reserved bit, and the device satisfies the ODR rule -/
structure AInv (c sh : Regs) : Prop where
  co : Coherent sh c
  de : ∀ x ∈ DS.cfgAddrs, DefAt sh x
  i6 : Inv6 c

theorem plan_def (sh : Regs) (hdef : ∀ x ∈ DS.cfgAddrs, DefAt sh x) (op : Op) : ∀ a ∈ (op.plan sh).acts, ActDef a := by
  intro act hact
  cases op with
  | config q =>
    simp only [Op.plan] at hact
    split at hact
    · simp at hact
    · rename_i ws hs
      simp only [List.mem_map] at hact
      obtain ⟨w, hw, rfl⟩ := hact
      exact script_defined q sh hdef ws hs w hw
  | readFifo n =>
    simp only [Op.plan] at hact
    split at hact <;> simp at hact
    subst hact; trivial
  | selfTest => exact selftest_def sh hdef act hact
  | softReset =>
    simp only [Op.plan] at hact
    simp at hact
    rcases hact with h | h <;> (subst h; trivial)
  | _ =>
    simp only [Op.plan] at hact
    simp at hact
    subst hact; trivial

/-- after the abstract run of ANY prefix of ANY operation's plan the invariants hold -/
theorem plan_prefix_inv (op : Op) (c : Chip) (sh : Regs) (h : AInv c.regs sh) (n : Nat) (reads : List (List Byte)) :
    AInv (aexec c sh ((op.plan sh).acts.take n) reads).1.regs (aexec c sh ((op.plan sh).acts.take n) reads).2.1 := by
  have hok : ∀ a ∈ (op.plan sh).acts.take n, ActOk a := fun a ha => plan_ok sh op a (List.mem_of_mem_take ha)
  have hdf : ∀ a ∈ (op.plan sh).acts.take n, ActDef a := fun a ha => plan_def sh h.de op a (List.mem_of_mem_take ha)
  refine ⟨aexec_coherent _ hok c sh reads h.co, aexec_defined _ hdf c sh reads h.de, ?_⟩
  by_cases hr : op = .softReset
  · subst hr
    simp only [Op.plan]
    rcases n with _ | _ | n
    · simpa [aexec] using h.i6
    · simp [aexec, Chip.write, cmd_SoftReset]; exact Inv6_reset _
    · simp [aexec, Chip.write, cmd_SoftReset]; exact Inv6_reset _
  · apply aexec_inv6 _ (plan_ok sh op)
    · intro a v hm
      cases op with
      | softReset => exact hr rfl
      | config q =>
        simp only [Op.plan] at hm
        split at hm
        · simp at hm
        · simp [W.act] at hm
      | selfTest => simp [Op.plan, selfTestActs] at hm
      | readFifo k => simp only [Op.plan] at hm; split at hm <;> simp at hm
      | _ => simp [Op.plan] at hm
    · cases op with
      | softReset => exact absurd rfl hr
      | config q =>
        simp only [Op.plan]
        split
        · simpa [cw, Safe6] using h.i6
        · rename_i ws hs
          rw [cw_map]
          exact C06_safe q sh c.regs h.co h.de h.i6 ws hs
      | selfTest => exact selftest_safe sh c.regs h.co h.i6
      | readFifo k => simp only [Op.plan]; split <;> simpa [cw, Safe6] using h.i6
      | _ => simpa [Op.plan, cw, Safe6] using h.i6

/-! ## Part C: every reachable state of the concrete driver + device -/

/-- the invariant of the concrete world: the three abstract invariants, and over SPI the
    interface is idle (chip-select high, chip in SPI mode) -/
def WInv (t : Transport) (w : World) : Prop :=
  AInv w.chip.regs w.shadow ∧ (t = .spi → w.chip.csHigh = true ∧ w.chip.spiMode = true)

/-- ONE API CALL, ANY OUTCOME: whatever the operation, whatever the schedule of data-operation
    failures (Ok, rejected, bus error anywhere), the invariants hold afterwards -/
theorem reach_step (t : Transport) (fails : Nat → Bool) (w : World) (op : Op) (h : WInv t w)
    (hd : onlyDataFailures (runOp t fails w op).1 = true) : WInv t (runOp t fails w op).2.1 := by
  unfold runOp at hd ⊢
  simp only at hd ⊢
  split
  · exact h
  · rename_i hguard
    simp only [hguard] at hd
    have hp := exec_prefix t fails (op.plan w.shadow).acts (plan_wf _ op) { w with idx := 0 } w.chip []
      (Chip.Same.refl _) h.2
    have key : onlyDataFailures (exec t fails { w with idx := 0 } (op.plan w.shadow).acts []).1 = true →
        WInv t (exec t fails { w with idx := 0 } (op.plan w.shadow).acts []).2.1 := by
      intro hj
      obtain ⟨n, _, p1, p2, p3, _⟩ := hp hj
      have := plan_prefix_inv op w.chip w.shadow h.1 n []
      refine ⟨?_, p3⟩
      rw [p1.1]
      simp only at p2
      rw [p2]
      exact this
    split <;> rename_i hx <;> simp only [hx] at key hd ⊢ <;> exact key hd

/-- a history: operations, each with its own fault schedule -/
def runHistory (t : Transport) : World → List (Op × (Nat → Bool)) → World
  | w, [] => w
  | w, (op, f) :: r => runHistory t (runOp t f w op).2.1 r

/-- no chip-select PIN operation fails anywhere in the history (data operations may) -/
def DataFaultsOnly (t : Transport) : World → List (Op × (Nat → Bool)) → Prop
  | _, [] => True
  | w, (op, f) :: r => onlyDataFailures (runOp t f w op).1 = true ∧ DataFaultsOnly t (runOp t f w op).2.1 r

instance decDFO (t : Transport) : (w : World) → (h : List (Op × (Nat → Bool))) → Decidable (DataFaultsOnly t w h)
  | _, [] => isTrue trivial
  | w, (op, f) :: r =>
    have := decDFO t (runOp t f w op).2.1 r
    by unfold DataFaultsOnly; exact inferInstance

/-- EVERY HISTORY of API calls - configuration requests accepted, rejected or cut by a bus
    error, self tests, resets, reads, commands, in any order and number - keeps the invariants -/
theorem reach (t : Transport) (h : List (Op × (Nat → Bool))) :
    ∀ w, WInv t w → DataFaultsOnly t w h → WInv t (runHistory t w h) := by
  induction h with
  | nil => intro w hw _; exact hw
  | cons x r ih =>
    intro w hw hd
    obtain ⟨op, f⟩ := x
    exact ih _ (reach_step t f w op hw hd.1) hd.2

theorem inv6_default : Inv6 shadowDefault := by decide

/-- ... starting from a freshly constructed driver on a chip at its power-on values -/
theorem reach_init (dev : Nat) (chip : Chip) (c : Ctor)
    (hreset : ∀ x ∈ DS.cfgAddrs, chip.regs x = DS.resetVal x) (hcs : chip.csHigh = true)
    (hd : onlyDataFailures (runCtor dev noFaults chip c).1 = true)
    (hsh : (runCtor dev noFaults chip c).2.1.shadow = shadowDefault) :
    WInv (c.transport dev) (runCtor dev noFaults chip c).2.1 := by
  obtain ⟨g1, g2⟩ := C16_init dev noFaults chip c hreset hcs hd (fun _ => rfl)
  refine ⟨⟨g1, ?_, ?_⟩, g2⟩
  · rw [hsh]; exact defined_default
  · rw [Inv6_congr shadowDefault _ (fun a ha => by rw [← g1 a (six_sub_cfg a ha), hsh])]
    exact inv6_default

/-- the recorded configuration of a fresh driver is the default one (no constructor records a write) -/
theorem ctor_shadow (dev : Nat) (chip : Chip) (c : Ctor) :
    (runCtor dev noFaults chip c).2.1.shadow = shadowDefault ∧
    onlyDataFailures (runCtor dev noFaults chip c).1 = true := by
  cases c <;>
    simp [runCtor, Ctor.transport, Ctor.acts, exec, readRegister_i2c, readRegister_spi, writeRegister_spi, noFaults_apply,
      chipIf, applyEff, onlyDataFailures] <;>
    (split <;> simp)

/-- the whole statement: construct, then any history -/
theorem reachable (dev : Nat) (chip : Chip) (c : Ctor) (h : List (Op × (Nat → Bool)))
    (hreset : ∀ x ∈ DS.cfgAddrs, chip.regs x = DS.resetVal x) (hcs : chip.csHigh = true)
    (hd : DataFaultsOnly (c.transport dev) (runCtor dev noFaults chip c).2.1 h) :
    WInv (c.transport dev) (runHistory (c.transport dev) (runCtor dev noFaults chip c).2.1 h) :=
  reach _ h _ (reach_init dev chip c hreset hcs (ctor_shadow dev chip c).2 (ctor_shadow dev chip c).1) hd

/-! ## Part D: the property theorems, with their hypotheses discharged on every reachable state -/

/-- a fault-free run over either transport from an idle interface is the abstract run -/
theorem exec_refines (t : Transport) (acts : List Act) (hwf : ActsWf acts) (w : World) (reads : List (List Byte))
    (hspi : t = .spi → w.chip.csHigh = true ∧ w.chip.spiMode = true) :
    Refines (exec t noFaults w acts reads) (aexec w.chip w.shadow acts reads) := by
  cases t with
  | i2c dev => exact exec_i2c_refines dev acts hwf w reads
  | spi => exact (exec_spi_refines acts hwf w reads (hspi rfl).1 (hspi rfl).2).1

/-- C01 / C02 / C06 / C08 for the CONCRETE call, in every reachable state: if the builder's
    validation accepts the request, the fault-free call returns Ok, the device afterwards holds
    exactly the datasheet-level target on the block and its previous content everywhere else
    (`P.C01`, `P.C02`), the ODR rule still holds, and the invariants hold again -/
theorem config_reachable (t : Transport) (w : World) (hw : WInv t w) (q : Request) (ws : List W)
    (h : q.script w.shadow = .ok ws) :
    let r := runOp t noFaults w (.config q)
    r.2.2 = .ok "" ∧
    P.C01 q w.chip.regs r.2.1.chip.regs ∧ P.C02 q w.chip.regs r.2.1.chip.regs ∧
    C08W q.block (DS.Request.spec q w.chip.regs) w.chip.regs ws ∧
    P.C07 w.chip.regs ws ∧
    r.2.1.shadow = applyWrites w.shadow ws := by
  intro r
  have hcfg := script_addr_cfg q w.shadow ws h
  have href := exec_refines t (ws.map W.act) (by
      have := plan_wf w.shadow (.config q); simpa [Op.plan, h] using this) { w with idx := 0 } [] hw.2
  obtain ⟨a1, a2⟩ := aexec_writes ws hcfg w.chip w.shadow []
  have hr : r = runOp t noFaults w (.config q) := rfl
  simp only [runOp, Op.plan, h] at hr
  rcases hx : exec t noFaults { w with idx := 0 } (ws.map W.act) [] with ⟨j, w', res⟩
  rw [hx] at href hr
  obtain ⟨r1, r2, r3⟩ := href
  cases res with
  | error e => exact absurd r3 (by simp)
  | ok reads =>
    simp only at hr r1 r2
    have e1 : r.2.1.chip.regs = applyWrites w.chip.regs ws := by rw [hr]; simp only; rw [r1.1, a1]
    have e2 : r.2.1.shadow = applyWrites w.shadow ws := by rw [hr]; simp only; rw [r2, a2]
    have spec := C01_spec q w.shadow w.chip.regs hw.1.co hw.1.de ws h
    refine ⟨by rw [hr]; simp [Op.finish, finishOutcome], ?_, ?_, ?_, ?_, e2⟩
    · rw [e1]; exact spec.1
    · rw [e1]; exact spec.2
    · exact C08_spec q w.shadow w.chip.regs hw.1.co hw.1.de ws h
    · exact C07_script q w.shadow w.chip.regs hw.1.co ws h

/-- a fault-free read-only call in a reachable state: result of the abstract run, device and
    recorded configuration untouched -/
theorem read_reachable (t : Transport) (w : World) (hw : WInv t w) (op : Op) (a n : Nat)
    (hplan : op.plan w.shadow = ⟨none, [.rd a n]⟩) :
    let r := runOp t noFaults w op
    r.2.2 = finishOutcome (op.finish w.shadow [w.chip.burst a n]) ∧
    Chip.Same r.2.1.chip w.chip ∧ r.2.1.shadow = w.shadow := by
  intro r
  have hwf := plan_wf w.shadow op
  rw [hplan] at hwf
  have href := exec_refines t [.rd a n] hwf { w with idx := 0 } [] hw.2
  have hr : r = runOp t noFaults w op := rfl
  simp only [runOp, hplan] at hr
  rcases hx : exec t noFaults { w with idx := 0 } [.rd a n] [] with ⟨j, w', res⟩
  rw [hx] at href hr
  obtain ⟨r1, r2, r3⟩ := href
  cases res with
  | error e => exact absurd r3 (by simp)
  | ok reads =>
    simp only [aexec] at hr r1 r2 r3
    subst r3
    rw [hr]
    simp only at r2 ⊢
    exact ⟨by rw [r2]; rfl, r1, r2⟩

/-- C03 in every reachable state, over either transport: `get_data()` returns the 12-bit
    two's-complement samples times the range THE DEVICE holds; nothing is changed -/
theorem data_reachable (t : Transport) (w : World) (hw : WInv t w) :
    (runOp t noFaults w .getData).2.2 = .ok (expectScaled w.chip.regs (w.chip.burst 4 6)) ∧
    (runOp t noFaults w .getUnscaled).2.2 = .ok (expectUnscaled (w.chip.burst 4 6)) := by
  have h1 := (read_reachable t w hw .getData 4 6 rfl).1
  have h2 := (read_reachable t w hw .getUnscaled 4 6 rfl).1
  have hb : w.chip.burst 4 6 = [w.chip.dataAt 4, w.chip.dataAt 5, w.chip.dataAt 6, w.chip.dataAt 7, w.chip.dataAt 8,
      w.chip.dataAt 9] := by simp [Chip.burst, List.range, List.range.loop]
  constructor
  · rw [h1, hb]
    simp only [Op.finish, C03_scaled w.shadow w.chip.regs (hw.1.co 0x1A (by decide)), Option.map, finishOutcome, expectScaled]
  · rw [h2, hb]
    simp only [Op.finish, C03_unscaled, Option.map, finishOutcome, expectUnscaled]

/-- C19 in every reachable state: the FIFO read is refused, without bus traffic, exactly when
    THE DEVICE has the read circuit disabled; otherwise one burst of the buffer length -/
theorem fifo_reachable (t : Transport) (w : World) (hw : WInv t w) (n : Nat) :
    (has (w.chip.regs 0x29) fpwr_READ_DISABLE = true →
      runOp t noFaults w (.readFifo n) = ([], { w with idx := 0 }, .err (.cfg .fifoPwr))) ∧
    (has (w.chip.regs 0x29) fpwr_READ_DISABLE = false →
      (runOp t noFaults w (.readFifo n)).2.2 = .ok (fmtFifo (w.chip.burst 0x14 n))) := by
  have hc : w.shadow 0x29 = w.chip.regs 0x29 := hw.1.co 0x29 (by decide)
  constructor
  · intro h
    simp [runOp, Op.plan, hc, h]
  · intro h
    have hp : (Op.readFifo n).plan w.shadow = ⟨none, [.rd 0x14 n]⟩ := by simp [Op.plan, hc, h]
    rw [(read_reachable t w hw (.readFifo n) 0x14 n hp).1]
    simp [Op.finish, finishOutcome]

/-- C10 in every reachable state, over either transport: the fault-free self test satisfies
    `P.C10` (procedure, settling, verdict, every register restored) and leaves the recorded
    configuration as it was -/
theorem selftest_reachable (t : Transport) (w : World) (hw : WInv t w) :
    let r := runOp t noFaults w .selfTest
    P.C10 w.chip.regs r.2.1.chip.regs w.chip.pos w.chip.neg ((selfTestActs w.shadow).map Act.acc) r.2.2 ∧
    (∀ a ∈ DS.cfgAddrs, r.2.1.shadow a = w.shadow a) := by
  intro r
  have habs := C10_abstract w.chip w.shadow hw.1.co
  have hres := C10_restore_any w.chip w.shadow hw.1.co
  have key : r.2.2 = finishOutcome (selfTestVerdict (aexec w.chip w.shadow (selfTestActs w.shadow) []).2.2) ∧
      Chip.Same r.2.1.chip (aexec w.chip w.shadow (selfTestActs w.shadow) []).1 ∧
      r.2.1.shadow = (aexec w.chip w.shadow (selfTestActs w.shadow) []).2.1 := by
    cases t with
    | i2c dev => exact (C10_i2c dev w).2
    | spi => exact (C10_spi w (hw.2 rfl).1 (hw.2 rfl).2).2
  obtain ⟨k1, k2, k3⟩ := key
  constructor
  · rw [k1, k2.1]; exact habs
  · intro a ha
    rw [k3]
    -- the recorded configuration equals the device before and after, and the device is restored
    have hco' := aexec_coherent (selfTestActs w.shadow) (plan_ok w.shadow .selfTest) w.chip w.shadow [] hw.1.co a ha
    rw [hco', hw.1.co a ha]
    have : a ≠ 0x7D := by have := cfg_lt_128 a ha; omega
    exact hres.1 a this

/-- non-vacuity: a concrete history over I2C - 200 Hz + tap interrupt, a self test cut by a bus
    error at its 8th raw operation, a rejected request, a reset - satisfies every hypothesis -/
def exChip : Chip := Chip.powerOn (fun _ => 0x90#8) [] [] []
def exHistory : List (Op × (Nat → Bool)) :=
  [(.config (.acc [.odr .hz200]), noFaults), (.config (.int [.sTap true]), noFaults),
   (.selfTest, fun i => i == 7), (.config (.acc [.odr .hz100]), noFaults), (.softReset, noFaults)]

example : WInv (.i2c 0x14) (runHistory (.i2c 0x14) (runCtor 0x14 noFaults exChip .newI2c).2.1 exHistory) :=
  reachable 0x14 exChip .newI2c exHistory (by decide) (by decide) (by decide)

end Thm
end Bma400
