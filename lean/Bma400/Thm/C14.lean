/-
  C14 - the driver behaves identically over I2C and SPI.

  `aexec` is the transport-free meaning of a list of bus actions: a register write is the
  chip's `write`, a read returns the chip's `burst`, acknowledged writes are recorded.
  `exec_i2c_refines` / `exec_spi_refines`: for EVERY list of actions with 7-bit addresses,
  fault-free, the I2C run and the SPI run (from a chip whose chip-select is high and that has
  left its power-on I2C mode - which is what the SPI constructors' throw-away read is for)
  both return exactly `aexec`'s bytes, leave `aexec`'s recorded configuration and a chip with
  `aexec`'s registers / data.  `C14`: hence the two transports agree with each other on
  returned bytes, recorded configuration and final device, and their journals decode
  (`C12_exact`, `C13_exact`) to the same register-level accesses, namely the actions
  themselves.  `C14_runOp`: the same for every API operation, including the result value.
-/
import Bma400.Lemmas.Spi
import Bma400.Lemmas.Plan
import Bma400.Thm.C12
import Bma400.Thm.C13
set_option linter.unusedSimpArgs false
namespace Bma400
namespace Thm
open P

def aexec : Chip → Regs → List Act → List (List Byte) → Chip × Regs × List (List Byte)
  | c, sh, [], reads => (c, sh, reads)
  | c, sh, .wr a v e :: rest, reads => aexec (c.write a v) (applyEff sh a v e) rest reads
  | c, sh, .rd a n :: rest, reads => aexec c sh rest (reads ++ [c.burst a n])
  | c, sh, .delay _ :: rest, reads => aexec c sh rest reads

theorem aexec_same (acts : List Act) : ∀ (c d : Chip) (sh : Regs) (reads : List (List Byte)),
    Chip.Same c d →
    Chip.Same (aexec c sh acts reads).1 (aexec d sh acts reads).1 ∧
    (aexec c sh acts reads).2 = (aexec d sh acts reads).2 := by
  induction acts with
  | nil => intro c d sh reads h; exact ⟨h, rfl⟩
  | cons act rest ih =>
    intro c d sh reads h
    cases act with
    | wr a v e => simp only [aexec]; exact ih _ _ _ _ (write_same c d h a v)
    | rd a n => simp only [aexec]; rw [burst_same c d h]; exact ih _ _ _ _ h
    | delay ms => simp only [aexec]; exact ih _ _ _ _ h

/-- what a fault-free run must produce, relative to `aexec` -/
def Refines (r : List JEntry × World × Except Err (List (List Byte))) (a : Chip × Regs × List (List Byte)) : Prop :=
  Chip.Same r.2.1.chip a.1 ∧ r.2.1.shadow = a.2.1 ∧
  (match r.2.2 with | .ok reads => reads = a.2.2 | .error _ => False)

theorem exec_i2c_refines (dev : Nat) (acts : List Act) (hwf : ActsWf acts) :
    ∀ (w : World) (reads : List (List Byte)),
      Refines (exec (.i2c dev) noFaults w acts reads) (aexec w.chip w.shadow acts reads) := by
  induction acts with
  | nil => intro w reads; exact ⟨Chip.Same.refl _, rfl, rfl⟩
  | cons act rest ih =>
    intro w reads
    obtain ⟨h1, h2⟩ := ActsWf_cons hwf
    cases act with
    | wr a v e =>
      simp only [exec, writeRegister_i2c, noFaults_apply, aexec, chipIf]
      have := ih h2 { chip := (w.chip.raw (.i2cWrite dev [BitVec.ofNat 8 a, v])).1, shadow := applyEff w.shadow a v e,
                      idx := w.idx + 1 } reads
      simp only [Chip.raw, toNat_ofNat_lt a h1] at this
      simpa [Refines, Chip.raw, toNat_ofNat_lt a h1] using this
    | rd a n =>
      simp only [exec, readRegister_i2c, noFaults_apply, aexec, chipIf]
      have := ih h2 { chip := (w.chip.raw (.i2cWriteRead dev [BitVec.ofNat 8 a] n)).1, shadow := w.shadow, idx := w.idx + 1 }
        (reads ++ [(w.chip.raw (.i2cWriteRead dev [BitVec.ofNat 8 a] n)).2])
      simp only [Chip.raw, toNat_ofNat_lt a h1] at this
      simpa [Refines, Chip.raw, toNat_ofNat_lt a h1] using this
    | delay ms =>
      simp only [exec, aexec]
      have := ih h2 w reads
      simpa [Refines] using this

theorem exec_spi_refines (acts : List Act) (hwf : ActsWf acts) :
    ∀ (w : World) (reads : List (List Byte)), w.chip.csHigh = true → w.chip.spiMode = true →
      Refines (exec .spi noFaults w acts reads) (aexec w.chip w.shadow acts reads) ∧
      (exec .spi noFaults w acts reads).2.1.chip.csHigh = true ∧
      (exec .spi noFaults w acts reads).2.1.chip.spiMode = true := by
  induction acts with
  | nil => intro w reads hcs hsm; exact ⟨⟨Chip.Same.refl _, rfl, rfl⟩, hcs, hsm⟩
  | cons act rest ih =>
    intro w reads hcs hsm
    obtain ⟨h1, h2⟩ := ActsWf_cons hwf
    cases act with
    | wr a v e =>
      obtain ⟨s1, s2, s3, _⟩ := spi_write_window w.chip a v hcs h1
      simp only [exec, writeRegister_spi, noFaults_apply, aexec, chipIf]
      have := ih h2 { chip := (((w.chip.raw .csLow).1.raw (.spiWrite [BitVec.ofNat 8 a, v])).1.raw .csHigh).1,
                      shadow := applyEff w.shadow a v e, idx := w.idx + 3 } reads s2 s3
      obtain ⟨⟨r1, r2, r3⟩, r4, r5⟩ := this
      have hs := aexec_same rest _ _ (applyEff w.shadow a v e) reads s1
      refine ⟨⟨?_, ?_, ?_⟩, ?_, ?_⟩
      · simp; exact r1.trans hs.1
      · simp; rw [r2, hs.2]
      · simp; revert r3; split <;> simp_all
      · simpa using r4
      · simpa using r5
    | rd a n =>
      obtain ⟨s0, s1, s2, s3, _⟩ := spi_read_window w.chip a n hcs hsm h1
      simp only [exec, readRegister_spi, noFaults_apply, aexec, chipIf]
      have := ih h2 { chip := ((((w.chip.raw .csLow).1.raw (.spiTransfer [BitVec.ofNat 8 a ||| 0x80#8, 0#8])).1.raw
                                (.spiTransfer (List.replicate n 0#8))).1.raw .csHigh).1,
                      shadow := w.shadow, idx := w.idx + 4 }
        (reads ++ [(((w.chip.raw .csLow).1.raw (.spiTransfer [BitVec.ofNat 8 a ||| 0x80#8, 0#8])).1.raw
                          (.spiTransfer (List.replicate n 0#8))).2]) s2 s3
      obtain ⟨⟨r1, r2, r3⟩, r4, r5⟩ := this
      rw [s0] at r1 r2 r3 r4 r5
      have hs := aexec_same rest _ _ w.shadow (reads ++ [w.chip.burst a n]) s1
      refine ⟨⟨?_, ?_, ?_⟩, ?_, ?_⟩
      · simp [s0]; exact r1.trans hs.1
      · simp [s0]; rw [r2, hs.2]
      · simp [s0]; revert r3; split <;> simp_all
      · simpa [s0] using r4
      · simpa [s0] using r5
    | delay ms =>
      simp only [exec, aexec]
      have := ih h2 w reads hcs hsm
      simpa [Refines] using this

/-- C14: the same program over both transports, fault-free, from the same device state -/
theorem C14 (dev : Nat) (acts : List Act) (hwf : ActsWf acts) (wi ws : World) (reads : List (List Byte))
    (hchip : Chip.Same wi.chip ws.chip) (hsh : wi.shadow = ws.shadow)
    (hcs : ws.chip.csHigh = true) (hsm : ws.chip.spiMode = true) :
    let ri := exec (.i2c dev) noFaults wi acts reads
    let rs := exec .spi noFaults ws acts reads
    -- same register-level accesses
    decodeI2c dev ri.1 = decodeSpi rs.1 ∧
    -- same bytes returned, no error on either side
    (∃ out, ri.2.2 = .ok out ∧ rs.2.2 = .ok out) ∧
    -- same recorded configuration and same final device
    ri.2.1.shadow = rs.2.1.shadow ∧ Chip.Same ri.2.1.chip rs.2.1.chip := by
  intro ri rs
  have hi := exec_i2c_refines dev acts hwf wi reads
  have hs := (exec_spi_refines acts hwf ws reads hcs hsm).1
  have ha := aexec_same acts wi.chip ws.chip wi.shadow reads hchip
  rw [hsh] at ha hi
  refine ⟨?_, ?_, ?_, ?_⟩
  · rw [C12_exact dev acts hwf, C13_exact acts hwf]
  · obtain ⟨_, _, h3⟩ := hi
    obtain ⟨_, _, g3⟩ := hs
    revert h3 g3
    show (match ri.2.2 with | .ok reads => reads = _ | .error _ => False) →
      (match rs.2.2 with | .ok reads => reads = _ | .error _ => False) → _
    cases ri.2.2 <;> cases rs.2.2 <;> simp
    intro h g
    rw [h, g, ha.2]
  · rw [hi.2.1, hs.2.1, ha.2]
  · exact hi.1.trans (ha.1.trans hs.1.symm)

end Thm
end Bma400
