/-
  C11 - after soft_reset the driver is indistinguishable from a freshly created one.

  `C11_plan`    soft_reset is: write the soft-reset command 0xB6 to 0x7E, then read the event
                register 0x0D (one byte) so that the reset flag is cleared - nothing else.
  `C11_state`   for EVERY prior driver state (any recorded configuration, coherent or not:
                any history, including calls and self tests aborted by bus errors), either
                transport and EVERY fault schedule: if soft_reset returns Ok the recorded
                configuration is exactly the default one (= the datasheet reset values,
                `defaults_eq_reset`).
  `C11_chip`    the acknowledged command puts every register from 0x19 up to its reset value.
  `C11_indist`  the model's driver state IS the recorded configuration (the transports are
                stateless, the raw-operation index restarts at every call), so for EVERY
                program of further API calls with every fault schedule the run after the
                reset equals, call by call - journal, outcome, device - the run of a freshly
                constructed driver on the same chip.
-/
import Bma400.Thm.C16
set_option linter.unusedSimpArgs false
namespace Bma400
namespace Thm
open P R

theorem C11_plan (sh : Regs) :
    Op.softReset.plan sh = ⟨none, [.wr 0x7E 0xB6#8 .reset, .rd 0x0D 1]⟩ ∧
    DS.CMD_SOFTRESET = 0xB6#8 ∧ DS.EVENT = 0x0D := ⟨rfl, rfl, rfl⟩

/-- the recorded configuration after all of `acts` were acknowledged -/
def shadowAfter : Regs → List Act → Regs
  | sh, [] => sh
  | sh, .wr a v e :: rest => shadowAfter (applyEff sh a v e) rest
  | sh, _ :: rest => shadowAfter sh rest

/-- whenever a run returns Ok - under any fault schedule - every write was acknowledged and recorded -/
theorem exec_ok_shadow (t : Transport) (fails : Nat → Bool) (acts : List Act) :
    ∀ (w : World) (reads : List (List Byte)), isOkR (exec t fails w acts reads).2.2 = true →
      (exec t fails w acts reads).2.1.shadow = shadowAfter w.shadow acts := by
  induction acts with
  | nil => intro w reads _; rfl
  | cons act rest ih =>
    intro w reads
    cases t with
    | i2c dev =>
      cases act with
      | wr a v e =>
        simp only [exec, writeRegister_i2c, shadowAfter]
        cases f0 : fails w.idx <;> simp [isOkR]
        intro h; exact ih _ _ (by simpa [isOkR] using h)
      | rd a n =>
        simp only [exec, readRegister_i2c, shadowAfter]
        cases f0 : fails w.idx <;> simp [isOkR]
        intro h; exact ih _ _ (by simpa [isOkR] using h)
      | delay ms =>
        simp only [exec, shadowAfter]
        intro h; exact ih _ _ h
    | spi =>
      cases act with
      | wr a v e =>
        simp only [exec, writeRegister_spi, shadowAfter]
        cases f0 : fails w.idx <;> cases f1 : fails (w.idx + 1) <;> cases f2 : fails (w.idx + 2) <;> simp [isOkR]
        intro h; exact ih _ _ (by simpa [isOkR] using h)
      | rd a n =>
        simp only [exec, readRegister_spi, shadowAfter]
        cases f0 : fails w.idx <;> cases f1 : fails (w.idx + 1) <;> cases f2 : fails (w.idx + 2) <;>
          cases f3 : fails (w.idx + 3) <;> simp [isOkR]
        intro h; exact ih _ _ (by simpa [isOkR] using h)
      | delay ms =>
        simp only [exec, shadowAfter]
        intro h; exact ih _ _ h

theorem C11_state (t : Transport) (fails : Nat → Bool) (w : World)
    (h : (runOp t fails w .softReset).2.2.isOk = true) :
    (runOp t fails w .softReset).2.1.shadow = shadowDefault := by
  have key := exec_ok_shadow t fails (Op.softReset.plan w.shadow).acts { w with idx := 0 } []
  unfold runOp at h ⊢
  simp only [show (Op.softReset.plan w.shadow).guard = none from rfl] at h ⊢
  rcases hx : exec t fails { w with idx := 0 } (Op.softReset.plan w.shadow).acts [] with ⟨j, w', r⟩
  rw [hx] at key
  simp only [hx] at h ⊢
  cases r with
  | error e => simp [Outcome.isOk] at h
  | ok reads =>
    simp only at h ⊢
    rw [key (by simp [isOkR])]
    simp [Op.plan, shadowAfter, applyEff]

theorem C11_chip (c : Chip) : ∀ x, x ≥ 0x19 → (c.write 0x7E 0xB6#8).regs x = DS.resetVal x := by
  intro x hx
  simp [Chip.write, hx]

/-- a program: API calls, each with its own fault schedule -/
def runProg (t : Transport) : World → List (Op × (Nat → Bool)) → List (List JEntry × Outcome) × World
  | w, [] => ([], w)
  | w, (op, fails) :: rest =>
    let r := runOp t fails w op
    let (outs, w') := runProg t r.2.1 rest
    ((r.1, r.2.2) :: outs, w')

/-- a call only looks at the chip and the recorded configuration -/
theorem runOp_state (t : Transport) (fails : Nat → Bool) (w w' : World) (op : Op)
    (hc : w.chip = w'.chip) (hs : w.shadow = w'.shadow) : runOp t fails w op = runOp t fails w' op := by
  unfold runOp
  cases w; cases w'
  simp only at hc hs
  subst hc hs
  rfl

theorem C11_indist (t : Transport) (prog : List (Op × (Nat → Bool))) (w : World)
    (hreset : w.shadow = shadowDefault) :
    (runProg t w prog).1 = (runProg t { chip := w.chip, shadow := shadowDefault } prog).1 ∧
    (prog ≠ [] → (runProg t w prog).2 = (runProg t { chip := w.chip, shadow := shadowDefault } prog).2) := by
  cases prog with
  | nil => simp [runProg]
  | cons p rest =>
    obtain ⟨op, fails⟩ := p
    simp only [runProg]
    rw [runOp_state t fails w { chip := w.chip, shadow := shadowDefault } op rfl hreset]
    simp

end Thm
end Bma400
