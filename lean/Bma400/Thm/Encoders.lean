/-
  Encoders - the register encoders of src/registers.rs, TRANSLATED from the source on every run
  (tools/gen_encoders.py -> Bma400/GeneratedEnc.lean, by symbolic evaluation of the bitflags
  expressions with the masks of the same file), are the model's encoders (Regs.lean) - which
  Thm/C02.lean proves equal to the datasheet field semantics.

  * 31 enum encoders: for ALL 256 register contents and every variant (Rust declaration order;
    the Lean constructor list next to each theorem is that order), model = translated
    `(self &&& keep) ||| set`, and `unreachable!()` arms are exactly the model's `none`;
  * 61 bool encoders: translated (keep, set) pairs are `union MASK` / `difference MASK` for the
    model's mask constant;
  * 38 numeric encoders: translated (argument type, body pattern, field mask, all-bits mask) is
    the expected one, the all-bits mask being the datasheet's defined mask of that register;
    the model's numeric encoders are those patterns (`sem*`, the reading of six Rust token
    patterns, is the trusted part).
  * 37 decoders (`fn(&self) -> bool | Enum`): the 32 `intersects(MASK)` tests use the model's mask
    constants; `scale()`, `odr()` and the three `src()` agree with the model on all 256 contents.
  The chain  source =(translator)= GeneratedEnc =(this file, kernel)= Regs.lean =(Thm/C02)=
  Datasheet.lean  ties C02 / C09's encoding layer to /repo's current text, not only to sampled
  runs; the builders' bookkeeping above it stays tied by the differential check.
-/
import Bma400.Regs
import Bma400.Datasheet
import Bma400.GeneratedEnc
namespace Bma400
namespace Thm
open R Generated

def applyKS (b : Byte) (ks : Nat × Nat) : Byte := (b &&& BitVec.ofNat 8 ks.1) ||| BitVec.ofNat 8 ks.2

/-- model encoder `f` (none = the API never passes that variant) agrees with the translated arms
    on all 256 register contents and all variants `vs` (Rust declaration order) -/
def agrees {α : Type} (vs : List α) (f : Byte → α → Option Byte) (arms : List (Option (Nat × Nat))) : Bool :=
  vs.length == arms.length &&
  (List.range 256).all fun n =>
    (vs.zip arms).all fun p => f (BitVec.ofNat 8 n) p.1 == p.2.map (applyKS (BitVec.ofNat 8 n))

/-- translated bool setter = union / difference of the mask `m`, as functions on all 256
    register contents (not as a representation: `self | m` may be written in many ways) -/
def isFlag (m : Byte) (g : (Nat × Nat) × (Nat × Nat)) : Bool :=
  (List.range 256).all fun n =>
    applyKS (BitVec.ofNat 8 n) g.1 == (BitVec.ofNat 8 n ||| m) && applyKS (BitVec.ofNat 8 n) g.2 == (BitVec.ofNat 8 n &&& ~~~m)

/-- AccConfig0::with_filt1_bw - High, Low -/
theorem enc_AccConfig0_with_filt1_bw : agrees (α := Filt1Bw) [.high, .low] (fun b v => some (R.acc0_with_filt1_bw b v)) Enc.AccConfig0_with_filt1_bw = true := by decide +kernel
/-- AccConfig0::with_osr_lp - OSR0, OSR1, OSR2, OSR3 -/
theorem enc_AccConfig0_with_osr_lp : agrees (α := OSR) [.osr0, .osr1, .osr2, .osr3] (fun b v => some (R.acc0_with_osr_lp b v)) Enc.AccConfig0_with_osr_lp = true := by decide +kernel
/-- AccConfig0::with_power_mode - Sleep, LowPower, Normal -/
theorem enc_AccConfig0_with_power_mode : agrees (α := PowerMode) [.sleep, .lowPower, .normal] (fun b v => some (R.acc0_with_power_mode b v)) Enc.AccConfig0_with_power_mode = true := by decide +kernel
/-- AccConfig1::with_scale - Range2G, Range4G, Range8G, Range16G -/
theorem enc_AccConfig1_with_scale : agrees (α := Scale) [.r2g, .r4g, .r8g, .r16g] (fun b v => some (R.acc1_with_scale b v)) Enc.AccConfig1_with_scale = true := by decide +kernel
/-- AccConfig1::with_osr - OSR0, OSR1, OSR2, OSR3 -/
theorem enc_AccConfig1_with_osr : agrees (α := OSR) [.osr0, .osr1, .osr2, .osr3] (fun b v => some (R.acc1_with_osr b v)) Enc.AccConfig1_with_osr = true := by decide +kernel
/-- AccConfig1::with_odr - Hz12_5, Hz25, Hz50, Hz100, Hz200, Hz400, Hz800 -/
theorem enc_AccConfig1_with_odr : agrees (α := ODR) [.hz12_5, .hz25, .hz50, .hz100, .hz200, .hz400, .hz800] (fun b v => some (R.acc1_with_odr b v)) Enc.AccConfig1_with_odr = true := by decide +kernel
/-- AccConfig2::with_dta_reg_src - AccFilt1, AccFilt2, AccFilt2Lp -/
theorem enc_AccConfig2_with_dta_reg_src : agrees (α := DataSource) [.filt1, .filt2, .filt2Lp] (fun b v => some (R.acc2_with_dta_reg_src b v)) Enc.AccConfig2_with_dta_reg_src = true := by decide +kernel
/-- Int12IOCtrl::with_int1_cfg - PushPull(ActiveLow), PushPull(ActiveHigh), OpenDrain(ActiveLow), OpenDrain(ActiveHigh) -/
theorem enc_Int12IOCtrl_with_int1_cfg : agrees (α := PinCfg) [.pushPull .activeLow, .pushPull .activeHigh, .openDrain .activeLow, .openDrain .activeHigh] (fun b v => some (R.io_with_int1_cfg b v)) Enc.Int12IOCtrl_with_int1_cfg = true := by decide +kernel
/-- Int12IOCtrl::with_int2_cfg - PushPull(ActiveLow), PushPull(ActiveHigh), OpenDrain(ActiveLow), OpenDrain(ActiveHigh) -/
theorem enc_Int12IOCtrl_with_int2_cfg : agrees (α := PinCfg) [.pushPull .activeLow, .pushPull .activeHigh, .openDrain .activeLow, .openDrain .activeHigh] (fun b v => some (R.io_with_int2_cfg b v)) Enc.Int12IOCtrl_with_int2_cfg = true := by decide +kernel
/-- FifoConfig0::with_fifo_src - AccFilt1, AccFilt2, AccFilt2Lp -/
theorem enc_FifoConfig0_with_fifo_src : agrees (α := DataSource) [.filt1, .filt2, .filt2Lp] (fun b v => R.f0_with_fifo_src b v) Enc.FifoConfig0_with_fifo_src = true := by decide +kernel
/-- AutoLowPow1::with_auto_lp_timeout_mode - TimeoutDisabled, TimeoutEnabledNoReset, TimeoutEnabledGen2IntReset -/
theorem enc_AutoLowPow1_with_auto_lp_timeout_mode : agrees (α := AutoLpTrig) [.disabled, .noReset, .gen2Reset] (fun b v => some (R.alp1_with_timeout_mode b v)) Enc.AutoLowPow1_with_auto_lp_timeout_mode = true := by decide +kernel
/-- WakeupIntConfig0::with_reference_mode - Manual, OneTime, EveryTime -/
theorem enc_WakeupIntConfig0_with_reference_mode : agrees (α := WkupRefMode) [.manual, .oneTime, .everyTime] (fun b v => some (R.wk0_with_reference_mode b v)) Enc.WakeupIntConfig0_with_reference_mode = true := by decide +kernel
/-- OrientChgConfig0::with_data_src - AccFilt1, AccFilt2, AccFilt2Lp -/
theorem enc_OrientChgConfig0_with_data_src : agrees (α := DataSource) [.filt1, .filt2, .filt2Lp] (fun b v => R.or0_with_data_src b v) Enc.OrientChgConfig0_with_data_src = true := by decide +kernel
/-- OrientChgConfig0::with_update_mode - Manual, AccFilt2, AccFilt2Lp -/
theorem enc_OrientChgConfig0_with_update_mode : agrees (α := OrientRefMode) [.manual, .filt2, .filt2Lp] (fun b v => some (R.or0_with_update_mode b v)) Enc.OrientChgConfig0_with_update_mode = true := by decide +kernel
/-- Gen1IntConfig0::with_src - AccFilt1, AccFilt2, AccFilt2Lp -/
theorem enc_Gen1IntConfig0_with_src : agrees (α := DataSource) [.filt1, .filt2, .filt2Lp] (fun b v => R.g0_with_src b v) Enc.Gen1IntConfig0_with_src = true := by decide +kernel
/-- Gen1IntConfig0::with_refu_mode - Manual, OneTime, EveryTimeFromSrc, EveryTimeFromLp -/
theorem enc_Gen1IntConfig0_with_refu_mode : agrees (α := GenRefMode) [.manual, .oneTime, .everyTimeSrc, .everyTimeLp] (fun b v => some (R.g0_with_refu_mode b v)) Enc.Gen1IntConfig0_with_refu_mode = true := by decide +kernel
/-- Gen1IntConfig0::with_act_hysteresis - None, Hyst24mg, Hyst48mg, Hyst96mg -/
theorem enc_Gen1IntConfig0_with_act_hysteresis : agrees (α := Hyst) [.none, .h24, .h48, .h96] (fun b v => some (R.g0_with_act_hysteresis b v)) Enc.Gen1IntConfig0_with_act_hysteresis = true := by decide +kernel
/-- Gen1IntConfig1::with_criterion_sel - Inactivity, Activity -/
theorem enc_Gen1IntConfig1_with_criterion_sel : agrees (α := Criterion) [.inactivity, .activity] (fun b v => some (R.g1_with_criterion_sel b v)) Enc.Gen1IntConfig1_with_criterion_sel = true := by decide +kernel
/-- Gen1IntConfig1::with_comb_sel - Or, And -/
theorem enc_Gen1IntConfig1_with_comb_sel : agrees (α := Logic) [.or, .and] (fun b v => some (R.g1_with_comb_sel b v)) Enc.Gen1IntConfig1_with_comb_sel = true := by decide +kernel
/-- Gen2IntConfig0::with_src - AccFilt1, AccFilt2, AccFilt2Lp -/
theorem enc_Gen2IntConfig0_with_src : agrees (α := DataSource) [.filt1, .filt2, .filt2Lp] (fun b v => R.g0_with_src b v) Enc.Gen2IntConfig0_with_src = true := by decide +kernel
/-- Gen2IntConfig0::with_refu_mode - Manual, OneTime, EveryTimeFromSrc, EveryTimeFromLp -/
theorem enc_Gen2IntConfig0_with_refu_mode : agrees (α := GenRefMode) [.manual, .oneTime, .everyTimeSrc, .everyTimeLp] (fun b v => some (R.g0_with_refu_mode b v)) Enc.Gen2IntConfig0_with_refu_mode = true := by decide +kernel
/-- Gen2IntConfig0::with_act_hysteresis - None, Hyst24mg, Hyst48mg, Hyst96mg -/
theorem enc_Gen2IntConfig0_with_act_hysteresis : agrees (α := Hyst) [.none, .h24, .h48, .h96] (fun b v => some (R.g0_with_act_hysteresis b v)) Enc.Gen2IntConfig0_with_act_hysteresis = true := by decide +kernel
/-- Gen2IntConfig1::with_criterion_sel - Inactivity, Activity -/
theorem enc_Gen2IntConfig1_with_criterion_sel : agrees (α := Criterion) [.inactivity, .activity] (fun b v => some (R.g1_with_criterion_sel b v)) Enc.Gen2IntConfig1_with_criterion_sel = true := by decide +kernel
/-- Gen2IntConfig1::with_comb_sel - Or, And -/
theorem enc_Gen2IntConfig1_with_comb_sel : agrees (α := Logic) [.or, .and] (fun b v => some (R.g1_with_comb_sel b v)) Enc.Gen2IntConfig1_with_comb_sel = true := by decide +kernel
/-- ActChgConfig1::with_dta_src - AccFilt1, AccFilt2, AccFilt2Lp -/
theorem enc_ActChgConfig1_with_dta_src : agrees (α := DataSource) [.filt1, .filt2, .filt2Lp] (fun b v => R.ac1_with_dta_src b v) Enc.ActChgConfig1_with_dta_src = true := by decide +kernel
/-- ActChgConfig1::with_observation_period - Samples32, Samples64, Samples128, Samples256, Samples512 -/
theorem enc_ActChgConfig1_with_observation_period : agrees (α := ObsPeriod) [.s32, .s64, .s128, .s256, .s512] (fun b v => some (R.ac1_with_observation_period b v)) Enc.ActChgConfig1_with_observation_period = true := by decide +kernel
/-- TapConfig0::with_axis - X, Y, Z -/
theorem enc_TapConfig0_with_axis : agrees (α := Axis) [.x, .y, .z] (fun b v => some (R.tap0_with_axis b v)) Enc.TapConfig0_with_axis = true := by decide +kernel
/-- TapConfig0::with_sensitivity - SENS0, SENS1, SENS2, SENS3, SENS4, SENS5, SENS6, SENS7 -/
theorem enc_TapConfig0_with_sensitivity : agrees (α := TapSens) [.s0, .s1, .s2, .s3, .s4, .s5, .s6, .s7] (fun b v => some (R.tap0_with_sensitivity b v)) Enc.TapConfig0_with_sensitivity = true := by decide +kernel
/-- TapConfig1::with_min_tap_duration - Samples4, Samples8, Samples12, Samples16 -/
theorem enc_TapConfig1_with_min_tap_duration : agrees (α := MinTapDur) [.s4, .s8, .s12, .s16] (fun b v => some (R.tap1_with_min_tap_duration b v)) Enc.TapConfig1_with_min_tap_duration = true := by decide +kernel
/-- TapConfig1::with_double_tap_duration - Samples60, Samples80, Samples100, Samples120 -/
theorem enc_TapConfig1_with_double_tap_duration : agrees (α := DTapDur) [.s60, .s80, .s100, .s120] (fun b v => some (R.tap1_with_double_tap_duration b v)) Enc.TapConfig1_with_double_tap_duration = true := by decide +kernel
/-- TapConfig1::with_max_tap_duration - Samples6, Samples9, Samples12, Samples18 -/
theorem enc_TapConfig1_with_max_tap_duration : agrees (α := MaxTapDur) [.s6, .s9, .s12, .s18] (fun b v => some (R.tap1_with_max_tap_duration b v)) Enc.TapConfig1_with_max_tap_duration = true := by decide +kernel

/-- the 61 bool setters -/
theorem enc_flags :
    isFlag R.ic0_DRDY Enc.IntConfig0_with_dta_rdy_int = true ∧
    isFlag R.ic0_FWM Enc.IntConfig0_with_fwm_int = true ∧
    isFlag R.ic0_FFULL Enc.IntConfig0_with_ffull_int = true ∧
    isFlag R.ic0_GEN2 Enc.IntConfig0_with_gen2_int = true ∧
    isFlag R.ic0_GEN1 Enc.IntConfig0_with_gen1_int = true ∧
    isFlag R.ic0_ORIENTCH Enc.IntConfig0_with_orientch_int = true ∧
    isFlag R.ic1_LATCH Enc.IntConfig1_with_latch_int = true ∧
    isFlag R.ic1_ACTCH Enc.IntConfig1_with_actch_int = true ∧
    isFlag R.ic1_STAP Enc.IntConfig1_with_s_tap_int = true ∧
    isFlag R.ic1_DTAP Enc.IntConfig1_with_d_tap_int = true ∧
    isFlag R.ic1_STEP Enc.IntConfig1_with_step_int = true ∧
    isFlag R.map_DRDY Enc.Int1Map_with_drdy = true ∧
    isFlag R.map_FWM Enc.Int1Map_with_fwm = true ∧
    isFlag R.map_FFULL Enc.Int1Map_with_ffull = true ∧
    isFlag R.map_OVRRN Enc.Int1Map_with_ovrrn = true ∧
    isFlag R.map_GEN2 Enc.Int1Map_with_gen2 = true ∧
    isFlag R.map_GEN1 Enc.Int1Map_with_gen1 = true ∧
    isFlag R.map_ORIENTCH Enc.Int1Map_with_orientch = true ∧
    isFlag R.map_WKUP Enc.Int1Map_with_wkup = true ∧
    isFlag R.map_DRDY Enc.Int2Map_with_drdy = true ∧
    isFlag R.map_FWM Enc.Int2Map_with_fwm = true ∧
    isFlag R.map_FFULL Enc.Int2Map_with_ffull = true ∧
    isFlag R.map_OVRRN Enc.Int2Map_with_ovrrn = true ∧
    isFlag R.map_GEN2 Enc.Int2Map_with_gen2 = true ∧
    isFlag R.map_GEN1 Enc.Int2Map_with_gen1 = true ∧
    isFlag R.map_ORIENTCH Enc.Int2Map_with_orientch = true ∧
    isFlag R.map_WKUP Enc.Int2Map_with_wkup = true ∧
    isFlag R.m12_ACTCH2 Enc.Int12Map_with_actch2 = true ∧
    isFlag R.m12_ACTCH1 Enc.Int12Map_with_actch1 = true ∧
    isFlag R.m12_TAP2 Enc.Int12Map_with_tap2 = true ∧
    isFlag R.m12_TAP1 Enc.Int12Map_with_tap1 = true ∧
    isFlag R.m12_STEP2 Enc.Int12Map_with_step2 = true ∧
    isFlag R.m12_STEP1 Enc.Int12Map_with_step1 = true ∧
    isFlag R.f0_Z Enc.FifoConfig0_with_fifo_z = true ∧
    isFlag R.f0_Y Enc.FifoConfig0_with_fifo_y = true ∧
    isFlag R.f0_X Enc.FifoConfig0_with_fifo_x = true ∧
    isFlag R.f0_8BIT Enc.FifoConfig0_with_fifo_8bit = true ∧
    isFlag R.f0_TIME Enc.FifoConfig0_with_send_time_on_empty = true ∧
    isFlag R.f0_STOP Enc.FifoConfig0_with_stop_on_full = true ∧
    isFlag R.f0_FLUSH Enc.FifoConfig0_with_flush_on_pwr_mode_change = true ∧
    isFlag R.fpwr_READ_DISABLE Enc.FifoPwrConfig_with_fifo_pwr_disable = true ∧
    isFlag R.alp1_GEN1_TRIG Enc.AutoLowPow1_with_gen1_int_trigger = true ∧
    isFlag R.alp1_DRDY_TRIG Enc.AutoLowPow1_with_drdy_trigger = true ∧
    isFlag R.awk1_WKUP_TIMEOUT Enc.AutoWakeup1_with_wakeup_timeout = true ∧
    isFlag R.awk1_WKUP_INT Enc.AutoWakeup1_with_wakeup_int = true ∧
    isFlag R.wk0_Z Enc.WakeupIntConfig0_with_z_axis = true ∧
    isFlag R.wk0_Y Enc.WakeupIntConfig0_with_y_axis = true ∧
    isFlag R.wk0_X Enc.WakeupIntConfig0_with_x_axis = true ∧
    isFlag R.or0_Z Enc.OrientChgConfig0_with_z_axis = true ∧
    isFlag R.or0_Y Enc.OrientChgConfig0_with_y_axis = true ∧
    isFlag R.or0_X Enc.OrientChgConfig0_with_x_axis = true ∧
    isFlag R.g0_Z Enc.Gen1IntConfig0_with_z_axis = true ∧
    isFlag R.g0_Y Enc.Gen1IntConfig0_with_y_axis = true ∧
    isFlag R.g0_X Enc.Gen1IntConfig0_with_x_axis = true ∧
    isFlag R.g0_Z Enc.Gen2IntConfig0_with_z_axis = true ∧
    isFlag R.g0_Y Enc.Gen2IntConfig0_with_y_axis = true ∧
    isFlag R.g0_X Enc.Gen2IntConfig0_with_x_axis = true ∧
    isFlag R.ac1_Z Enc.ActChgConfig1_with_z_axis = true ∧
    isFlag R.ac1_Y Enc.ActChgConfig1_with_y_axis = true ∧
    isFlag R.ac1_X Enc.ActChgConfig1_with_x_axis = true ∧
    isFlag R.ifc_SPI3 Enc.InterfaceConfig_with_spi_3wire_mode = true := by decide +kernel

/-- the 38 numeric setters: (type, pattern, field mask, all-bits mask = datasheet defined mask) -/
theorem enc_numeric :
    [Enc.FifoConfig1_with_fifo_wtrmk_threshold, Enc.FifoConfig2_with_fifo_wtrmk_threshold, Enc.AutoLowPow0_with_auto_lp_timeout_msb, Enc.AutoLowPow1_with_auto_lp_timeout_lsb, Enc.AutoWakeup0_with_wakeup_timeout_msb, Enc.AutoWakeup1_with_wakeup_timeout_lsb, Enc.WakeupIntConfig0_with_num_samples, Enc.WakeupIntConfig1_with_threshold, Enc.WakeupIntConfig2_with_x_ref, Enc.WakeupIntConfig3_with_y_ref, Enc.WakeupIntConfig4_with_z_ref, Enc.OrientChgConfig1_with_orient_thresh, Enc.OrientChgConfig3_with_orient_dur, Enc.OrientChgConfig4_with_refx_lsb, Enc.OrientChgConfig5_with_refx_msb, Enc.OrientChgConfig6_with_refy_lsb, Enc.OrientChgConfig7_with_refy_msb, Enc.OrientChgConfig8_with_refz_lsb, Enc.OrientChgConfig9_with_refz_msb, Enc.Gen1IntConfig2_with_threshold, Enc.Gen1IntConfig3_with_duration_msb, Enc.Gen1IntConfig31_with_duration_lsb, Enc.Gen1IntConfig4_with_ref_x_lsb, Enc.Gen1IntConfig5_with_ref_x_msb, Enc.Gen1IntConfig6_with_ref_y_lsb, Enc.Gen1IntConfig7_with_ref_y_msb, Enc.Gen1IntConfig8_with_ref_z_lsb, Enc.Gen1IntConfig9_with_ref_z_msb, Enc.Gen2IntConfig2_with_threshold, Enc.Gen2IntConfig3_with_duration_msb, Enc.Gen2IntConfig31_with_duration_lsb, Enc.Gen2IntConfig4_with_ref_x_lsb, Enc.Gen2IntConfig5_with_ref_x_msb, Enc.Gen2IntConfig6_with_ref_y_lsb, Enc.Gen2IntConfig7_with_ref_y_msb, Enc.Gen2IntConfig8_with_ref_z_lsb, Enc.Gen2IntConfig9_with_ref_z_msb, Enc.ActChgConfig0_with_actch_thres]
    = [(0, 0, 0x00, (DS.definedMask 0x27).toNat),
     (0, 0, 0x00, (DS.definedMask 0x28).toNat),
     (1, 1, 0x00, (DS.definedMask 0x2A).toNat),
     (1, 4, 0xF0, (DS.definedMask 0x2B).toNat),
     (1, 1, 0x00, (DS.definedMask 0x2C).toNat),
     (1, 4, 0xF0, (DS.definedMask 0x2D).toNat),
     (0, 5, 0x1C, (DS.definedMask 0x2F).toNat),
     (0, 0, 0x00, (DS.definedMask 0x30).toNat),
     (0, 0, 0x00, (DS.definedMask 0x31).toNat),
     (0, 0, 0x00, (DS.definedMask 0x32).toNat),
     (0, 0, 0x00, (DS.definedMask 0x33).toNat),
     (0, 0, 0x00, (DS.definedMask 0x36).toNat),
     (0, 0, 0x00, (DS.definedMask 0x38).toNat),
     (2, 2, 0x00, (DS.definedMask 0x39).toNat),
     (2, 3, 0x00, (DS.definedMask 0x3A).toNat),
     (2, 2, 0x00, (DS.definedMask 0x3B).toNat),
     (2, 3, 0x00, (DS.definedMask 0x3C).toNat),
     (2, 2, 0x00, (DS.definedMask 0x3D).toNat),
     (2, 3, 0x00, (DS.definedMask 0x3E).toNat),
     (0, 0, 0x00, (DS.definedMask 0x41).toNat),
     (0, 0, 0x00, (DS.definedMask 0x42).toNat),
     (0, 0, 0x00, (DS.definedMask 0x43).toNat),
     (0, 0, 0x00, (DS.definedMask 0x44).toNat),
     (0, 0, 0x00, (DS.definedMask 0x45).toNat),
     (0, 0, 0x00, (DS.definedMask 0x46).toNat),
     (0, 0, 0x00, (DS.definedMask 0x47).toNat),
     (0, 0, 0x00, (DS.definedMask 0x48).toNat),
     (0, 0, 0x00, (DS.definedMask 0x49).toNat),
     (0, 0, 0x00, (DS.definedMask 0x4C).toNat),
     (0, 0, 0x00, (DS.definedMask 0x4D).toNat),
     (0, 0, 0x00, (DS.definedMask 0x4E).toNat),
     (0, 0, 0x00, (DS.definedMask 0x4F).toNat),
     (0, 0, 0x00, (DS.definedMask 0x50).toNat),
     (0, 0, 0x00, (DS.definedMask 0x51).toNat),
     (0, 0, 0x00, (DS.definedMask 0x52).toNat),
     (0, 0, 0x00, (DS.definedMask 0x53).toNat),
     (0, 0, 0x00, (DS.definedMask 0x54).toNat),
     (0, 0, 0x00, (DS.definedMask 0x55).toNat)] := by decide +kernel

/-! the six body patterns, read as functions (u16 / i16 arguments as `Nat` / `Int`, reduced
    modulo 65536 as the Rust types are) -/
def semId (all : Nat) (x : Byte) : Byte := trunc (BitVec.ofNat 8 all) x
def semShr4Lo (all : Nat) (x : Nat) : Byte := trunc (BitVec.ofNat 8 all) (u16lo (x % 65536 / 16))
def semLe0 (all : Nat) (x : Int) : Byte := trunc (BitVec.ofNat 8 all) (i16lo x)
def semLe1 (all : Nat) (x : Int) : Byte := trunc (BitVec.ofNat 8 all) (i16hi x)
def semKeepShl4Lo (field all : Nat) (b : Byte) (x : Nat) : Byte :=
  uni (clr b (BitVec.ofNat 8 field)) (trunc (BitVec.ofNat 8 all) (u16lo (x * 16)))
def semKeepShl2 (field all : Nat) (b x : Byte) : Byte :=
  uni (clr b (BitVec.ofNat 8 field)) (trunc (BitVec.ofNat 8 all) (x <<< 2))

/-- the model's numeric encoders are those patterns with the TRANSLATED masks -/
theorem enc_numeric_model :
    (∀ t, R.f1_with_thresh t = semId Enc.FifoConfig1_with_fifo_wtrmk_threshold.2.2.2 t) ∧
    (∀ t, R.f2_with_thresh t = semId Enc.FifoConfig2_with_fifo_wtrmk_threshold.2.2.2 t) ∧
    (∀ x, R.alp0_with_timeout_msb x = semShr4Lo Enc.AutoLowPow0_with_auto_lp_timeout_msb.2.2.2 x) ∧
    (∀ b x, R.alp1_with_timeout_lsb b x = semKeepShl4Lo Enc.AutoLowPow1_with_auto_lp_timeout_lsb.2.2.1
        Enc.AutoLowPow1_with_auto_lp_timeout_lsb.2.2.2 b x) ∧
    (∀ x, R.awk0_with_timeout_msb x = semShr4Lo Enc.AutoWakeup0_with_wakeup_timeout_msb.2.2.2 x) ∧
    (∀ b x, R.awk1_with_timeout_lsb b x = semKeepShl4Lo Enc.AutoWakeup1_with_wakeup_timeout_lsb.2.2.1
        Enc.AutoWakeup1_with_wakeup_timeout_lsb.2.2.2 b x) ∧
    (∀ b n, R.wk0_with_num_samples b n = semKeepShl2 Enc.WakeupIntConfig0_with_num_samples.2.2.1
        Enc.WakeupIntConfig0_with_num_samples.2.2.2 b n) ∧
    (∀ v, R.ref_lsb_i16 v = semLe0 Enc.OrientChgConfig4_with_refx_lsb.2.2.2 v) ∧
    (∀ v, R.ref_msb_i16 v = semLe1 Enc.OrientChgConfig5_with_refx_msb.2.2.2 v) :=
  ⟨fun _ => rfl, fun _ => rfl, fun _ => rfl, fun _ _ => rfl, fun _ => rfl, fun _ _ => rfl, fun _ _ => rfl,
   fun _ => rfl, fun _ => rfl⟩

/-- nothing was skipped: 31 + 61 + 38 = all 130 `with_*` encoders of the configuration registers -/
theorem enc_counts : Enc.counts = (31, 61, 38) := by decide


/-! ## decoders (`fn(&self) -> bool | Enum`), translated the same way -/

/-- the 32 `self.intersects(MASK)` decoders test the model's mask constants (`has b m`) -/
theorem dec_flags :
    [Enc.IntConfig0_get_dta_rdy_int, Enc.IntConfig0_get_fwm_int, Enc.IntConfig0_get_ffull_int, Enc.IntConfig0_get_gen2_int, Enc.IntConfig0_get_gen1_int, Enc.IntConfig0_get_orientch_int, Enc.IntConfig1_get_actch_int, Enc.IntConfig1_get_s_tap_int, Enc.IntConfig1_get_d_tap_int, Enc.IntConfig1_get_step_int, Enc.Int1Map_get_drdy_int, Enc.Int1Map_get_fwm_int, Enc.Int1Map_get_ffull_int, Enc.Int1Map_get_gen2_int, Enc.Int1Map_get_gen1_int, Enc.Int1Map_get_orientch_int, Enc.Int1Map_get_wkup_int, Enc.Int2Map_get_drdy_int, Enc.Int2Map_get_fwm_int, Enc.Int2Map_get_ffull_int, Enc.Int2Map_get_gen2_int, Enc.Int2Map_get_gen1_int, Enc.Int2Map_get_orientch_int, Enc.Int2Map_get_wkup_int, Enc.Int12Map_get_actch_int2, Enc.Int12Map_get_actch_int1, Enc.Int12Map_get_tap_int2, Enc.Int12Map_get_tap_int1, Enc.Int12Map_get_step_int2, Enc.Int12Map_get_step_int1, Enc.FifoPwrConfig_get_fifo_pwr_disable, Enc.WakeupIntConfig0_get_wkup_int_en]
    = [(R.ic0_DRDY).toNat, (R.ic0_FWM).toNat, (R.ic0_FFULL).toNat, (R.ic0_GEN2).toNat, (R.ic0_GEN1).toNat, (R.ic0_ORIENTCH).toNat, (R.ic1_ACTCH).toNat, (R.ic1_STAP).toNat, (R.ic1_DTAP).toNat, (R.ic1_STEP).toNat, (R.map_DRDY).toNat, (R.map_FWM).toNat, (R.map_FFULL).toNat, (R.map_GEN2).toNat, (R.map_GEN1).toNat, (R.map_ORIENTCH).toNat, (R.map_WKUP).toNat, (R.map_DRDY).toNat, (R.map_FWM).toNat, (R.map_FFULL).toNat, (R.map_GEN2).toNat, (R.map_GEN1).toNat, (R.map_ORIENTCH).toNat, (R.map_WKUP).toNat, (R.m12_ACTCH2).toNat, (R.m12_ACTCH1).toNat, (R.m12_TAP2).toNat, (R.m12_TAP1).toNat, (R.m12_STEP2).toNat, (R.m12_STEP1).toNat, (R.fpwr_READ_DISABLE).toNat, (R.wk0_AXES).toNat] := by decide +kernel

def decodeIf {α : Type} (vs : List α) (d : α) (g : Nat × Nat × Nat) (b : Byte) : α :=
  if (b &&& BitVec.ofNat 8 g.1) != 0#8 then vs.getD g.2.1 d else vs.getD g.2.2 d

def decodeTable {α : Type} (vs : List α) (d : α) (g : Nat × Nat × List (Nat × Nat) × Nat) (b : Byte) : α :=
  let code := ((b &&& BitVec.ofNat 8 g.1) >>> g.2.1).toNat
  match g.2.2.1.find? (fun p => p.1 == code) with
  | some p => vs.getD p.2 d
  | none => vs.getD g.2.2.2 d

/-- the enum decoders, as functions on all 256 register contents (variants in declaration order) -/
theorem dec_enums :
    ((List.range 256).all fun n =>
      let b := BitVec.ofNat 8 n
      R.g0_src b == decodeIf [DataSource.filt1, .filt2, .filt2Lp] .filt1 Enc.Gen1IntConfig0_get_src b &&
      R.g0_src b == decodeIf [DataSource.filt1, .filt2, .filt2Lp] .filt1 Enc.Gen2IntConfig0_get_src b &&
      R.ac1_src b == decodeIf [DataSource.filt1, .filt2, .filt2Lp] .filt1 Enc.ActChgConfig1_get_src b &&
      R.acc1_scale b == decodeTable [Scale.r2g, .r4g, .r8g, .r16g] .r2g Enc.AccConfig1_get_scale b &&
      R.acc1_odr b == decodeTable [ODR.hz12_5, .hz25, .hz50, .hz100, .hz200, .hz400, .hz800] .hz12_5 Enc.AccConfig1_get_odr b) = true := by
  decide +kernel

/-- all 37 decoders: 32 + 3 + 2 -/
theorem dec_counts : Enc.decoderCounts = (32, 3, 2) := by decide

end Thm
end Bma400
