/-
  C18 - construction succeeds exactly for chip id 0x90 and starts from reset defaults.

  `C18_i2c`, `C18_spi`, `C18_spi3`: for EVERY chip content (in particular all 256 values of
  the chip-id register, and every byte the chip shifts out during the SPI throw-away read
  while it is still in I2C mode), fault-free: the constructor returns Ok if and only if the
  id register reads 0x90 and ChipIdReadFailed otherwise; the I2C constructor performs one
  read of 0x00, the SPI constructors two (the first result is discarded), the 3-wire one
  additionally writes 0x01 to IF_CONF (0x7C); and the new driver's recorded configuration is
  `shadowDefault`.
  `C18_defaults`: `shadowDefault` is the datasheet reset value of every configuration
  register (0x49 / 0x22 / 0x06 / 0x00) - also the content of the simulated chip after
  power-on, so a fresh driver is coherent (`C16_init`).
  `C18_first_nothing` / `C18_first_exact`: consequently the first request for the reset
  values writes nothing, and any other first request writes, in its block, exactly the
  registers whose target differs from reset (instances of `C08_idem` / `C08_script`).
-/
import Bma400.Thm.C16
import Bma400.Thm.C08
import Bma400.Thm.C01
import Bma400.Thm.C11
set_option linter.unusedSimpArgs false
namespace Bma400
namespace Thm
open P R

theorem C18_defaults : ∀ x ∈ DS.cfgAddrs, shadowDefault x = DS.resetVal x := defaults_eq_reset

theorem outcome_of_id (id : Byte) :
    finishOutcome (if id ≠ 0x90#8 then some (.error .chipId) else some (.ok "")) =
      (if id = 0x90#8 then Outcome.ok "" else Outcome.err .chipId) := by
  by_cases h : id = 0x90#8 <;> simp [h, finishOutcome]

theorem C18_i2c (dev : Nat) (chip : Chip) :
    let r := runCtor dev noFaults chip .newI2c
    decodeI2c dev r.1 = some [.rd 0 1 true] ∧
    r.2.2 = (if chip.regs 0 = 0x90#8 then Outcome.ok "" else Outcome.err .chipId) ∧
    r.2.1.shadow = shadowDefault := by
  simp only [runCtor, Ctor.transport, Ctor.acts, exec, readRegister_i2c, noFaults_apply, chipIf]
  refine ⟨by simp [decodeI2c], ?_, rfl⟩
  simp only [Bool.not_false, if_true, Ctor.finish, Chip.raw, Chip.burst, Chip.dataAt]
  simp
  by_cases h : chip.regs 0 = 0x90#8 <;> simp [h, finishOutcome]

/-- the chip after the throw-away access: same content, chip-select high, SPI mode -/
theorem after_dummy (chip : Chip) (hcs : chip.csHigh = true) :
    let c := ((((chip.raw .csLow).1.raw (.spiTransfer [BitVec.ofNat 8 0 ||| 0x80#8, 0#8])).1.raw
        (.spiTransfer (List.replicate 1 0#8))).1.raw .csHigh).1
    Chip.Same c chip ∧ c.csHigh = true ∧ c.spiMode = true := by
  simp [Chip.raw, hcs, Chip.clockAll, Chip.clock, Chip.Same]

theorem runCtor_fst (dev : Nat) (fails : Nat → Bool) (chip : Chip) (c : Ctor) :
    (runCtor dev fails chip c).1 = (exec (c.transport dev) fails { chip := chip, shadow := shadowDefault } c.acts []).1 := by
  unfold runCtor; simp only; split <;> simp_all

theorem runCtor_world (dev : Nat) (fails : Nat → Bool) (chip : Chip) (c : Ctor) :
    (runCtor dev fails chip c).2.1 = (exec (c.transport dev) fails { chip := chip, shadow := shadowDefault } c.acts []).2.1 := by
  unfold runCtor; simp only; split <;> simp_all

theorem runCtor_outcome (dev : Nat) (fails : Nat → Bool) (chip : Chip) (c : Ctor) (reads : List (List Byte))
    (h : (exec (c.transport dev) fails { chip := chip, shadow := shadowDefault } c.acts []).2.2 = .ok reads) :
    (runCtor dev fails chip c).2.2 = finishOutcome (c.finish reads) := by
  unfold runCtor; simp only; split <;> simp_all

/-- one fault-free SPI read at the head of a list, unfolded -/
theorem exec_rd_spi (w : World) (a n : Nat) (rest : List Act) (reads : List (List Byte)) :
    exec .spi noFaults w (.rd a n :: rest) reads =
      ([⟨.csLow, true⟩, ⟨.spiTransfer [BitVec.ofNat 8 a ||| 0x80#8, 0#8], true⟩,
         ⟨.spiTransfer (List.replicate n 0#8), true⟩, ⟨.csHigh, true⟩] ++
        (exec .spi noFaults { chip := ((((w.chip.raw .csLow).1.raw (.spiTransfer [BitVec.ofNat 8 a ||| 0x80#8, 0#8])).1.raw
                              (.spiTransfer (List.replicate n 0#8))).1.raw .csHigh).1, shadow := w.shadow, idx := w.idx + 4 }
          rest (reads ++ [(((w.chip.raw .csLow).1.raw (.spiTransfer [BitVec.ofNat 8 a ||| 0x80#8, 0#8])).1.raw
                              (.spiTransfer (List.replicate n 0#8))).2])).1,
       (exec .spi noFaults { chip := ((((w.chip.raw .csLow).1.raw (.spiTransfer [BitVec.ofNat 8 a ||| 0x80#8, 0#8])).1.raw
                              (.spiTransfer (List.replicate n 0#8))).1.raw .csHigh).1, shadow := w.shadow, idx := w.idx + 4 }
          rest (reads ++ [(((w.chip.raw .csLow).1.raw (.spiTransfer [BitVec.ofNat 8 a ||| 0x80#8, 0#8])).1.raw
                              (.spiTransfer (List.replicate n 0#8))).2])).2) := by
  simp [exec, readRegister_spi, chipIf]

theorem burst_id (c : Chip) : c.burst 0 1 = [c.regs 0] := by
  simp [Chip.burst, Chip.dataAt]

/-- both SPI constructors: the throw-away read, then the rest as the abstract executor says -/
theorem C18_spi_any (dev : Nat) (chip : Chip) (hcs : chip.csHigh = true) (c : Ctor) (rest : List Act)
    (hacts : c.acts = .rd 0 1 :: .rd 0 1 :: rest) (ht : c.transport dev = .spi)
    (hrest : ∀ a ∈ rest, ∃ x v e, a = Act.wr x v e ∧ x < 128)
    (hfin : ∀ d1 id, c.finish [d1, [id]] = (if id ≠ 0x90#8 then some (.error .chipId) else some (.ok ""))) :
    decodeSpi (runCtor dev noFaults chip c).1 = some (c.acts.map Act.acc) ∧
    (runCtor dev noFaults chip c).2.2 = (if chip.regs 0 = 0x90#8 then Outcome.ok "" else Outcome.err .chipId) ∧
    (runCtor dev noFaults chip c).2.1.shadow = shadowAfter shadowDefault rest := by
  obtain ⟨s1, s2, s3⟩ := after_dummy chip hcs
  have hwf : ActsWf (.rd 0 1 :: rest) := by
    intro a ha
    simp only [List.mem_cons] at ha
    rcases ha with rfl | ha
    · simp [ActWf]
    · obtain ⟨x, v, e, rfl, hx⟩ := hrest a ha; exact hx
  have hwfall : ActsWf c.acts := by
    rw [hacts]; intro a ha
    simp only [List.mem_cons] at ha
    rcases ha with rfl | ha
    · simp [ActWf]
    · exact hwf a (by simpa using ha)
  refine ⟨?_, ?_⟩
  · rw [runCtor_fst, ht]; exact C13_exact c.acts hwfall _ _
  · -- unfold the first access, refine the rest
    have e := exec_rd_spi { chip := chip, shadow := shadowDefault } 0 1 (.rd 0 1 :: rest) []
    generalize hw1 : ({ chip := ((((chip.raw .csLow).1.raw (.spiTransfer [BitVec.ofNat 8 0 ||| 0x80#8, 0#8])).1.raw
        (.spiTransfer (List.replicate 1 0#8))).1.raw .csHigh).1, shadow := shadowDefault, idx := 0 + 4 } : World) = w1 at e
    generalize hd1 : (((chip.raw .csLow).1.raw (.spiTransfer [BitVec.ofNat 8 0 ||| 0x80#8, 0#8])).1.raw
        (.spiTransfer (List.replicate 1 0#8))).2 = d1 at e
    have hc1 : Chip.Same w1.chip chip ∧ w1.chip.csHigh = true ∧ w1.chip.spiMode = true ∧ w1.shadow = shadowDefault := by
      rw [← hw1]; exact ⟨s1, s2, s3, rfl⟩
    obtain ⟨c1, c2, c3, c4⟩ := hc1
    have hr := (exec_spi_refines (.rd 0 1 :: rest) hwf w1 ([] ++ [d1]) c2 c3).1
    rcases hx : exec .spi noFaults w1 (.rd 0 1 :: rest) ([] ++ [d1]) with ⟨j2, w2, r2⟩
    rw [hx] at hr e
    obtain ⟨_, hsh, hreads⟩ := hr
    cases r2 with
    | error err => exact absurd hreads (by simp)
    | ok reads =>
      simp only at hreads hsh
      -- the abstract run: one read of the id, then only writes
      have hab : ∀ (l : List Act) (ch : Chip) (sh : Regs) (rs : List (List Byte)),
          (∀ a ∈ l, ∃ x v e, a = Act.wr x v e ∧ x < 128) →
          (aexec ch sh l rs).2.2 = rs ∧ (aexec ch sh l rs).2.1 = shadowAfter sh l := by
        intro l
        induction l with
        | nil => intro ch sh rs _; exact ⟨rfl, rfl⟩
        | cons a l ih =>
          intro ch sh rs hl
          obtain ⟨x, v, e', rfl, _⟩ := hl a (by simp)
          simp only [aexec, shadowAfter]
          exact ih _ _ _ (fun b hb => hl b (by simp [hb]))
      have h2 := hab rest w1.chip w1.shadow ([] ++ [d1] ++ [w1.chip.burst 0 1]) hrest
      simp only [aexec] at hreads hsh
      rw [h2.1] at hreads
      rw [h2.2, c4] at hsh
      have hex : (exec (c.transport dev) noFaults { chip := chip, shadow := shadowDefault } c.acts []) =
          ([⟨.csLow, true⟩, ⟨.spiTransfer [BitVec.ofNat 8 0 ||| 0x80#8, 0#8], true⟩,
            ⟨.spiTransfer (List.replicate 1 0#8), true⟩, ⟨.csHigh, true⟩] ++ j2, w2, .ok reads) := by
        rw [ht, hacts, e]
      constructor
      · rw [runCtor_outcome dev noFaults chip c reads (by rw [hex])]
        rw [hreads, burst_same _ _ c1, burst_id]
        simp only [List.nil_append, List.cons_append]
        rw [hfin]
        by_cases h : chip.regs 0 = 0x90#8 <;> simp [h, finishOutcome]
      · rw [runCtor_world, hex]; exact hsh

theorem C18_spi (dev : Nat) (chip : Chip) (hcs : chip.csHigh = true) :
    decodeSpi (runCtor dev noFaults chip .newSpi).1 = some [.rd 0 1 true, .rd 0 1 true] ∧
    (runCtor dev noFaults chip .newSpi).2.2 = (if chip.regs 0 = 0x90#8 then Outcome.ok "" else Outcome.err .chipId) ∧
    (runCtor dev noFaults chip .newSpi).2.1.shadow = shadowDefault :=
  C18_spi_any dev chip hcs .newSpi [] rfl rfl (by simp) (by intro d1 id; rfl)

theorem C18_spi3 (dev : Nat) (chip : Chip) (hcs : chip.csHigh = true) :
    decodeSpi (runCtor dev noFaults chip .newSpi3).1 = some [.rd 0 1 true, .rd 0 1 true, .wr 0x7C 0x01#8 true] ∧
    (runCtor dev noFaults chip .newSpi3).2.2 = (if chip.regs 0 = 0x90#8 then Outcome.ok "" else Outcome.err .chipId) ∧
    (runCtor dev noFaults chip .newSpi3).2.1.shadow = shadowDefault :=
  C18_spi_any dev chip hcs .newSpi3 [.wr 0x7C (flag 0x00#8 ifc_SPI3 true) .none] rfl rfl
    (by intro a ha; simp at ha; subst ha; exact ⟨_, _, _, rfl, by decide⟩) (by intro d1 id; rfl)

/-- the first request for the reset values writes nothing (every builder but pin mapping;
    for pin mapping no interrupt is enabled on a fresh device, so its toggles are empty too) -/
theorem C18_first_nothing (q : Request) (hsame : ∀ a ∈ q.block, q.target shadowDefault a = shadowDefault a)
    (ws : List W) (h : q.script shadowDefault = .ok ws) (hpin : ∀ l, q ≠ .pin l) : ws = [] :=
  C08_idem q shadowDefault hsame ws h hpin

/-- any first request writes, of its block, exactly the registers that differ from reset -/
theorem C18_first_exact (q : Request) (ws : List W) (h : q.script shadowDefault = .ok ws) :
    ∀ a ∈ q.block, a ≠ 0x2F →
      (valuesAt ws a = [] ∧ q.target shadowDefault a = shadowDefault a) ∨
      (valuesAt ws a = [q.target shadowDefault a] ∧ q.target shadowDefault a ≠ shadowDefault a) := by
  intro a ha hne
  have hw := (C08_script q shadowDefault shadowDefault (fun _ _ => rfl) ws h).1 a ha
  have heff := C01_effect q shadowDefault shadowDefault (fun _ _ => rfl) ws h a
  simp only [ha, if_true] at heff
  rcases hw with h1 | h1 | ⟨h1, h2⟩
  · exact absurd h1 hne
  · left
    refine ⟨h1, ?_⟩
    -- no write to a: the register still holds the default, and it holds the target
    rw [← heff]
    clear heff
    have : ∀ (c : Regs) (l : List W), valuesAt l a = [] → applyWrites c l a = c a := by
      intro c l
      induction l generalizing c with
      | nil => intro _; rfl
      | cons w l ih =>
        intro hv
        simp only [valuesAt, List.filter_cons] at hv
        by_cases hwa : w.addr = a
        · simp [hwa] at hv
        · simp only [hwa, decide_false, Bool.false_eq_true, if_false] at hv
          simp only [applyWrites]
          rw [ih _ hv]
          simp [Regs.set, Ne.symm hwa]
    exact this _ _ h1
  · right; exact ⟨h1, fun e => h2 e.symm⟩

/-- non-vacuity -/
example : (runCtor 0x14 noFaults (Chip.powerOn (fun _ => 0x90#8) [] [] [] 0x55#8) .newSpi3).2.2 = .ok "" ∧
    (runCtor 0x14 noFaults (Chip.powerOn (fun a => if a = 0 then 0x91#8 else 0#8) [] [] [] 0x90#8) .newSpi).2.2
      = .err .chipId := by decide

end Thm
end Bma400
