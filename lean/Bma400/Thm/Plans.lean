/-
  Plans - the PLAN of every API function of src/lib.rs and of the three constructors (src/i2c.rs,
  src/spi.rs): its guard and the register-level accesses it makes, in order - TRANSLATED from the
  source on every run (tools/gen_builders.py --api -> Bma400/GeneratedApi.lean; the same symbolic
  executor as for the builders, with everything that is only data - decoded results, arithmetic on
  bytes read - left opaque, and the requirement that no bus traffic and no recorded configuration
  may depend on it) IS the model's `Op.plan` / `Ctor.acts`, for every recorded configuration.

  This covers: which register each getter reads and how many bytes, in ONE burst (C17, C03); the
  FIFO guard "refused without bus traffic exactly when the recorded FIFO power configuration has
  the read circuit disabled, else one burst of exactly the buffer's length from 0x14" (C19); the
  commands (C19); the soft reset = command, recorded configuration replaced by the defaults at once,
  then the event read (C11); the whole self-test procedure - six set-up writes (each recorded),
  2 ms, positive excitation, 50 ms, read, negative excitation, 50 ms, read, excitation off, 50 ms,
  six restoring writes of the configuration saved BEFORE the test (C10); the constructors' reads
  and the 3-wire IF_CONF write (C18).

  The translator also enforces, for these functions and for the builders, that the result of every
  bus operation is propagated with `?` at once (exit code 4 otherwise: a swallowed, deferred or
  overridden bus error is what C15 forbids) - the interpreter's "stop at the first failure".
-/
import Bma400.Driver
import Bma400.GeneratedApi
namespace Bma400
namespace Thm
open R Generated

theorem api_getters (sh : Regs) :
    Op.plan sh .getId = Api.get_id sh ∧ Op.plan sh .getCmdError = Api.get_cmd_error sh ∧
    Op.plan sh .getStatus = Api.get_status sh ∧ Op.plan sh .getUnscaled = Api.get_unscaled_data sh ∧
    Op.plan sh .getData = Api.get_data sh ∧ Op.plan sh .getSensorClock = Api.get_sensor_clock sh ∧
    Op.plan sh .getResetStatus = Api.get_reset_status sh ∧ Op.plan sh .getIntStatus0 = Api.get_int_status0 sh ∧
    Op.plan sh .getIntStatus1 = Api.get_int_status1 sh ∧ Op.plan sh .getIntStatus2 = Api.get_int_status2 sh ∧
    Op.plan sh .getFifoLen = Api.get_fifo_len sh ∧ Op.plan sh .getStepCount = Api.get_step_count sh ∧
    Op.plan sh .getStepActivity = Api.get_step_activity sh ∧ Op.plan sh .getRawTemp = Api.get_raw_temp sh ∧
    Op.plan sh .getTempCelsius = Api.get_temp_celsius sh := by
  simp [Op.plan, Api.get_id, Api.get_cmd_error, Api.get_status, Api.get_unscaled_data, Api.get_data,
    Api.get_sensor_clock, Api.get_reset_status, Api.get_int_status0, Api.get_int_status1, Api.get_int_status2,
    Api.get_fifo_len, Api.get_step_count, Api.get_step_activity, Api.get_raw_temp, Api.get_temp_celsius]

theorem api_fifo (sh : Regs) (n : Nat) :
    Op.plan sh (.readFifo n) = Api.read_fifo_frames sh n ∧ Op.plan sh .flushFifo = Api.flush_fifo sh ∧
    Op.plan sh .clearStepCount = Api.clear_step_count sh := by
  simp [Op.plan, Api.read_fifo_frames, Api.flush_fifo, Api.clear_step_count]

theorem api_reset (sh : Regs) : Op.plan sh .softReset = Api.soft_reset sh := by
  simp [Op.plan, Api.soft_reset]

theorem api_selftest (sh : Regs) : Op.plan sh .selfTest = Api.perform_self_test sh := by
  simp [Op.plan, Api.perform_self_test, selfTestActs, flag, clr, selftest_trunc, DS.definedMask]

theorem api_ctors (sh : Regs) :
    Ctor.acts .newI2c = (Api.new_i2c sh).acts ∧ Ctor.acts .newSpi = (Api.new_spi sh).acts ∧
    Ctor.acts .newSpi3 = (Api.new_spi_3wire sh).acts ∧
    (Api.new_i2c sh).guard = none ∧ (Api.new_spi sh).guard = none ∧ (Api.new_spi_3wire sh).guard = none := by
  simp [Ctor.acts, Api.new_i2c, Api.new_spi, Api.new_spi_3wire, flag, uni]

/-- all 23 functions were translated, each with at least one access -/
theorem api_counts : Api.actCounts.length = 23 ∧ Api.actCounts.all (0 < ·) = true := by decide

end Thm
end Bma400
