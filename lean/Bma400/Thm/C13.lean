/-
  C13 - SPI accesses are chip-select bracketed and follow the BMA400 SPI protocol.

  `C13_exec`: for EVERY list of bus actions with 7-bit register addresses, every
  fault schedule (pin and data faults at any positions) and every start state,
  the journal the SPI transport produces satisfies `P.C13`:
    * it decodes (`P.decodeSpi`) as a sequence of chip-select windows, each
      `csLow; write [addr (bit 7 clear), value]; csHigh`  or
      `csLow; transfer [addr | 0x80, dummy]; transfer n bytes; csHigh`,
    * no byte is clocked while chip-select is high,
    * if the call succeeds, chip-select is high at its end.
  `C13_exact`: fault-free, the windows are exactly the actions, in order, with
  exactly the requested read lengths.  `C13_cs_tracks`: the simulated chip's
  chip-select level is the one derived from the journal.
-/
import Bma400.Lemmas.Exec
import Bma400.Lemmas.Plan
set_option linter.unusedSimpArgs false
namespace Bma400
namespace Thm
open P

def isOkR {α} : Except Err α → Bool
  | .ok _ => true
  | .error _ => false

theorem C13_exec (fails : Nat → Bool) (acts : List Act) (hwf : ActsWf acts) :
    ∀ (w : World) (reads : List (List Byte)),
      C13 (exec .spi fails w acts reads).1 (isOkR (exec .spi fails w acts reads).2.2) := by
  unfold C13
  induction acts with
  | nil => intro w reads; simp [exec, decodeSpi, noDataWhileHigh, csAfter]
  | cons act rest ih =>
    intro w reads
    obtain ⟨h1, h2⟩ := ActsWf_cons hwf
    cases act with
    | wr a v e =>
      have hb := bit7_clear a h1
      simp only [exec, writeRegister_spi]
      cases f0 : fails w.idx <;> cases f1 : fails (w.idx + 1) <;> cases f2 : fails (w.idx + 2) <;>
        simp [decodeSpi, noDataWhileHigh, csAfter, isOkR, hb]
      have := ih h2 { chip := chipIf true (chipIf true (w.chip.raw .csLow).1 (.spiWrite [BitVec.ofNat 8 a, v])) .csHigh,
                      shadow := applyEff w.shadow a v e, idx := w.idx + 3 } reads
      simpa [isOkR] using this
    | rd a n =>
      have hb := bit7_set a h1
      simp only [exec, readRegister_spi]
      cases f0 : fails w.idx <;> cases f1 : fails (w.idx + 1) <;> cases f2 : fails (w.idx + 2) <;>
        cases f3 : fails (w.idx + 3) <;>
        simp [decodeSpi, noDataWhileHigh, csAfter, isOkR, hb]
      have := ih h2 { chip := chipIf true (chipIf true ((w.chip.raw .csLow).1.raw (.spiTransfer [BitVec.ofNat 8 a ||| 0x80#8, 0#8])).1
                                (.spiTransfer (List.replicate n 0#8))) .csHigh,
                      shadow := w.shadow, idx := w.idx + 4 }
        (reads ++ [(((w.chip.raw .csLow).1.raw (.spiTransfer [BitVec.ofNat 8 a ||| 0x80#8, 0#8])).1.raw
                          (.spiTransfer (List.replicate n 0#8))).2])
      simpa [isOkR] using this
    | delay ms =>
      simp only [exec]
      have := ih h2 w reads
      simp [decodeSpi, noDataWhileHigh, csAfter, isOkR] at this ⊢
      exact this

/-- fault-free: the windows are exactly the actions, in order, with the requested lengths -/
theorem C13_exact (acts : List Act) (hwf : ActsWf acts) :
    ∀ (w : World) (reads : List (List Byte)),
      decodeSpi (exec .spi noFaults w acts reads).1 = some (acts.map Act.acc) := by
  induction acts with
  | nil => intro w reads; simp [exec, decodeSpi]
  | cons act rest ih =>
    intro w reads
    obtain ⟨h1, h2⟩ := ActsWf_cons hwf
    cases act with
    | wr a v e =>
      have hb := bit7_clear a h1
      simp only [exec, writeRegister_spi, noFaults_apply]
      have := ih h2 { chip := chipIf true (chipIf true (w.chip.raw .csLow).1 (.spiWrite [BitVec.ofNat 8 a, v])) .csHigh,
                      shadow := applyEff w.shadow a v e, idx := w.idx + 3 } reads
      simp [decodeSpi, hb, this, Act.acc, toNat_ofNat_lt a h1]
    | rd a n =>
      have hb := bit7_set a h1
      simp only [exec, readRegister_spi, noFaults_apply]
      have := ih h2 { chip := chipIf true (chipIf true ((w.chip.raw .csLow).1.raw (.spiTransfer [BitVec.ofNat 8 a ||| 0x80#8, 0#8])).1
                                (.spiTransfer (List.replicate n 0#8))) .csHigh,
                      shadow := w.shadow, idx := w.idx + 4 }
        (reads ++ [(((w.chip.raw .csLow).1.raw (.spiTransfer [BitVec.ofNat 8 a ||| 0x80#8, 0#8])).1.raw
                          (.spiTransfer (List.replicate n 0#8))).2])
      simp [decodeSpi, hb, this, Act.acc, low7 a h1]
    | delay ms =>
      simp only [exec]
      have := ih h2 w reads
      simp [decodeSpi, this, Act.acc]

/-- every API call over SPI, any fault schedule (a call that fails for a reason other than
    the bus - rejected request, failed self test - has a fault-free journal, for which
    `C20_runOp` gives the released chip-select) -/
theorem C13_runOp (fails : Nat → Bool) (w : World) (op : Op) :
    C13 (runOp .spi fails w op).1 (runOp .spi fails w op).2.2.isOk := by
  unfold runOp
  simp only
  split
  · simp [C13, decodeSpi, noDataWhileHigh, csAfter]
  · have := C13_exec fails (op.plan w.shadow).acts (plan_wf _ op) { w with idx := 0 } []
    unfold C13 at this ⊢
    split <;> simp_all [isOkR, Outcome.isOk]

/-- both SPI constructors -/
theorem C13_runCtor (dev : Nat) (fails : Nat → Bool) (chip : Chip) (c : Ctor) (hc : c ≠ .newI2c) :
    C13 (runCtor dev fails chip c).1 (runCtor dev fails chip c).2.2.isOk := by
  have ht : c.transport dev = .spi := by cases c <;> simp_all [Ctor.transport]
  unfold runCtor
  simp only [ht]
  have := C13_exec fails c.acts (ctor_wf c) { chip := chip, shadow := shadowDefault } []
  unfold C13 at this ⊢
  split <;> simp_all [isOkR, Outcome.isOk]

/-- the SPI constructors begin with a throw-away read of the chip id, and the 3-wire one
    enables 3-wire mode (C18's SPI clauses) -/
theorem C13_ctor_acts :
    Ctor.newSpi.acts = [.rd 0x00 1, .rd 0x00 1] ∧
    Ctor.newSpi3.acts = [.rd 0x00 1, .rd 0x00 1, .wr 0x7C 0x01#8 .none] := by
  constructor <;> rfl

/-- non-vacuity: a concrete program with a data fault in the middle of a read -/
example : C13 (exec .spi (fun i => i == 5) { chip := Chip.powerOn (fun _ => 0x90#8) [] [] [], shadow := shadowDefault }
    [.wr 0x19 0x02#8 .commit, .rd 0x04 6, .wr 0x1A 0x09#8 .commit] []).1 false := by decide

end Thm
end Bma400
