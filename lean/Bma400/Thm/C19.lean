/-
  C19 - FIFO reads are refused exactly while the read circuit is powered down.

  `C19_refused` / `C19_read`: for EVERY recorded configuration, buffer length n, transport
  and fault schedule: if bit 0 of the recorded FIFO_PWR_CONFIG (0x29) is set,
  `read_fifo_frames` returns FifoReadWhilePwrDisable with an empty journal and unchanged
  state; otherwise (fault-free) its journal is exactly one burst read of n bytes at 0x14,
  over I2C and over SPI, and it returns Ok.
  `C19_guard_is_device`: with the coherence invariant (Thm/C16: all histories, including
  calls cut short by bus errors - the FIFO builder writes 0x29 last and records it only when
  acknowledged) the guard is bit 0 of the DEVICE register, i.e. what the most recent
  successfully applied FIFO configuration left there; `C19_P` packages both in the form
  `P.C19` evaluated by `judge`.  `C19_commands`: flush / clear-steps send 0xB0 / 0xB1 to
  0x7E.  `C19_reset`: after a soft reset reading is enabled again.
-/
import Bma400.Thm.C16
set_option linter.unusedSimpArgs false
namespace Bma400
namespace Thm
open P R

theorem C19_refused (t : Transport) (fails : Nat → Bool) (w : World) (n : Nat)
    (h : has (w.shadow 0x29) 0x01#8 = true) :
    runOp t fails w (.readFifo n) = ([], { w with idx := 0 }, .err (.cfg .fifoPwr)) := by
  simp [runOp, Op.plan, fpwr_READ_DISABLE, h]

theorem C19_plan (sh : Regs) (n : Nat) (h : has (sh 0x29) 0x01#8 = false) :
    (Op.readFifo n).plan sh = ⟨none, [.rd 0x14 n]⟩ := by
  simp [Op.plan, fpwr_READ_DISABLE, h]

/-- fault-free, guard clear: exactly one burst of n bytes at 0x14, result Ok - I2C -/
theorem C19_read_i2c (dev : Nat) (w : World) (n : Nat) (h : has (w.shadow 0x29) 0x01#8 = false) :
    decodeI2c dev (runOp (.i2c dev) noFaults w (.readFifo n)).1 = some [.rd 0x14 n true] ∧
    (runOp (.i2c dev) noFaults w (.readFifo n)).2.2.isOk = true := by
  simp [runOp, C19_plan _ n h, exec, readRegister_i2c, decodeI2c, Op.finish, finishOutcome, Outcome.isOk]

/-- the same over SPI -/
theorem C19_read_spi (w : World) (n : Nat) (h : has (w.shadow 0x29) 0x01#8 = false) :
    decodeSpi (runOp .spi noFaults w (.readFifo n)).1 = some [.rd 0x14 n true] ∧
    (runOp .spi noFaults w (.readFifo n)).2.2.isOk = true := by
  simp [runOp, C19_plan _ n h, exec, readRegister_spi, decodeSpi, Op.finish, finishOutcome, Outcome.isOk]

theorem C19_guard_is_device (sh chip : Regs) (hco : Coherent sh chip) :
    has (sh 0x29) 0x01#8 = has (chip 0x29) 0x01#8 := by
  rw [hco 0x29 (by decide)]

/-- `P.C19` for a FIFO read over I2C from a coherent state (any n) -/
theorem C19_P (dev : Nat) (w : World) (n : Nat) (hco : Coherent w.shadow w.chip.regs) :
    ∃ accs, decodeI2c dev (runOp (.i2c dev) noFaults w (.readFifo n)).1 = some accs ∧
      P.C19 w.chip.regs (.readFifo n) accs (runOp (.i2c dev) noFaults w (.readFifo n)).2.2 := by
  cases hg : has (w.shadow 0x29) 0x01#8 with
  | true =>
    rw [C19_refused _ _ _ _ hg]
    refine ⟨[], by simp [decodeI2c], ?_⟩
    simp [P.C19, ← C19_guard_is_device _ _ hco, hg]
  | false =>
    obtain ⟨h1, h2⟩ := C19_read_i2c dev w n hg
    refine ⟨_, h1, ?_⟩
    simp [P.C19, ← C19_guard_is_device _ _ hco, hg, h2]

theorem C19_commands (sh : Regs) :
    Op.flushFifo.plan sh = ⟨none, [.wr 0x7E 0xB0#8 .none]⟩ ∧
    Op.clearStepCount.plan sh = ⟨none, [.wr 0x7E 0xB1#8 .none]⟩ ∧
    DS.CMD = 0x7E ∧ DS.CMD_FIFO_FLUSH = 0xB0#8 ∧ DS.CMD_STEP_CNT_CLEAR = 0xB1#8 := ⟨rfl, rfl, rfl, rfl, rfl⟩

theorem C19_reset : has (shadowDefault 0x29) 0x01#8 = false ∧ has (DS.resetVal 0x29) 0x01#8 = false := by decide

/-- the FIFO builder writes the power flag last: whatever prefix of its script was
    acknowledged, the recorded flag is the device's (instance of `coherent_applyWrites`) -/
example : (match (Request.fifo [.readDisabled true, .watermark 5]).script shadowDefault with
    | .ok ws => ws == [⟨0x27, 5#8⟩, ⟨0x29, 1#8⟩] | .error _ => false) = true := by decide

/-- a FIFO burst that fails (any schedule in which the first raw operation of the call fails) is ONE
    attempted burst and the call returns that failure; nothing else is attempted - I2C.  This is the
    clause `judge` evaluates on faulted FIFO reads (a silent retry is two bursts and Ok). -/
theorem C19_faulted_i2c (dev : Nat) (fails : Nat → Bool) (w : World) (n : Nat)
    (h : has (w.shadow 0x29) 0x01#8 = false) (hf : fails 0 = true) :
    (runOp (.i2c dev) fails w (.readFifo n)).1 = [⟨.i2cWriteRead dev [0x14#8] n, false⟩] ∧
    (runOp (.i2c dev) fails w (.readFifo n)).2.2 = .err (.io 0) := by
  simp [runOp, C19_plan _ n h, exec, readRegister, World.raw, hf, Op.finish, finishOutcome]

/-- the same for the two commands -/
theorem C19_faulted_cmd_i2c (dev : Nat) (fails : Nat → Bool) (w : World) (hf : fails 0 = true) :
    (runOp (.i2c dev) fails w .flushFifo).1 = [⟨.i2cWrite dev [0x7E#8, 0xB0#8], false⟩] ∧
    (runOp (.i2c dev) fails w .flushFifo).2.2 = .err (.io 0) ∧
    (runOp (.i2c dev) fails w .clearStepCount).1 = [⟨.i2cWrite dev [0x7E#8, 0xB1#8], false⟩] ∧
    (runOp (.i2c dev) fails w .clearStepCount).2.2 = .err (.io 0) := by
  simp [runOp, Op.plan, exec, writeRegister, World.raw, hf, Op.finish, finishOutcome, cmd_FlushFifo, cmd_ClearStepCount]

end Thm
end Bma400
