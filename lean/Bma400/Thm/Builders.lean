/-
  Builders - the `write()` functions of the eleven configuration builders and the self-test
  set-up / clean-up, TRANSLATED from /repo/src/config.rs and /repo/src/config/*.rs on every run
  (tools/gen_builders.py -> Bma400/GeneratedBld.lean, by symbolic execution of the Rust source),
  ARE the hand-written scripts of Builders.lean / Driver.lean - for every recorded configuration
  `sh` and every builder copy `rq`, not only for sampled ones.

  The property theorems (C01, C06, C07, C08, C16, ...) are about `Request.script`; this file is
  the proof obligation that ties `Request.script` to the current text of the crate:

      source =(translator)= Generated.Bld.* =(this file)= accScript ... tapScript
             = Request.script q sh   (bld_script, for every request q)

  Together with Thm/Encoders.lean (register encoders / decoders, also translated) the whole
  configuration layer of the model is regenerated from the source and re-proved equal on every
  run; what remains tied only by the differential check is the builders' setter chains
  (`Request.target`), the API layer of lib.rs and the transports.

  The translator also enforces the COMMIT DISCIPLINE the interpreter assumes (`Eff.commit`): every
  `write_register(v)?` is followed, before the next fallible operation, by recording `v` in the
  configuration the driver keeps - recording early or late is what C16 forbids.
-/
import Bma400.Builders
import Bma400.Driver
import Bma400.GeneratedBld
namespace Bma400
namespace Thm
open R Generated

theorem dw_wIf (sh rq : Regs) (a : Nat) : dw sh rq a = wIf (sh a != rq a) a (rq a) := by
  unfold dw wIf; by_cases h : sh a = rq a <;> simp [h]

theorem bld_acc (sh rq : Regs) : Bld.acc sh rq = accScript sh rq := by
  simp [Bld.acc, accScript, dws, dw_wIf, actchEn, actFilt1, gen1En, gen2En, gen1Filt1, gen2Filt1,
    odrIs100, odrIs200, tapEn]
  grind

theorem bld_int (sh rq : Regs) : Bld.int sh rq = intScript sh rq := by
  simp [Bld.int, intScript, dws, dw_wIf, actchEn, actFilt1, gen1En, gen2En, gen1Filt1, gen2Filt1,
    odrIs100, odrIs200, tapEn]

theorem bld_alp (sh rq : Regs) : Bld.alp sh rq = alpScript sh rq := by
  simp [Bld.alp, alpScript, dws, dw_wIf]

theorem bld_awk (sh rq : Regs) : Bld.awk sh rq = awkScript sh rq := by
  simp [Bld.awk, awkScript, dws, dw_wIf]

theorem bld_fifo (sh rq : Regs) : Bld.fifo sh rq = fifoScript sh rq := by
  simp [Bld.fifo, fifoScript, dw_wIf, chg]
  grind [wIf]

theorem bld_wkup (sh rq : Regs) : Bld.wkup sh rq = wkupScript sh rq := by
  simp [Bld.wkup, wkupScript, dws, dw_wIf, chg]
  grind [wIf]

theorem bld_ori (sh rq : Regs) : Bld.ori sh rq = oriScript sh rq := by
  simp [Bld.ori, oriScript, oriBlock, dws, dw_wIf, chg]
  grind [wIf]

theorem bld_act (sh rq : Regs) : Bld.act sh rq = actScript sh rq := by
  simp [Bld.act, actScript, dws, dw_wIf, chg, odrIs100]
  grind [wIf]

theorem bld_tap (sh rq : Regs) : Bld.tap sh rq = tapScript sh rq := by
  simp [Bld.tap, tapScript, dws, dw_wIf, chg]
  grind [wIf]

theorem bld_gen1 (sh rq : Regs) : Bld.gen1 sh rq = genScript .g1 sh rq := by
  simp [Bld.gen1, genScript, genBlock, GenId.base, GenId.enMask, dws, dw_wIf, chg, odrIs100, List.range,
    List.range.loop]
  grind [wIf]

theorem bld_gen2 (sh rq : Regs) : Bld.gen2 sh rq = genScript .g2 sh rq := by
  simp [Bld.gen2, genScript, genBlock, GenId.base, GenId.enMask, dws, dw_wIf, chg, odrIs100, List.range,
    List.range.loop]
  grind [wIf]

theorem not_nand_not (a b : Bool) : (!(!a && !b)) = (a || b) := by cases a <;> cases b <;> rfl

theorem clr_clr (x a b : Byte) : clr (clr x a) b = clr x (uni a b) := by
  unfold clr uni; rw [BitVec.and_assoc, ← BitVec.not_or]

/-- the pin-mapping builder: the three temporaries are the model's folds (`pinTmp0/1/W`), whatever
    names the translator gave to the intermediate values -/
theorem bld_pin (sh rq : Regs) : Bld.pin sh rq = pinScript sh rq := by
  simp only [Bld.pin, pinScript, pinTmp0, pinTmp1, pinTmpW, List.foldl, clrIf, mapped12, mapped3, not_nand_not,
    bne_iff_ne, ne_eq, ite_not, clr_clr, dws, dw_wIf, List.flatMap_cons, List.flatMap_nil, List.append_nil,
    List.append_assoc]
  rfl

/-- **the tie**: `write()` of every builder, as translated from the current source, is the script the
    property theorems are about - for every request (any setter list) and every recorded configuration -/
theorem bld_script (q : Request) (sh : Regs) :
    q.script sh = (match q with
      | .acc _ => Bld.acc | .int _ => Bld.int | .pin _ => Bld.pin | .fifo _ => Bld.fifo
      | .alp _ => Bld.alp | .awk _ => Bld.awk | .wkup _ => Bld.wkup | .ori _ => Bld.ori
      | .gen .g1 _ => Bld.gen1 | .gen .g2 _ => Bld.gen2 | .act _ => Bld.act | .tap _ => Bld.tap) sh (q.target sh) := by
  cases q with
  | gen g l => cases g <;> simp [Request.script, bld_gen1, bld_gen2]
  | _ => simp [Request.script, bld_acc, bld_int, bld_pin, bld_fifo, bld_alp, bld_awk, bld_wkup, bld_ori, bld_act, bld_tap]

/-- the self test: its six set-up writes and six restoring writes, as translated from
    `Config::setup_self_test` / `cleanup_self_test`, are those of the model's `selfTestActs`
    (the nine actions in between - delays, SELF_TEST writes, the two data reads - are lib.rs, tied by
    the differential check) -/
theorem bld_selftest (sh : Regs) :
    selfTestActs sh = (Bld.selfTestSetup sh).map W.act ++ ((selfTestActs sh).drop 6).take 9
      ++ (Bld.selfTestCleanup sh).map W.act := by
  simp [selfTestActs, Bld.selfTestSetup, Bld.selfTestCleanup, W.act, flag, clr, DS.definedMask]

/-- nothing was skipped: write sites per translated function (acc … tap, set-up, clean-up) -/
theorem bld_sites : Bld.writeSites = [3, 2, 10, 6, 2, 2, 6, 11, 13, 13, 4, 4, 6, 6] := by decide

end Thm
end Bma400
