/-
  Builders - the `write()` functions of the eleven configuration builders and the self-test
  set-up / clean-up, TRANSLATED from /repo/src/config.rs and /repo/src/config/*.rs on every run
  (tools/gen_builders.py -> Bma400/GeneratedBld.lean, by symbolic execution of the Rust source),
  ARE the hand-written scripts of Builders.lean / Driver.lean - for every recorded configuration
  `sh` and every builder copy `rq`, not only for sampled ones.

  The property theorems (C01, C06, C07, C08, C16, ...) are about `Request.script`; this file is
  the proof obligation that ties `Request.script` to the current text of the crate:

      source =(translator)= Generated.Bld.* =(this file)= accScript ... tapScript
             = Request.script q sh   (bld_script, for every request q)

  Together with Thm/Encoders.lean (register encoders / decoders, also translated) the whole
  configuration layer of the model is regenerated from the source and re-proved equal on every
  run; what remains tied only by the differential check is the builders' setter chains
  (`Request.target`), the API layer of lib.rs and the transports.

  The translator also enforces the COMMIT DISCIPLINE the interpreter assumes (`Eff.commit`): every
  `write_register(v)?` is followed, before the next fallible operation, by recording `v` in the
  configuration the driver keeps - recording early or late is what C16 forbids.
-/
import Bma400.Builders
import Bma400.Driver
import Bma400.GeneratedBld
namespace Bma400
namespace Thm
open R Generated

theorem dw_wIf (sh rq : Regs) (a : Nat) : dw sh rq a = wIf (sh a != rq a) a (rq a) := by
  unfold dw wIf; by_cases h : sh a = rq a <;> simp [h]

/-! Facts about bytes that make the proofs below independent of HOW the source decides to restore
    an interrupt it disabled (by comparing the temporary value with the original one, as the crate
    does, or by remembering a flag): clearing bits that are set changes the byte. -/

theorem has_clr_ne (b m : Byte) (h : has b m = true) : clr b m ≠ b := by
  intro e
  have : b &&& m = 0#8 := by
    have := congrArg (· &&& m) e
    simp only [clr, BitVec.and_assoc] at this
    rw [show (~~~m &&& m) = 0#8 from by simp] at this
    simpa using this.symm
  simp [has, this] at h

theorem clr_clr (x a b : Byte) : clr (clr x a) b = clr x (uni a b) := by
  unfold clr uni; rw [BitVec.and_assoc, ← BitVec.not_or]

theorem has_uni (b m n : Byte) : has b (uni m n) = (has b m || has b n) := by
  rw [Bool.eq_iff_iff]
  simp only [has, uni, bne_iff_ne, ne_eq, Bool.or_eq_true, BitVec.and_or_distrib_left, BitVec.or_eq_zero_iff,
    Classical.not_and_iff_not_or_not]

theorem not_nand_not (a b : Bool) : (!(!a && !b)) = (a || b) := by cases a <;> cases b <;> rfl

/-- unfold both sides, normalise, and let `grind` settle the propositional structure -/
syntax "bridge" "[" Lean.Parser.Tactic.simpLemma,* "]" : tactic
macro_rules
  | `(tactic| bridge [$ls,*]) =>
    `(tactic| (simp [$ls,*, dws, dw_wIf, chg, clr_clr, odrIs100, odrIs200, actchEn, actFilt1, gen1En, gen2En,
                 gen1Filt1, gen2Filt1, tapEn] <;> grind [wIf, has_clr_ne, has_uni]))

theorem bld_acc (sh rq : Regs) : Bld.acc sh rq = accScript sh rq := by bridge [Bld.acc, accScript]
theorem bld_int (sh rq : Regs) : Bld.int sh rq = intScript sh rq := by bridge [Bld.int, intScript]
theorem bld_alp (sh rq : Regs) : Bld.alp sh rq = alpScript sh rq := by bridge [Bld.alp, alpScript]
theorem bld_awk (sh rq : Regs) : Bld.awk sh rq = awkScript sh rq := by bridge [Bld.awk, awkScript]
theorem bld_fifo (sh rq : Regs) : Bld.fifo sh rq = fifoScript sh rq := by bridge [Bld.fifo, fifoScript]
theorem bld_wkup (sh rq : Regs) : Bld.wkup sh rq = wkupScript sh rq := by bridge [Bld.wkup, wkupScript]
theorem bld_ori (sh rq : Regs) : Bld.ori sh rq = oriScript sh rq := by bridge [Bld.ori, oriScript, oriBlock]
theorem bld_act (sh rq : Regs) : Bld.act sh rq = actScript sh rq := by bridge [Bld.act, actScript]
theorem bld_tap (sh rq : Regs) : Bld.tap sh rq = tapScript sh rq := by bridge [Bld.tap, tapScript]
theorem bld_gen1 (sh rq : Regs) : Bld.gen1 sh rq = genScript .g1 sh rq := by
  bridge [Bld.gen1, genScript, genBlock, GenId.base, GenId.enMask, List.range, List.range.loop]
theorem bld_gen2 (sh rq : Regs) : Bld.gen2 sh rq = genScript .g2 sh rq := by
  bridge [Bld.gen2, genScript, genBlock, GenId.base, GenId.enMask, List.range, List.range.loop]

/-- the pin-mapping builder: the three temporaries are the model's folds (`pinTmp0/1/W`), whatever
    names the translator gave to the intermediate values -/
theorem bld_pin (sh rq : Regs) : Bld.pin sh rq = pinScript sh rq := by
  simp only [Bld.pin, pinScript, pinTmp0, pinTmp1, pinTmpW, List.foldl, clrIf, mapped12, mapped3, not_nand_not,
    bne_iff_ne, ne_eq, ite_not, clr_clr, dws, dw_wIf, List.flatMap_cons, List.flatMap_nil, List.append_nil,
    List.append_assoc]
  rfl

/-- **the tie**: `write()` of every builder, as translated from the current source, is the script the
    property theorems are about - for every request (any setter list) and every recorded configuration -/
theorem bld_script (q : Request) (sh : Regs) :
    q.script sh = (match q with
      | .acc _ => Bld.acc | .int _ => Bld.int | .pin _ => Bld.pin | .fifo _ => Bld.fifo
      | .alp _ => Bld.alp | .awk _ => Bld.awk | .wkup _ => Bld.wkup | .ori _ => Bld.ori
      | .gen .g1 _ => Bld.gen1 | .gen .g2 _ => Bld.gen2 | .act _ => Bld.act | .tap _ => Bld.tap) sh (q.target sh) := by
  cases q with
  | gen g l => cases g <;> simp [Request.script, bld_gen1, bld_gen2]
  | _ => simp [Request.script, bld_acc, bld_int, bld_pin, bld_fifo, bld_alp, bld_awk, bld_wkup, bld_ori, bld_act, bld_tap]

/-- the self test: its six set-up writes and six restoring writes, as translated from
    `Config::setup_self_test` / `cleanup_self_test`, are those of the model's `selfTestActs`
    (the nine actions in between - delays, SELF_TEST writes, the two data reads - are lib.rs, tied by
    the differential check) -/
theorem bld_selftest (sh : Regs) :
    selfTestActs sh = (Bld.selfTestSetup sh).map W.act ++ ((selfTestActs sh).drop 6).take 9
      ++ (Bld.selfTestCleanup sh).map W.act := by
  simp [selfTestActs, Bld.selfTestSetup, Bld.selfTestCleanup, W.act, flag, clr, DS.definedMask]

/-- nothing was skipped: the twelve write() functions (gen1 and gen2 share one) and the two self-test
    halves were all translated, each with at least one bus-write site -/
theorem bld_sites : Bld.writeSites.length = 14 ∧ Bld.writeSites.all (0 < ·) = true := by decide

end Thm
end Bma400
