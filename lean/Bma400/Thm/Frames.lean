/-
  Frames - the two transports (src/i2c.rs, src/spi.rs), TRANSLATED from the source on every run by
  executing `write_register` / `read_register` under EVERY pattern of failing raw HAL operations
  (tools/gen_builders.py --transport -> Bma400/GeneratedFrames.lean: 2 + 2 + 8 + 16 rows), ARE the
  model's `writeRegister` / `readRegister` (Driver.lean): for every fault schedule, every state,
  every register and value / buffer length, the raw operations attempted, in order, and the error
  returned (which operation, as IOError or ChipSelectPinError) are those of the row of the table
  selected by the schedule.

  C12 (I2C framing), C13 (chip-select bracket, read = address|0x80 + dummy byte, then exactly n
  data bytes), C14 (both transports refine one abstract executor), C15 (the very failure is
  returned, nothing is attempted after it except the chip-select release) and C20 (the release
  happens after a failed transfer) are theorems about `writeRegister` / `readRegister`; this file
  makes them theorems about what src/i2c.rs and src/spi.rs say now.
-/
import Bma400.Driver
import Bma400.GeneratedFrames
namespace Bma400
namespace Thm
open Generated

def lookupRow {α : Type} (t : List (List Bool × α)) (fv : List Bool) : Option α :=
  (t.find? (fun r => r.1 == fv)).map (·.2)

/-- C13 says "one dummy byte": its VALUE is the chip's don't-care (the crate sends 0x00, a rewrite
    may send anything).  The two-byte transfer that opens an SPI read is compared up to that byte. -/
def normRaw : Raw → Raw
  | .spiTransfer [x, _] => .spiTransfer [x, 0#8]
  | r => r

/-- only the operation after the falling chip-select edge is the address + dummy transfer -/
def normOps : List Raw → List Raw
  | a :: b :: rest => a :: normRaw b :: rest
  | l => l

def normRows (t : List (List Bool × List Raw × Option (Bool × Nat))) : List (List Bool × List Raw × Option (Bool × Nat)) :=
  t.map (fun r => (r.1, normOps r.2.1, r.2.2))

def errShape (base : Nat) : Option Err → Option (Bool × Nat)
  | none => none
  | some (.io k) => some (false, k - base)
  | some (.pin k) => some (true, k - base)
  | some _ => some (false, 1000)

def shapeW (base : Nat) (x : List JEntry × World × Option Err) : List Raw × Option (Bool × Nat) :=
  (x.1.map (·.raw), errShape base x.2.2)

def shapeR (base : Nat) (x : List JEntry × World × Except Err (List Byte)) : List Raw × Option (Bool × Nat) :=
  (x.1.map (·.raw), errShape base (match x.2.2 with | .ok _ => none | .error e => some e))

theorem frames_i2c_write (dev : Nat) (fails : Nat → Bool) (w : World) (a : Nat) (v : Byte) :
    lookupRow (Frames.i2c_write dev a 0 v) [fails w.idx] = some (shapeW w.idx (writeRegister (.i2c dev) fails w a v)) := by
  cases h0 : fails w.idx <;>
    simp [lookupRow, Frames.i2c_write, shapeW, errShape, writeRegister, World.raw, h0]

theorem frames_i2c_read (dev : Nat) (fails : Nat → Bool) (w : World) (a n : Nat) :
    lookupRow (Frames.i2c_read dev a n 0#8) [fails w.idx] = some (shapeR w.idx (readRegister (.i2c dev) fails w a n)) := by
  cases h0 : fails w.idx <;>
    simp [lookupRow, Frames.i2c_read, shapeR, errShape, readRegister, World.raw, h0]

theorem frames_spi_write (fails : Nat → Bool) (w : World) (a : Nat) (v : Byte) :
    lookupRow (Frames.spi_write 0 a 0 v) [fails w.idx, fails (w.idx + 1), fails (w.idx + 2)]
      = some (shapeW w.idx (writeRegister .spi fails w a v)) := by
  cases h0 : fails w.idx <;> cases h1 : fails (w.idx + 1) <;> cases h2 : fails (w.idx + 2) <;>
    simp [lookupRow, Frames.spi_write, shapeW, errShape, writeRegister, World.raw, h0, h1, h2]

theorem frames_spi_read (fails : Nat → Bool) (w : World) (a n : Nat) :
    lookupRow (normRows (Frames.spi_read 0 a n 0#8)) [fails w.idx, fails (w.idx + 1), fails (w.idx + 2), fails (w.idx + 3)]
      = some (shapeR w.idx (readRegister .spi fails w a n)) := by
  cases h0 : fails w.idx <;> cases h1 : fails (w.idx + 1) <;> cases h2 : fails (w.idx + 2) <;>
    cases h3 : fails (w.idx + 3) <;>
    simp [lookupRow, normRows, normOps, normRaw, Frames.spi_read, shapeR, errShape, readRegister, World.raw, h0, h1, h2, h3]

/-! The read functions once more, for an EMPTY buffer (in the source `buffer.is_empty()` and
    `buffer.len() == 0` are then true): the same framing with a data phase of zero bytes - no
    special case that skips the transfer, the release or the transaction (r5-C20b, r5-C12b, agent-C13). -/

theorem frames_i2c_read_empty (dev : Nat) (fails : Nat → Bool) (w : World) (a : Nat) :
    lookupRow (Frames.i2c_read_empty dev a 0 0#8) [fails w.idx]
      = some (shapeR w.idx (readRegister (.i2c dev) fails w a 0)) := by
  cases h0 : fails w.idx <;>
    simp [lookupRow, Frames.i2c_read_empty, shapeR, errShape, readRegister, World.raw, h0]

theorem frames_spi_read_empty (fails : Nat → Bool) (w : World) (a : Nat) :
    lookupRow (normRows (Frames.spi_read_empty 0 a 0 0#8)) [fails w.idx, fails (w.idx + 1), fails (w.idx + 2), fails (w.idx + 3)]
      = some (shapeR w.idx (readRegister .spi fails w a 0)) := by
  cases h0 : fails w.idx <;> cases h1 : fails (w.idx + 1) <;> cases h2 : fails (w.idx + 2) <;>
    cases h3 : fails (w.idx + 3) <;>
    simp [lookupRow, normRows, normOps, normRaw, Frames.spi_read_empty, shapeR, errShape, readRegister, World.raw, h0, h1, h2, h3]

/-! ## Read off the translated tables directly (no model in between) -/

def isHigh : Raw → Bool | .csHigh => true | _ => false
def isLow : Raw → Bool | .csLow => true | _ => false

/-- C20 / C13 read off the TRANSLATED SPI transport directly (no model in between): in every one of
    the 8 + 16 + 16 executions, the first operation is the falling chip-select edge, and unless that
    edge itself failed the LAST operation attempted is the rising edge - whatever failed in between -/
theorem frames_spi_bracket (dev a n : Nat) (v : Byte) :
    (Frames.spi_write dev a n v ++ Frames.spi_read dev a n v ++ Frames.spi_read_empty dev a n v).all
      (fun r => (r.2.1.head?.map isLow == some true) &&
                (r.1.head? == some true || r.2.1.getLast?.map isHigh == some true)) = true := by
  simp [Frames.spi_write, Frames.spi_read, Frames.spi_read_empty, isHigh, isLow]

/-- C15 read off the translated transports directly: the result is Ok iff no ATTEMPTED operation
    failed, and otherwise names the FIRST operation that failed (k-th schedule bit set, none before) -/
def firstFail (fv : List Bool) (nOps : Nat) : Option Nat := (List.range nOps).find? (fun k => fv.getD k false)

theorem frames_first_failure (dev a n : Nat) (v : Byte) :
    (Frames.i2c_write dev a n v ++ Frames.i2c_read dev a n v ++ Frames.i2c_read_empty dev a n v ++
     Frames.spi_write dev a n v ++ Frames.spi_read dev a n v ++ Frames.spi_read_empty dev a n v).all
      (fun r => (r.2.2.map (·.2)) == firstFail r.1 r.2.1.length ||
                -- (after a failed transfer the release is still attempted; its own failure is not reported)
                (r.2.2.map (·.2)) == firstFail r.1 (r.2.1.length - 1)) = true := by
  simp [Frames.i2c_write, Frames.i2c_read, Frames.i2c_read_empty, Frames.spi_write, Frames.spi_read,
    Frames.spi_read_empty, firstFail, List.range, List.range.loop]

end Thm
end Bma400
