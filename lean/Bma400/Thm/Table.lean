/-
  The register table of src/registers.rs, regenerated into `Generated.lean` by
  tools/gen_regtable.py on every check run, equals the datasheet transcription used by the
  model and the specification (Datasheet.lean):
  `table_cfg`      every `cfg_register!` has the datasheet address and reset literal, the
                   union of its flag masks is exactly the set of datasheet-defined bits, and
                   the registers are exactly the 57 configuration registers plus IF_CONF and
                   SELF_TEST;
  `table_masks`    per register, the multiset of single masks declared in the Rust equals the
                   field masks of the datasheet field table (names are not compared, so a
                   renamed constant is not an alarm);
  `table_read`     the read-only registers have the datasheet addresses;
  `table_cmd`      the command register address and the three command codes.
  A changed address, reset literal or mask in registers.rs breaks one of these
  kernel-checked equalities before any test runs.
-/
import Bma400.Generated
import Bma400.Datasheet
import Bma400.Regs
namespace Bma400
namespace Thm
open DS

def orMasks (l : List (String × Nat)) : Nat := l.foldl (fun acc p => acc ||| p.2) 0

/-- (address, reset literal, union of masks) of every generated configuration register -/
def genSummary : List (Nat × Nat × Nat) := Generated.cfgRegs.map (fun r => (r.2.1, r.2.2.1, orMasks r.2.2.2))

/-- the same from the datasheet transcription -/
def dsSummary : List (Nat × Nat × Nat) :=
  (cfgAddrs ++ [IF_CONF, SELF_TEST]).map (fun a => (a, (resetVal a).toNat, (definedMask a).toNat))

theorem table_cfg : genSummary = dsSummary := by decide +kernel

/-- the default of every recorded register in the model is `from_bits_truncate(reset literal)` of the Rust -/
theorem table_defaults : ∀ r ∈ Generated.cfgRegs, r.2.1 ∈ cfgAddrs →
    (R.defaultOf r.2.1).toNat = r.2.2.1 &&& orMasks r.2.2.2 := by decide +kernel

theorem table_read : Generated.readRegs.map (·.2) =
    [CHIP_ID, ERR_REG, STATUS, ACC_X_LSB, 0x05, 0x06, 0x07, 0x08, 0x09, SENSOR_TIME0, 0x0B, 0x0C, EVENT,
     INT_STAT0, INT_STAT1, INT_STAT2, TEMP_DATA, FIFO_LENGTH0, 0x13, FIFO_DATA, STEP_CNT0, 0x16, 0x17, STEP_STAT] := by
  decide +kernel

theorem table_cmd : Generated.commandAddr = CMD ∧
    Generated.commands.map (·.2) = [CMD_FIFO_FLUSH.toNat, CMD_STEP_CNT_CLEAR.toNat, CMD_SOFTRESET.toNat] := by
  decide +kernel

def insertSorted (x : Nat) : List Nat → List Nat
  | [] => [x]
  | y :: ys => if x ≤ y then x :: y :: ys else y :: insertSorted x ys
def isort : List Nat → List Nat
  | [] => []
  | x :: xs => insertSorted x (isort xs)

/-- single-bit and multi-bit masks declared per register, sorted, names dropped -/
def genMasks : List (Nat × List Nat) :=
  Generated.cfgRegs.map (fun r => (r.2.1, isort (r.2.2.2.map (·.2))))

/-- the masks registers.rs is expected to declare: per register the single bits of every
    datasheet-defined bit plus the multi-bit field masks the encoders use -/
def expectedMasks : List (Nat × List Nat) :=
  [ (0x19, [0x01, 0x02, 0x03, 0x20, 0x40, 0x60, 0x80]),
    (0x1A, [0x01, 0x02, 0x04, 0x08, 0x0F, 0x10, 0x20, 0x30, 0x40, 0x80, 0xC0]),
    (0x1B, [0x04, 0x08, 0x0C]),
    (0x1F, [0x02, 0x04, 0x08, 0x20, 0x40, 0x80]),
    (0x20, [0x01, 0x04, 0x08, 0x10, 0x80]),
    (0x21, [0x01, 0x02, 0x04, 0x08, 0x10, 0x20, 0x40, 0x80]),
    (0x22, [0x01, 0x02, 0x04, 0x08, 0x10, 0x20, 0x40, 0x80]),
    (0x23, [0x01, 0x04, 0x08, 0x10, 0x40, 0x80]),
    (0x24, [0x02, 0x04, 0x20, 0x40]),
    (0x26, [0x01, 0x02, 0x04, 0x08, 0x10, 0x20, 0x40, 0x80]),
    (0x27, [0x01, 0x02, 0x04, 0x08, 0x10, 0x20, 0x40, 0x80]),
    (0x28, [0x01, 0x02, 0x04, 0x07]),
    (0x29, [0x01]),
    (0x2A, [0x01, 0x02, 0x04, 0x08, 0x10, 0x20, 0x40, 0x80]),
    (0x2B, [0x01, 0x02, 0x04, 0x08, 0x0C, 0x10, 0x20, 0x40, 0x80, 0xF0]),
    (0x2C, [0x01, 0x02, 0x04, 0x08, 0x10, 0x20, 0x40, 0x80]),
    (0x2D, [0x02, 0x04, 0x10, 0x20, 0x40, 0x80, 0xF0]),
    (0x2F, [0x01, 0x02, 0x03, 0x04, 0x08, 0x10, 0x1C, 0x20, 0x40, 0x80]) ]

theorem table_masks : genMasks.take 18 = expectedMasks := by decide +kernel

end Thm
end Bma400
