/-
  C04 - FIFO byte streams decode to exactly the frames and values the sensor encoded.

  `Fifo.encode` (Fifo.lean) is the datasheet frame format: data frames `0x80 | res<<4 | z<<3
  | y<<2 | x<<1` followed by one (8-bit mode: bits 11:4) or two (12-bit mode: bits 3:0, then
  bits 11:4) bytes per enabled axis in x, y, z order; control frames `0x48` + one byte
  (bit 1 source change, bit 2 filter-1 bandwidth change, bit 3 ACC_CONFIG1 change); sensor
  time frames `0xA0` + three bytes little-endian; FIFO-empty marker `0x80 0x00`.
  `C04_frame`    for EVERY well-formed frame (all 4096 sample values per axis by kernel
                 evaluation of the nibble assembly, every non-empty axis subset, both
                 resolutions, all control flag combinations, every 24-bit time) and whatever
                 surrounds it in the buffer, all eight accessors return the encoded values
                 (`Fifo.view`: sign-extended 12-bit samples, 8-bit mode with the low four bits
                 zero, `None` for every field the frame does not carry);
  `C04_iterate`  for EVERY list of well-formed frames (any length - induction) followed by
                 nothing, the empty marker plus anything, or ANY strict prefix of a frame,
                 iteration yields exactly those frames, at their positions, in order, and then
                 stops - never a partial frame;
  `C04`          both, for `frames` = what `read_fifo_frames(..)` hands to a `for` loop.
-/
import Bma400.Thm.C05
import Bma400.Thm.C09
set_option linter.unusedSimpArgs false
namespace Bma400
namespace Thm
open T Fifo

/-! ### sample assembly: every 12-bit value, both resolutions (kernel-evaluated) -/

/-- 12-bit mode: low nibble in the first byte, upper eight bits in the second
    (all 4096 values as 256 x 16) -/
theorem asm12' : ∀ k, k < 256 → ∀ l, l < 16 →
    i16le ((BitVec.ofNat 8 l &&& 0x0F#8) ||| (BitVec.ofNat 8 k <<< 4))
      (if BitVec.ofNat 8 k >>> 7 = 0#8 then BitVec.ofNat 8 k >>> 4
       else BitVec.ofNat 8 k >>> 4 ||| 0xF0#8) = DS.sext12 (k * 16 + l) := by decide +kernel

theorem asm12 (n : Nat) (h : n < 4096) :
    i16le ((BitVec.ofNat 8 (n % 16) &&& 0x0F#8) ||| (BitVec.ofNat 8 (n / 16) <<< 4))
      (if BitVec.ofNat 8 (n / 16) >>> 7 = 0#8 then BitVec.ofNat 8 (n / 16) >>> 4
       else BitVec.ofNat 8 (n / 16) >>> 4 ||| 0xF0#8) = DS.sext12 n := by
  have := asm12' (n / 16) (by omega) (n % 16) (by omega)
  rw [this]; congr 1; omega

/-- 8-bit mode: the upper eight bits, low four bits zero -/
theorem asm8 : ∀ k, k < 256 →
    i16le (BitVec.ofNat 8 k <<< 4)
      (if BitVec.ofNat 8 k >>> 7 = 0#8 then BitVec.ofNat 8 k >>> 4
       else BitVec.ofNat 8 k >>> 4 ||| 0xF0#8) = DS.sext12 (k * 16) := by decide +kernel

theorem sample12 (v : Int) (h : -2048 ≤ v ∧ v ≤ 2047) : DS.sext12 (DS.twos12 v) = v :=
  sext12_eq _ _ h (by simp only [DS.twos12]; omega)

theorem sample8 (v : Int) (h : -2048 ≤ v ∧ v ≤ 2047) : DS.sext12 (DS.twos12 v / 16 * 16) = v - v % 16 :=
  sext12_eq _ _ (by omega) (by simp only [DS.twos12]; omega)

theorem twos12_lt (v : Int) : DS.twos12 v < 4096 := by simp only [DS.twos12]; omega

/-! ### a frame inside a buffer is read exactly as the encoded bytes -/

theorem at_encode (pre post l : List Byte) (i : Nat) :
    Frame.at (pre ++ l ++ post) ⟨pre.length, pre.length + l.length⟩ i = l[i]? := by
  unfold Frame.at
  by_cases h : i < l.length
  · have h1 : pre.length + i < pre.length + l.length := by omega
    simp only [h1, if_true]
    rw [List.append_assoc, List.getElem?_append_right (by omega)]
    simp [List.getElem?_append_left h]
  · have h1 : ¬ pre.length + i < pre.length + l.length := by omega
    simp only [h1, if_false]
    rw [List.getElem?_eq_none (by omega)]

theorem at_self (l : List Byte) (i : Nat) : Frame.at l ⟨0, l.length⟩ i = l[i]? := by
  have := at_encode [] [] l i
  simpa using this

/-- the accessors only look at the frame through `Frame.at` -/
theorem view_congr (buf buf' : List Byte) (fr fr' : Frame) (h : ∀ i, fr.at buf i = fr'.at buf' i) :
    fr.view buf = fr'.view buf' := by
  simp only [Frame.view, Frame.frameType, Frame.x, Frame.y, Frame.z, Frame.time, Frame.fifoSrcChg, Frame.filt1BwChg,
    Frame.acc1Chg, Frame.ctrlBit, Frame.dataAtOffset, h]

theorem view_in_buffer (pre post l : List Byte) :
    Frame.view (pre ++ l ++ post) ⟨pre.length, pre.length + l.length⟩ = Frame.view l ⟨0, l.length⟩ :=
  view_congr _ _ _ _ (fun i => by rw [at_encode, at_self])

/-! ### one encoded frame: all accessors return the encoded values -/

theorem view_control (a b c : Bool) :
    Frame.view (encode (.control a b c)) ⟨0, (encode (.control a b c)).length⟩ = some (view (.control a b c)) := by
  cases a <;> cases b <;> cases c <;> decide

theorem view_time (t : Nat) (ht : t < 2 ^ 24) :
    Frame.view (encode (.time t)) ⟨0, (encode (.time t)).length⟩ = some (view (.time t)) := by
  simp only [encode, List.length_cons, List.length_nil]
  have hft : T.frameType (hdr 0xA0#8) = .time := by decide
  simp [Frame.view, Frame.frameType, Frame.x, Frame.y, Frame.z, Frame.time, Frame.fifoSrcChg, Frame.filt1BwChg,
    Frame.acc1Chg, Frame.ctrlBit, Frame.at, hft, view, u24le, T.hasX, T.hasY, T.hasZ]
  omega

/-- the value read back for one encoded sample -/
theorem read12 (v : Int) (h : -2048 ≤ v ∧ v ≤ 2047) :
    i16le ((BitVec.ofNat 8 (DS.twos12 v % 16) &&& 0x0F#8) ||| (BitVec.ofNat 8 (DS.twos12 v / 16) <<< 4))
      (if BitVec.ofNat 8 (DS.twos12 v / 16) >>> 7 = 0#8 then BitVec.ofNat 8 (DS.twos12 v / 16) >>> 4
       else BitVec.ofNat 8 (DS.twos12 v / 16) >>> 4 ||| 0xF0#8) = v := by
  rw [asm12 _ (twos12_lt v), sample12 v h]

theorem read8 (v : Int) (h : -2048 ≤ v ∧ v ≤ 2047) :
    i16le (BitVec.ofNat 8 (DS.twos12 v / 16) <<< 4)
      (if BitVec.ofNat 8 (DS.twos12 v / 16) >>> 7 = 0#8 then BitVec.ofNat 8 (DS.twos12 v / 16) >>> 4
       else BitVec.ofNat 8 (DS.twos12 v / 16) >>> 4 ||| 0xF0#8) = v - v % 16 := by
  have hlt : DS.twos12 v / 16 < 256 := by have := twos12_lt v; omega
  rw [asm8 _ hlt, sample8 v h]

theorem view_data (r : Bool) (x y z : Option Int) (hwf : (FrameSpec.data r x y z).wf = true) :
    Frame.view (encode (.data r x y z)) ⟨0, (encode (.data r x y z)).length⟩ = some (view (.data r x y z)) := by
  simp only [FrameSpec.wf, Bool.and_eq_true, List.all_cons, List.all_nil, Bool.and_true] at hwf
  obtain ⟨hne, hx, hy, hz⟩ := hwf
  cases r <;> cases x <;> cases y <;> cases z <;> simp at hne <;>
    (try simp at hx) <;> (try simp at hy) <;> (try simp at hz) <;>
    simp [encode, optSample, sample, bitIf, Frame.view, Frame.frameType, Frame.x, Frame.y, Frame.z, Frame.time,
      Frame.fifoSrcChg, Frame.filt1BwChg, Frame.acc1Chg, Frame.ctrlBit, Frame.dataAtOffset, Frame.at, view, carried,
      T.frameType, hdr, T.hasX, T.hasY, T.hasZ, T.resolutionIs12bit, read12, read8, *]

/-- C04 for one frame: whatever surrounds it in the buffer -/
theorem C04_frame (f : FrameSpec) (hwf : f.wf = true) (pre post : List Byte) :
    Frame.view (pre ++ encode f ++ post) ⟨pre.length, pre.length + (encode f).length⟩ = some (view f) := by
  rw [view_in_buffer]
  cases f with
  | data r x y z => exact view_data r x y z hwf
  | control a b c => exact view_control a b c
  | time t => exact view_time t (by simpa [FrameSpec.wf] using hwf)

/-! ### the iterator on an encoded stream -/

/-- header of an encoded frame: not the empty marker, payload length = encoded length - 1 -/
theorem encode_header (f : FrameSpec) (hwf : f.wf = true) :
    ∃ hb rest, encode f = hb :: rest ∧
      (T.frameType (hdr hb) == .data && !hasData (hdr hb)) = false ∧
      numPayloadBytes (hdr hb) + 1 = (encode f).length := by
  cases f with
  | control a b c => exact ⟨_, _, rfl, by decide, by simp [encode]; decide⟩
  | time t => exact ⟨_, _, rfl, by decide, by simp [encode]; decide⟩
  | data r x y z =>
    simp only [FrameSpec.wf, Bool.and_eq_true] at hwf
    obtain ⟨hne, _⟩ := hwf
    refine ⟨_, _, rfl, ?_, ?_⟩
    all_goals (cases r <;> cases x <;> cases y <;> cases z <;> simp at hne)
    all_goals (try simp [encode, optSample, sample, bitIf])
    all_goals (try decide)

theorem next_at_frame (f : FrameSpec) (hwf : f.wf = true) (pre post : List Byte) :
    next (pre ++ encode f ++ post) ⟨pre.length⟩ =
      (some ⟨pre.length, pre.length + (encode f).length⟩, ⟨pre.length + (encode f).length⟩) := by
  obtain ⟨hb, rest, he, hnm, hlen⟩ := encode_header f hwf
  have hget : (pre ++ encode f ++ post)[pre.length]? = some hb := by
    rw [List.append_assoc, List.getElem?_append_right (by omega)]
    simp [he]
  have hlt : ¬ pre.length ≥ (pre ++ encode f ++ post).length := by
    simp [he]
  unfold next
  simp only [hlt, if_false, hget, hnm, Bool.false_eq_true]
  have hfit : ¬ pre.length + numPayloadBytes (hdr hb) + 1 > (pre ++ encode f ++ post).length := by
    simp only [List.length_append]; omega
  simp only [hfit, if_false]
  have : pre.length + numPayloadBytes (hdr hb) + 1 = pre.length + (encode f).length := by omega
  simp [this]

/-- at the tail (nothing, the empty marker, or a frame cut off by the end) iteration stops -/
theorem next_at_tail (tl : Tail) (hwf : tl.wf = true) (pre : List Byte) :
    (next (pre ++ tl.bytes) ⟨pre.length⟩).1 = none := by
  cases tl with
  | none => simp [Tail.bytes, next]
  | marker rest =>
    have hget : (pre ++ (emptyMarker ++ rest))[pre.length]? = some 0x80#8 := by
      rw [List.getElem?_append_right (by omega)]; simp [emptyMarker]
    have hlt : ¬ pre.length ≥ (pre ++ (emptyMarker ++ rest)).length := by simp [emptyMarker]
    unfold next
    simp only [Tail.bytes, hlt, if_false, hget]
    have : (T.frameType (hdr 0x80#8) == .data && !hasData (hdr 0x80#8)) = true := by decide
    simp [this]
  | cut f k =>
    simp only [Tail.wf, Bool.and_eq_true, decide_eq_true_eq] at hwf
    obtain ⟨hf, hk0, hk⟩ := hwf
    obtain ⟨hb, rest, he, hnm, hlen⟩ := encode_header f hf
    have htk : ((encode f).take k)[0]? = some hb := by
      rw [he]; cases k with
      | zero => omega
      | succ k => simp
    have hlenk : ((encode f).take k).length = k := by simp; omega
    have hget : (pre ++ (encode f).take k)[pre.length]? = some hb := by
      rw [List.getElem?_append_right (by omega)]; simpa using htk
    have hlt : ¬ pre.length ≥ (pre ++ (encode f).take k).length := by
      simp only [List.length_append, hlenk]; omega
    have hfit : pre.length + numPayloadBytes (hdr hb) + 1 > (pre ++ (encode f).take k).length := by
      simp only [List.length_append, hlenk]; omega
    show (next (pre ++ (encode f).take k) ⟨pre.length⟩).1 = none
    unfold next
    simp only [hlt, if_false, hget, hnm, Bool.false_eq_true]
    rw [if_pos hfit]

/-- the frames of an encoded stream, by position -/
def framesAt : Nat → List FrameSpec → List Frame
  | _, [] => []
  | off, f :: fs => ⟨off, off + (encode f).length⟩ :: framesAt (off + (encode f).length) fs

/-- C04: iterating the encoded stream yields exactly the encoded frames, in order, then stops -/
theorem C04_iterate (fs : List FrameSpec) (tl : Tail) (htl : tl.wf = true) :
    ∀ (pre : List Byte) (fuel : Nat), (∀ f ∈ fs, f.wf = true) → fuel ≥ fs.length + 1 →
      iterate (pre ++ encodeAll fs ++ tl.bytes) ⟨pre.length⟩ fuel = framesAt pre.length fs := by
  induction fs with
  | nil =>
    intro pre fuel _ hfuel
    cases fuel with
    | zero => simp at hfuel
    | succ fuel =>
      simp only [encodeAll, List.flatMap_nil, List.append_nil, iterate, framesAt]
      have := next_at_tail tl htl pre
      rcases hx : next (pre ++ tl.bytes) ⟨pre.length⟩ with ⟨o, it'⟩
      rw [hx] at this
      simp only at this
      subst this
      rfl
  | cons f fs ih =>
    intro pre fuel hwf hfuel
    cases fuel with
    | zero => simp at hfuel
    | succ fuel =>
      have hf := hwf f (by simp)
      have e : pre ++ encodeAll (f :: fs) ++ tl.bytes = pre ++ encode f ++ (encodeAll fs ++ tl.bytes) := by
        simp [encodeAll, List.append_assoc]
      simp only [iterate, framesAt]
      rw [e, next_at_frame f hf pre (encodeAll fs ++ tl.bytes)]
      simp only
      have := ih (pre ++ encode f) fuel (fun g hg => hwf g (by simp [hg])) (by simp at hfuel; omega)
      simp only [List.length_append] at this
      rw [← this]
      simp [List.append_assoc]

/-- ... and every one of them reads back as encoded -/
theorem C04_views (fs : List FrameSpec) (hwf : ∀ f ∈ fs, f.wf = true) :
    ∀ (pre post : List Byte),
      (framesAt pre.length fs).map (fun fr => fr.view (pre ++ encodeAll fs ++ post)) = fs.map (fun f => some (view f)) := by
  induction fs with
  | nil => intro pre post; rfl
  | cons f fs ih =>
    intro pre post
    have hf := hwf f (by simp)
    have e : pre ++ encodeAll (f :: fs) ++ post = pre ++ encode f ++ (encodeAll fs ++ post) := by
      simp [encodeAll, List.append_assoc]
    simp only [framesAt, List.map_cons]
    congr 1
    · rw [e]; exact C04_frame f hf pre _
    · have := ih (fun g hg => hwf g (by simp [hg])) (pre ++ encode f) post
      simp only [List.length_append] at this
      have e2 : pre ++ encodeAll (f :: fs) ++ post = pre ++ encode f ++ encodeAll fs ++ post := by
        simp [encodeAll, List.append_assoc]
      rw [e2]; exact this

/-- C04 as the user sees it: `read_fifo_frames(buffer).collect()` on a buffer holding the
    encoded stream followed by a valid tail -/
theorem C04 (fs : List FrameSpec) (tl : Tail) (hwf : ∀ f ∈ fs, f.wf = true) (htl : tl.wf = true) :
    (frames (encodeAll fs ++ tl.bytes)).map (fun fr => fr.view (encodeAll fs ++ tl.bytes)) =
      fs.map (fun f => some (view f)) ∧
    (frames (encodeAll fs ++ tl.bytes)).length = fs.length := by
  have hlen : (encodeAll fs ++ tl.bytes).length + 1 ≥ fs.length + 1 := by
    have : ∀ l : List FrameSpec, (∀ f ∈ l, f.wf = true) → (encodeAll l).length ≥ l.length := by
      intro l
      induction l with
      | nil => intro _; simp [encodeAll]
      | cons g l ih =>
        intro h
        obtain ⟨hb, rest, he, _, _⟩ := encode_header g (h g (by simp))
        have := ih (fun x hx => h x (by simp [hx]))
        simp only [encodeAll, List.flatMap_cons, List.length_append, List.length_cons] at this ⊢
        rw [he]; simp only [List.length_cons]; omega
    have := this fs hwf
    simp only [List.length_append]; omega
  have hit := C04_iterate fs tl htl [] ((encodeAll fs ++ tl.bytes).length + 1) hwf hlen
  simp only [List.nil_append, List.length_nil] at hit
  unfold frames
  rw [hit]
  have hv := C04_views fs hwf [] tl.bytes
  simp only [List.nil_append, List.length_nil] at hv
  refine ⟨hv, ?_⟩
  have : ∀ (l : List FrameSpec) (off : Nat), (framesAt off l).length = l.length := by
    intro l; induction l with
    | nil => intro _; rfl
    | cons g l ih => intro off; simp [framesAt, ih]
  exact this fs 0

/-- non-vacuity: the stream of the crate's documentation example -/
example : (frames [0x48#8, 0x6E#8, 0x9E#8, 0x01#8, 0x80#8, 0x0F#8, 0xFF#8, 0x0F#8, 0x7F#8, 0xA0#8, 0xF8#8, 0xFF#8, 0xFF#8,
    0x80#8, 0x00#8]).length = 3 := by decide

end Thm
end Bma400
