/-
  Programs - C14 and C11 for whole programs of API calls (not one action list).

  `C14_program`: for EVERY list of operations, run fault-free over I2C and over SPI from
  devices with the same content and the same recorded configuration (SPI interface idle),
  every call has the same outcome (value or error) and the same decoded register-level
  accesses on both transports, and the final devices and recorded configurations are the same.
  `reset_reachable` / `C11_program`: from ANY reachable state a fault-free soft_reset returns Ok
  and leaves exactly the state of a fresh driver on that chip at its power-on values, so every
  further program behaves as on the fresh driver.
-/
import Bma400.Thm.Reach
import Bma400.Thm.C14
import Bma400.Thm.C11
set_option linter.unusedSimpArgs false
namespace Bma400
namespace Thm
open P R

/-- a program: the calls one after the other, fault-free; per call the journal and the outcome -/
def runProgram (t : Transport) : World → List Op → List (List JEntry × Outcome) × World
  | w, [] => ([], w)
  | w, op :: r =>
    let x := runOp t noFaults w op
    let y := runProgram t x.2.1 r
    ((x.1, x.2.2) :: y.1, y.2)

/-- two journals, one per transport, describe the same register-level accesses -/
def SameAccesses (dev : Nat) (a b : List (List JEntry × Outcome)) : Prop :=
  a.map (fun x => (decodeI2c dev x.1, x.2)) = b.map (fun x => (decodeSpi x.1, x.2))

/-- one call -/
theorem C14_call (dev : Nat) (op : Op) (wi ws : World) (hchip : Chip.Same wi.chip ws.chip)
    (hsh : wi.shadow = ws.shadow) (hcs : ws.chip.csHigh = true) (hsm : ws.chip.spiMode = true) :
    let ri := runOp (.i2c dev) noFaults wi op
    let rs := runOp .spi noFaults ws op
    decodeI2c dev ri.1 = decodeSpi rs.1 ∧ ri.2.2 = rs.2.2 ∧
    ri.2.1.shadow = rs.2.1.shadow ∧ Chip.Same ri.2.1.chip rs.2.1.chip ∧
    rs.2.1.chip.csHigh = true ∧ rs.2.1.chip.spiMode = true := by
  obtain ⟨wsc, wssh, wsi⟩ := ws
  simp only at hsh hchip hcs hsm
  subst hsh
  intro ri rs
  have hri : ri = runOp (.i2c dev) noFaults wi op := rfl
  have hrs : rs = runOp .spi noFaults { chip := wsc, shadow := wi.shadow, idx := wsi } op := rfl
  unfold runOp at hri hrs
  simp only at hri hrs
  cases hg : (op.plan wi.shadow).guard with
  | some e =>
    simp only [hg] at hri hrs
    rw [hri, hrs]
    exact ⟨rfl, rfl, rfl, hchip, hcs, hsm⟩
  | none =>
    simp only [hg] at hri hrs
    have hwf := plan_wf wi.shadow op
    have h14 := C14 dev (op.plan wi.shadow).acts hwf { wi with idx := 0 } { chip := wsc, shadow := wi.shadow, idx := 0 } []
      hchip rfl hcs hsm
    have hflags := (exec_spi_refines (op.plan wi.shadow).acts hwf { chip := wsc, shadow := wi.shadow, idx := 0 } [] hcs hsm).2
    rcases hxi : exec (.i2c dev) noFaults { wi with idx := 0 } (op.plan wi.shadow).acts [] with ⟨ji, wi', resi⟩
    rcases hxs : exec .spi noFaults { chip := wsc, shadow := wi.shadow, idx := 0 } (op.plan wi.shadow).acts [] with ⟨js, ws', ress⟩
    rw [hxi, hxs] at h14
    rw [hxs] at hflags
    rw [hxi] at hri
    rw [hxs] at hrs
    obtain ⟨d, ⟨out, o1, o2⟩, s, c⟩ := h14
    simp only at o1 o2 d s c hflags
    subst o1 o2
    simp only at hri hrs
    rw [hri, hrs]
    simp only
    exact ⟨d, by rw [s], s, c, hflags.1, hflags.2⟩

/-- C14 for every program -/
theorem C14_program (dev : Nat) (ops : List Op) :
    ∀ (wi ws : World), Chip.Same wi.chip ws.chip → wi.shadow = ws.shadow →
      ws.chip.csHigh = true → ws.chip.spiMode = true →
      SameAccesses dev (runProgram (.i2c dev) wi ops).1 (runProgram .spi ws ops).1 ∧
      (runProgram (.i2c dev) wi ops).2.shadow = (runProgram .spi ws ops).2.shadow ∧
      Chip.Same (runProgram (.i2c dev) wi ops).2.chip (runProgram .spi ws ops).2.chip := by
  induction ops with
  | nil => intro wi ws hc hs _ _; exact ⟨rfl, hs, hc⟩
  | cons op r ih =>
    intro wi ws hc hs hcs hsm
    obtain ⟨d, o, s, c, f1, f2⟩ := C14_call dev op wi ws hc hs hcs hsm
    obtain ⟨a1, a2, a3⟩ := ih _ _ c s f1 f2
    refine ⟨?_, a2, a3⟩
    unfold SameAccesses at a1 ⊢
    simp only [runProgram, List.map_cons]
    rw [d, o, a1]

/-- C11 from every reachable state: a fault-free soft reset returns Ok and leaves the recorded
    configuration at the defaults and every register from 0x19 up at its reset value (the
    registers below are read-only status / data) - the state of a fresh driver on that chip -/
theorem reset_reachable (t : Transport) (w : World) (hw : WInv t w) :
    let r := runOp t noFaults w .softReset
    r.2.2 = .ok "" ∧ r.2.1.shadow = shadowDefault ∧
    (∀ x, r.2.1.chip.regs x = if x ≥ 0x19 then DS.resetVal x else w.chip.regs x) ∧
    r.2.1.chip.pos = w.chip.pos ∧ r.2.1.chip.neg = w.chip.neg ∧ r.2.1.chip.fifo = w.chip.fifo ∧
    WInv t r.2.1 := by
  intro r
  have hstep : WInv t r.2.1 := by
    apply reach_step t noFaults w .softReset hw
    -- a fault-free journal has no failed operation at all
    have := exec_refines t (Op.softReset.plan w.shadow).acts (plan_wf _ _) { w with idx := 0 } [] hw.2
    cases t with
    | i2c dev => simp [runOp, Op.plan, exec, writeRegister_i2c, readRegister_i2c, noFaults_apply, onlyDataFailures]
    | spi => simp [runOp, Op.plan, exec, writeRegister_spi, readRegister_spi, noFaults_apply, onlyDataFailures]
  have href := exec_refines t (Op.softReset.plan w.shadow).acts (plan_wf _ _) { w with idx := 0 } [] hw.2
  have hr : r = runOp t noFaults w .softReset := rfl
  simp only [runOp, show (Op.softReset.plan w.shadow).guard = none from rfl] at hr
  rcases hx : exec t noFaults { w with idx := 0 } (Op.softReset.plan w.shadow).acts [] with ⟨j, w', res⟩
  rw [hx] at href hr
  obtain ⟨r1, r2, r3⟩ := href
  cases res with
  | error e => exact absurd r3 (by simp)
  | ok reads =>
    simp only at hr r1 r2
    have hch : Chip.Same r.2.1.chip
        (aexec w.chip w.shadow [.wr 0x7E cmd_SoftReset .reset, .rd 0x0D 1] []).1 := by rw [hr]; exact r1
    have hsh : r.2.1.shadow = (aexec w.chip w.shadow [.wr 0x7E cmd_SoftReset .reset, .rd 0x0D 1] []).2.1 := by
      rw [hr]; exact r2
    simp only [aexec, Chip.write, cmd_SoftReset, applyEff, if_true] at hch hsh
    refine ⟨by rw [hr]; simp [Op.finish, finishOutcome], hsh, ?_, hch.2.1, hch.2.2.1, hch.2.2.2, hstep⟩
    intro x; rw [hch.1]

/-- C11 for whole programs, from every reachable state: after the fault-free reset every further
    program - any operations, any fault schedules - produces exactly the journals and outcomes,
    and ends in exactly the state, that a driver constructed afresh (recorded configuration =
    defaults) produces on that chip, whose configuration registers hold their power-on values -/
theorem C11_program (t : Transport) (w : World) (hw : WInv t w) (prog : List (Op × (Nat → Bool))) :
    let r := runOp t noFaults w .softReset
    (runProg t r.2.1 prog).1 = (runProg t { chip := r.2.1.chip, shadow := shadowDefault } prog).1 ∧
    (prog ≠ [] → (runProg t r.2.1 prog).2 = (runProg t { chip := r.2.1.chip, shadow := shadowDefault } prog).2) ∧
    (∀ x ∈ DS.cfgAddrs, r.2.1.chip.regs x = DS.resetVal x) := by
  intro r
  obtain ⟨_, hsh, hregs, _⟩ := reset_reachable t w hw
  refine ⟨(C11_indist t prog r.2.1 hsh).1, (C11_indist t prog r.2.1 hsh).2, ?_⟩
  intro x hx
  have := (cfg_lt_128 x hx).1
  rw [hregs x]; simp [this]

end Thm
end Bma400
