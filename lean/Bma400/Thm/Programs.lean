/-
  Programs - C14 and C11 for whole programs of API calls (not one action list).

  `C14_program`: for EVERY list of operations, run fault-free over I2C and over SPI from
  devices with the same content and the same recorded configuration (SPI interface idle),
  every call has the same outcome (value or error) and the same decoded register-level
  accesses on both transports, and the final devices and recorded configurations are the same.
  `reset_reachable` / `C11_program`: from ANY reachable state a fault-free soft_reset returns Ok
  and leaves exactly the state of a fresh driver on that chip at its power-on values, so every
  further program behaves as on the fresh driver.
-/
import Bma400.Thm.Reach
import Bma400.Thm.C14
import Bma400.Thm.C11
set_option linter.unusedSimpArgs false
namespace Bma400
namespace Thm
open P R

/-- a program: the calls one after the other, fault-free; per call the journal and the outcome -/
def runProgram (t : Transport) : World → List Op → List (List JEntry × Outcome) × World
  | w, [] => ([], w)
  | w, op :: r =>
    let x := runOp t noFaults w op
    let y := runProgram t x.2.1 r
    ((x.1, x.2.2) :: y.1, y.2)

/-- two journals, one per transport, describe the same register-level accesses -/
def SameAccesses (dev : Nat) (a b : List (List JEntry × Outcome)) : Prop :=
  a.map (fun x => (decodeI2c dev x.1, x.2)) = b.map (fun x => (decodeSpi x.1, x.2))

/-- one call -/
theorem C14_call (dev : Nat) (op : Op) (wi ws : World) (hchip : Chip.Same wi.chip ws.chip)
    (hsh : wi.shadow = ws.shadow) (hcs : ws.chip.csHigh = true) (hsm : ws.chip.spiMode = true) :
    let ri := runOp (.i2c dev) noFaults wi op
    let rs := runOp .spi noFaults ws op
    decodeI2c dev ri.1 = decodeSpi rs.1 ∧ ri.2.2 = rs.2.2 ∧
    ri.2.1.shadow = rs.2.1.shadow ∧ Chip.Same ri.2.1.chip rs.2.1.chip ∧
    rs.2.1.chip.csHigh = true ∧ rs.2.1.chip.spiMode = true := by
  obtain ⟨wsc, wssh, wsi⟩ := ws
  simp only at hsh hchip hcs hsm
  subst hsh
  intro ri rs
  have hri : ri = runOp (.i2c dev) noFaults wi op := rfl
  have hrs : rs = runOp .spi noFaults { chip := wsc, shadow := wi.shadow, idx := wsi } op := rfl
  unfold runOp at hri hrs
  simp only at hri hrs
  cases hg : (op.plan wi.shadow).guard with
  | some e =>
    simp only [hg] at hri hrs
    rw [hri, hrs]
    exact ⟨rfl, rfl, rfl, hchip, hcs, hsm⟩
  | none =>
    simp only [hg] at hri hrs
    have hwf := plan_wf wi.shadow op
    have h14 := C14 dev (op.plan wi.shadow).acts hwf { wi with idx := 0 } { chip := wsc, shadow := wi.shadow, idx := 0 } []
      hchip rfl hcs hsm
    have hflags := (exec_spi_refines (op.plan wi.shadow).acts hwf { chip := wsc, shadow := wi.shadow, idx := 0 } [] hcs hsm).2
    rcases hxi : exec (.i2c dev) noFaults { wi with idx := 0 } (op.plan wi.shadow).acts [] with ⟨ji, wi', resi⟩
    rcases hxs : exec .spi noFaults { chip := wsc, shadow := wi.shadow, idx := 0 } (op.plan wi.shadow).acts [] with ⟨js, ws', ress⟩
    rw [hxi, hxs] at h14
    rw [hxs] at hflags
    rw [hxi] at hri
    rw [hxs] at hrs
    obtain ⟨d, ⟨out, o1, o2⟩, s, c⟩ := h14
    simp only at o1 o2 d s c hflags
    subst o1 o2
    simp only at hri hrs
    rw [hri, hrs]
    simp only
    exact ⟨d, by rw [s], s, c, hflags.1, hflags.2⟩

/-- C14 for every program -/
theorem C14_program (dev : Nat) (ops : List Op) :
    ∀ (wi ws : World), Chip.Same wi.chip ws.chip → wi.shadow = ws.shadow →
      ws.chip.csHigh = true → ws.chip.spiMode = true →
      SameAccesses dev (runProgram (.i2c dev) wi ops).1 (runProgram .spi ws ops).1 ∧
      (runProgram (.i2c dev) wi ops).2.shadow = (runProgram .spi ws ops).2.shadow ∧
      Chip.Same (runProgram (.i2c dev) wi ops).2.chip (runProgram .spi ws ops).2.chip := by
  induction ops with
  | nil => intro wi ws hc hs _ _; exact ⟨rfl, hs, hc⟩
  | cons op r ih =>
    intro wi ws hc hs hcs hsm
    obtain ⟨d, o, s, c, f1, f2⟩ := C14_call dev op wi ws hc hs hcs hsm
    obtain ⟨a1, a2, a3⟩ := ih _ _ c s f1 f2
    refine ⟨?_, a2, a3⟩
    unfold SameAccesses at a1 ⊢
    simp only [runProgram, List.map_cons]
    rw [d, o, a1]

/-- C11 from every reachable state: a fault-free soft reset returns Ok and leaves the recorded
    configuration at the defaults and every register from 0x19 up at its reset value (the
    registers below are read-only status / data) - the state of a fresh driver on that chip -/
theorem reset_reachable (t : Transport) (w : World) (hw : WInv t w) :
    let r := runOp t noFaults w .softReset
    r.2.2 = .ok "" ∧ r.2.1.shadow = shadowDefault ∧
    (∀ x, r.2.1.chip.regs x = if x ≥ 0x19 then DS.resetVal x else w.chip.regs x) ∧
    r.2.1.chip.pos = w.chip.pos ∧ r.2.1.chip.neg = w.chip.neg ∧ r.2.1.chip.fifo = w.chip.fifo ∧
    WInv t r.2.1 := by
  intro r
  have hstep : WInv t r.2.1 := by
    apply reach_step t noFaults w .softReset hw
    -- a fault-free journal has no failed operation at all
    have := exec_refines t (Op.softReset.plan w.shadow).acts (plan_wf _ _) { w with idx := 0 } [] hw.2
    cases t with
    | i2c dev => simp [runOp, Op.plan, exec, writeRegister_i2c, readRegister_i2c, noFaults_apply, onlyDataFailures]
    | spi => simp [runOp, Op.plan, exec, writeRegister_spi, readRegister_spi, noFaults_apply, onlyDataFailures]
  have href := exec_refines t (Op.softReset.plan w.shadow).acts (plan_wf _ _) { w with idx := 0 } [] hw.2
  have hr : r = runOp t noFaults w .softReset := rfl
  simp only [runOp, show (Op.softReset.plan w.shadow).guard = none from rfl] at hr
  rcases hx : exec t noFaults { w with idx := 0 } (Op.softReset.plan w.shadow).acts [] with ⟨j, w', res⟩
  rw [hx] at href hr
  obtain ⟨r1, r2, r3⟩ := href
  cases res with
  | error e => exact absurd r3 (by simp)
  | ok reads =>
    simp only at hr r1 r2
    have hch : Chip.Same r.2.1.chip
        (aexec w.chip w.shadow [.wr 0x7E cmd_SoftReset .reset, .rd 0x0D 1] []).1 := by rw [hr]; exact r1
    have hsh : r.2.1.shadow = (aexec w.chip w.shadow [.wr 0x7E cmd_SoftReset .reset, .rd 0x0D 1] []).2.1 := by
      rw [hr]; exact r2
    simp only [aexec, Chip.write, cmd_SoftReset, applyEff, if_true] at hch hsh
    refine ⟨by rw [hr]; simp [Op.finish, finishOutcome], hsh, ?_, hch.2.1, hch.2.2.1, hch.2.2.2, hstep⟩
    intro x; rw [hch.1]

/-- C11 for whole programs, from every reachable state: after the fault-free reset every further
    program - any operations, any fault schedules - produces exactly the journals and outcomes,
    and ends in exactly the state, that a driver constructed afresh (recorded configuration =
    defaults) produces on that chip, whose configuration registers hold their power-on values -/
theorem C11_program (t : Transport) (w : World) (hw : WInv t w) (prog : List (Op × (Nat → Bool))) :
    let r := runOp t noFaults w .softReset
    (runProg t r.2.1 prog).1 = (runProg t { chip := r.2.1.chip, shadow := shadowDefault } prog).1 ∧
    (prog ≠ [] → (runProg t r.2.1 prog).2 = (runProg t { chip := r.2.1.chip, shadow := shadowDefault } prog).2) ∧
    (∀ x ∈ DS.cfgAddrs, r.2.1.chip.regs x = DS.resetVal x) := by
  intro r
  obtain ⟨_, hsh, hregs, _⟩ := reset_reachable t w hw
  refine ⟨(C11_indist t prog r.2.1 hsh).1, (C11_indist t prog r.2.1 hsh).2, ?_⟩
  intro x hx
  have := (cfg_lt_128 x hx).1
  rw [hregs x]; simp [this]

/-- what a run RECORDS it also WROTE: wherever the recorded configuration after the abstract run
    differs from the one before, its new value is one of the recorded writes of the list -/
theorem recorded_cw (acts : List Act) (hnr : NoReset acts) :
    ∀ (c : Chip) (sh : Regs) (reads : List (List Byte)) (a : Nat),
      (aexec c sh acts reads).2.1 a ≠ sh a → (⟨a, (aexec c sh acts reads).2.1 a⟩ : W) ∈ cw acts := by
  induction acts with
  | nil => intro c sh reads a h; exact absurd rfl h
  | cons act rest ih =>
    intro c sh reads a h
    have h3 : NoReset rest := fun x v hm => hnr x v (by simp [hm])
    cases act with
    | rd x n => simp only [aexec, cw] at h ⊢; exact ih h3 _ _ _ a h
    | delay ms => simp only [aexec, cw] at h ⊢; exact ih h3 _ _ _ a h
    | wr x v e =>
      cases e with
      | reset => exact absurd (by simp) (hnr x v)
      | none => simp only [aexec, cw, applyEff] at h ⊢; exact ih h3 _ _ _ a h
      | commit =>
        simp only [aexec, cw, applyEff] at h ⊢
        by_cases hfin : (aexec (c.write x v) (sh.set x v) rest reads).2.1 a = (sh.set x v) a
        · -- unchanged by the rest: then this very write changed it
          have hax : a = x := by
            apply Decidable.byContradiction
            intro hne
            apply h
            rw [hfin]; simp [Regs.set, hne]
          subst hax
          rw [hfin]; simp [Regs.set]
        · exact List.mem_cons_of_mem _ (ih h3 _ _ _ a hfin)

/-- the recorded writes are among the acknowledged writes of the decoded journal -/
theorem cw_sub_okWrites (acts : List Act) : ∀ w ∈ cw acts, w ∈ okWrites (acts.map Act.acc) := by
  induction acts with
  | nil => intro w hw; simp [cw] at hw
  | cons act rest ih =>
    intro w hw
    cases act with
    | rd x n => simp only [cw, List.map, Act.acc, okWrites] at hw ⊢; exact ih w hw
    | delay ms => simp only [cw, List.map, Act.acc, okWrites] at hw ⊢; exact ih w hw
    | wr x v e =>
      cases e with
      | commit =>
        simp only [cw, List.map, Act.acc, okWrites, List.mem_cons] at hw ⊢
        rcases hw with h | h
        · exact Or.inl h
        · exact Or.inr (ih w h)
      | none => simp only [cw, List.map, Act.acc, okWrites, List.mem_cons] at hw ⊢; exact Or.inr (ih w hw)
      | reset => simp only [cw, List.map, Act.acc, okWrites, List.mem_cons] at hw ⊢; exact Or.inr (ih w hw)

/-- `P.Recorded` (judged on the crate under C12 / C13) for every builder request and the self
    test, fault-free, over either transport: the journal decodes to the planned accesses
    (`C12_exact` / `C13_exact`) and every recorded change is one of its acknowledged writes -/
theorem C12_recorded (t : Transport) (w : World) (hw : WInv t w) (op : Op)
    (hop : (∃ q, op = .config q) ∨ op = .selfTest) (hg : (op.plan w.shadow).guard = none) :
    let r := runOp t noFaults w op
    decode t r.1 = some ((op.plan w.shadow).acts.map Act.acc) ∧
    P.Recorded w.shadow r.2.1.shadow (okWrites ((op.plan w.shadow).acts.map Act.acc)) := by
  intro r
  have hwf := plan_wf w.shadow op
  have hnr : NoReset (op.plan w.shadow).acts := by
    intro a v hm
    rcases hop with ⟨q, rfl⟩ | rfl
    · simp only [Op.plan] at hm
      split at hm
      · simp at hm
      · simp [W.act] at hm
    · simp [Op.plan, selfTestActs] at hm
  have href := exec_refines t (op.plan w.shadow).acts hwf { w with idx := 0 } [] hw.2
  have hdec : decode t (exec t noFaults { w with idx := 0 } (op.plan w.shadow).acts []).1 =
      some ((op.plan w.shadow).acts.map Act.acc) := by
    cases t with
    | i2c dev => exact C12_exact dev _ hwf _ _
    | spi => exact C13_exact _ hwf _ _
  have hr : r = runOp t noFaults w op := rfl
  simp only [runOp, hg] at hr
  rcases hx : exec t noFaults { w with idx := 0 } (op.plan w.shadow).acts [] with ⟨j, w', res⟩
  rw [hx] at href hr hdec
  obtain ⟨_, r2, r3⟩ := href
  cases res with
  | error e => exact absurd r3 (by simp)
  | ok reads =>
    simp only at hr r2 hdec
    rw [hr]
    refine ⟨hdec, ?_⟩
    intro a _ hne
    simp only at hne ⊢
    rw [r2] at hne ⊢
    exact cw_sub_okWrites _ _ (recorded_cw _ hnr w.chip w.shadow [] a hne)

/-- C16, the whole sentence: construct a driver, run ANY history of calls in which any data
    operations fail (each call with its own schedule), then make a fault-free configuration
    request that the builder accepts: it returns Ok and the device holds exactly what was
    requested (`P.C01`, `P.C02`) - no needed write is skipped; and `get_data()` uses the range
    the device really has -/
theorem C16_recovery (dev : Nat) (chip : Chip) (c : Ctor) (h : List (Op × (Nat → Bool)))
    (hreset : ∀ x ∈ DS.cfgAddrs, chip.regs x = DS.resetVal x) (hcs : chip.csHigh = true)
    (hd : DataFaultsOnly (c.transport dev) (runCtor dev noFaults chip c).2.1 h)
    (q : Request) (ws : List W) :
    let t := c.transport dev
    let w := runHistory t (runCtor dev noFaults chip c).2.1 h
    q.script w.shadow = .ok ws →
      (runOp t noFaults w (.config q)).2.2 = .ok "" ∧
      P.C01 q w.chip.regs (runOp t noFaults w (.config q)).2.1.chip.regs ∧
      P.C02 q w.chip.regs (runOp t noFaults w (.config q)).2.1.chip.regs ∧
      (runOp t noFaults w .getData).2.2 = .ok (expectScaled w.chip.regs (w.chip.burst 4 6)) := by
  intro t w hs
  have hw : WInv t w := reachable dev chip c h hreset hcs hd
  obtain ⟨a, b, c', _⟩ := config_reachable t w hw q ws hs
  exact ⟨a, b, c', (data_reachable t w hw).1⟩

/-- C20 for histories: after any history of calls over SPI in which only data operations fail,
    chip-select is high and the chip is in SPI mode - the next access starts cleanly -/
theorem C20_history (dev : Nat) (chip : Chip) (c : Ctor) (h : List (Op × (Nat → Bool)))
    (hreset : ∀ x ∈ DS.cfgAddrs, chip.regs x = DS.resetVal x) (hcs : chip.csHigh = true)
    (ht : c.transport dev = .spi)
    (hd : DataFaultsOnly (c.transport dev) (runCtor dev noFaults chip c).2.1 h) :
    (runHistory (c.transport dev) (runCtor dev noFaults chip c).2.1 h).chip.csHigh = true ∧
    (runHistory (c.transport dev) (runCtor dev noFaults chip c).2.1 h).chip.spiMode = true :=
  (reachable dev chip c h hreset hcs hd).2 ht

end Thm
end Bma400
