/-
  Faulted - what the journal of a call cut by failures says, for EVERY fault schedule.

  `exec_okWrites`: over either transport and under any schedule of failures (data and pin), the
  acknowledged register writes of the decoded journal are exactly the writes of a PREFIX of the
  action list (the actions before the first one with a failed raw operation).
  `C07_faulted`: hence C07 for the concrete builder call under any fault schedule, in every
  reachable state: each acknowledged parameter write went out while that interrupt was disabled
  on the device (`P.C07` on the journal's acknowledged writes, as `judge` evaluates it).
-/
import Bma400.Thm.Reach
import Bma400.Thm.C12
import Bma400.Thm.C13
set_option linter.unusedSimpArgs false
namespace Bma400
namespace Thm
open P R

/-- the acknowledged writes of the decoded journal (none if it does not decode) -/
def journalWrites (t : Transport) (j : List JEntry) : Option (List W) := (decode t j).map okWrites

theorem okWrites_take_succ_wr (a : Nat) (v : Byte) (e : Eff) (rest : List Act) (n : Nat) :
    okWrites (((Act.wr a v e :: rest).take (n + 1)).map Act.acc) = ⟨a, v⟩ :: okWrites ((rest.take n).map Act.acc) := by
  simp [Act.acc, okWrites]

theorem okWrites_take_succ_rd (a k : Nat) (rest : List Act) (n : Nat) :
    okWrites (((Act.rd a k :: rest).take (n + 1)).map Act.acc) = okWrites ((rest.take n).map Act.acc) := by
  simp [Act.acc, okWrites]

theorem okWrites_take_succ_delay (ms : Nat) (rest : List Act) (n : Nat) :
    okWrites (((Act.delay ms :: rest).take (n + 1)).map Act.acc) = okWrites ((rest.take n).map Act.acc) := by
  simp [Act.acc, okWrites]

theorem map_cons_some {α β : Type} (f : List α → List β) (o : Option (List α)) (x : α) (l : List β)
    (g : α → List β → List β) (hg : ∀ r, f (x :: r) = g x (f r)) (h : o.map f = some l) :
    (o.map (x :: ·)).map f = some (g x l) := by
  cases o with
  | none => simp at h
  | some r => simp at h ⊢; rw [hg, h]

theorem exec_okWrites_i2c (dev : Nat) (fails : Nat → Bool) (acts : List Act) (hwf : ActsWf acts) :
    ∀ (w : World) (reads : List (List Byte)),
      ∃ n, n ≤ acts.length ∧
        (decodeI2c dev (exec (.i2c dev) fails w acts reads).1).map okWrites = some (okWrites ((acts.take n).map Act.acc)) := by
  induction acts with
  | nil => intro w reads; exact ⟨0, Nat.le_refl _, by simp [exec, decodeI2c, okWrites]⟩
  | cons act rest ih =>
    intro w reads
    obtain ⟨h1, h2⟩ := ActsWf_cons hwf
    cases act with
    | wr a v e =>
      simp only [exec, writeRegister, World.raw]
      by_cases hf : fails w.idx = true
      · exact ⟨0, Nat.zero_le _, by simp [hf, decodeI2c, okWrites]⟩
      · simp only [hf]
        obtain ⟨n, hn, hj⟩ := ih h2 { chip := (w.chip.raw (.i2cWrite dev [BitVec.ofNat 8 a, v])).1, shadow := applyEff w.shadow a v e, idx := w.idx + 1 } reads
        refine ⟨n + 1, by simp; omega, ?_⟩
        rw [okWrites_take_succ_wr]
        have := map_cons_some okWrites _ (Acc.wr (BitVec.ofNat 8 a).toNat v true) _ (fun x l => match x with | .wr a v true => ⟨a, v⟩ :: l | _ => l)
          (by intro r; simp [okWrites]) hj
        simpa [decodeI2c, toNat_ofNat_lt a h1] using this
    | rd a k =>
      simp only [exec, readRegister, World.raw]
      by_cases hf : fails w.idx = true
      · exact ⟨0, Nat.zero_le _, by simp [hf, decodeI2c, okWrites]⟩
      · simp only [hf]
        obtain ⟨n, hn, hj⟩ := ih h2 { chip := (w.chip.raw (.i2cWriteRead dev [BitVec.ofNat 8 a] k)).1, shadow := w.shadow, idx := w.idx + 1 } (reads ++ [(w.chip.raw (.i2cWriteRead dev [BitVec.ofNat 8 a] k)).2])
        refine ⟨n + 1, by simp; omega, ?_⟩
        rw [okWrites_take_succ_rd]
        have := map_cons_some okWrites _ (Acc.rd (BitVec.ofNat 8 a).toNat k true) _ (fun _ l => l)
          (by intro r; simp [okWrites]) hj
        simpa [decodeI2c] using this
    | delay ms =>
      simp only [exec]
      obtain ⟨n, hn, hj⟩ := ih h2 w reads
      refine ⟨n + 1, by simp; omega, ?_⟩
      rw [okWrites_take_succ_delay]
      have := map_cons_some okWrites _ (Acc.delay ms) _ (fun _ l => l) (by intro r; simp [okWrites]) hj
      simpa [decodeI2c] using this

theorem exec_okWrites_spi (fails : Nat → Bool) (acts : List Act) (hwf : ActsWf acts) :
    ∀ (w : World) (reads : List (List Byte)),
      ∃ n, n ≤ acts.length ∧
        (decodeSpi (exec .spi fails w acts reads).1).map okWrites = some (okWrites ((acts.take n).map Act.acc)) := by
  induction acts with
  | nil => intro w reads; exact ⟨0, Nat.le_refl _, by simp [exec, decodeSpi, okWrites]⟩
  | cons act rest ih =>
    intro w reads
    obtain ⟨h1, h2⟩ := ActsWf_cons hwf
    cases act with
    | wr a v e =>
      have hb := bit7_clear a h1
      simp only [exec, writeRegister_spi]
      cases f0 : fails w.idx <;> cases f1 : fails (w.idx + 1) <;> cases f2 : fails (w.idx + 2)
      case false.false.false =>
        obtain ⟨n, hn, hj⟩ := ih h2 { chip := chipIf true (chipIf true (w.chip.raw .csLow).1 (.spiWrite [BitVec.ofNat 8 a, v])) .csHigh, shadow := applyEff w.shadow a v e, idx := w.idx + 3 } reads
        refine ⟨n + 1, by simp; omega, ?_⟩
        rw [okWrites_take_succ_wr]
        have := map_cons_some okWrites _ (Acc.wr (BitVec.ofNat 8 a).toNat v true) _ (fun x l => match x with | .wr a v true => ⟨a, v⟩ :: l | _ => l)
          (by intro r; simp [okWrites]) hj
        simpa [decodeSpi, hb, toNat_ofNat_lt a h1] using this
      all_goals exact ⟨0, Nat.zero_le _, by simp [decodeSpi, okWrites, hb]⟩
    | rd a k =>
      have hb := bit7_set a h1
      simp only [exec, readRegister_spi]
      cases f0 : fails w.idx <;> cases f1 : fails (w.idx + 1) <;> cases f2 : fails (w.idx + 2) <;> cases f3 : fails (w.idx + 3)
      case false.false.false.false =>
        obtain ⟨n, hn, hj⟩ := ih h2 { chip := chipIf true (chipIf true ((w.chip.raw .csLow).1.raw (.spiTransfer [BitVec.ofNat 8 a ||| 0x80#8, 0#8])).1 (.spiTransfer (List.replicate k 0#8))) .csHigh, shadow := w.shadow, idx := w.idx + 4 } (reads ++ [(((w.chip.raw .csLow).1.raw (.spiTransfer [BitVec.ofNat 8 a ||| 0x80#8, 0#8])).1.raw (.spiTransfer (List.replicate k 0#8))).2])
        refine ⟨n + 1, by simp; omega, ?_⟩
        rw [okWrites_take_succ_rd]
        have := map_cons_some okWrites _ (Acc.rd ((BitVec.ofNat 8 a ||| 0x80#8) &&& 0x7F#8).toNat k true) _ (fun _ l => l)
          (by intro r; simp [okWrites]) hj
        simpa [decodeSpi, hb] using this
      all_goals exact ⟨0, Nat.zero_le _, by simp [decodeSpi, okWrites, hb]⟩
    | delay ms =>
      simp only [exec]
      obtain ⟨n, hn, hj⟩ := ih h2 w reads
      refine ⟨n + 1, by simp; omega, ?_⟩
      rw [okWrites_take_succ_delay]
      have := map_cons_some okWrites _ (Acc.delay ms) _ (fun _ l => l) (by intro r; simp [okWrites]) hj
      simpa [decodeSpi] using this

/-- both transports -/
theorem exec_okWrites (t : Transport) (fails : Nat → Bool) (acts : List Act) (hwf : ActsWf acts) (w : World)
    (reads : List (List Byte)) :
    ∃ n, n ≤ acts.length ∧ journalWrites t (exec t fails w acts reads).1 = some (okWrites ((acts.take n).map Act.acc)) := by
  unfold journalWrites decode
  cases t with
  | i2c dev => exact exec_okWrites_i2c dev fails acts hwf w reads
  | spi => exact exec_okWrites_spi fails acts hwf w reads

theorem okWrites_wact (ws : List W) : okWrites ((ws.map W.act).map Act.acc) = ws := by
  induction ws with
  | nil => rfl
  | cons w r ih =>
    show okWrites (Act.acc (W.act w) :: (r.map W.act).map Act.acc) = w :: r
    simp only [W.act, Act.acc, okWrites]
    exact congrArg _ ih

/-- C07 for the concrete builder call in every reachable state, over either transport and under
    EVERY fault schedule: the journal decodes, and each acknowledged write to a parameter
    register of an interrupt went out while that interrupt was disabled on the device -/
theorem C07_faulted (t : Transport) (fails : Nat → Bool) (w : World) (hw : WInv t w) (q : Request) :
    ∃ ws', journalWrites t (runOp t fails w (.config q)).1 = some ws' ∧ P.C07 w.chip.regs ws' := by
  unfold runOp
  simp only
  cases hs : q.script w.shadow with
  | error e =>
    refine ⟨[], ?_, trivial⟩
    simp [Op.plan, hs, journalWrites, decode]
    cases t <;> simp [decodeI2c, decodeSpi, okWrites]
  | ok ws =>
    have hplan : (Op.config q).plan w.shadow = ⟨none, ws.map W.act⟩ := by simp [Op.plan, hs]
    have hwf := plan_wf w.shadow (.config q)
    rw [hplan] at hwf
    obtain ⟨n, _, hj⟩ := exec_okWrites t fails (ws.map W.act) hwf { w with idx := 0 } []
    have hc7 := C07_prefix w.chip.regs ws n (C07_script q w.shadow w.chip.regs hw.1.co ws hs)
    refine ⟨ws.take n, ?_, hc7⟩
    simp only [hplan]
    have e : okWrites (((ws.map W.act).take n).map Act.acc) = ws.take n := by
      rw [← List.map_take, okWrites_wact]
    rw [e] at hj
    split <;> rename_i hx <;> simp only [hx] at hj ⊢ <;> exact hj

end Thm
end Bma400
