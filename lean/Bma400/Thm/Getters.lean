/-
  Getters - C17 end to end: for EVERY register content, every getter, over either transport,
  the concrete fault-free call decodes to exactly one burst read of the datasheet address and
  length and returns the datasheet decoding - `P.C17`, the form `judge` evaluates on the crate.
-/
import Bma400.Thm.Reach
import Bma400.Thm.C17
import Bma400.Thm.C12
import Bma400.Thm.C13
set_option linter.unusedSimpArgs false
namespace Bma400
namespace Thm
open P R

/-- the getters read below the acceleration data or above it: the burst is the register content -/
theorem burst_regs (c : Chip) (a n : Nat) (h : a + n ≤ 4 ∨ (10 ≤ a ∧ a ≠ 0x14)) :
    c.burst a n = regBurst c.regs a n := by
  unfold Chip.burst regBurst
  have h14 : a ≠ 0x14 := by rcases h with h | h <;> omega
  simp only [h14, if_false]
  apply List.map_congr_left
  intro i hi
  have hi' := List.mem_range.mp hi
  unfold Chip.dataAt
  have : ¬ (4 ≤ a + i ∧ a + i ≤ 9) := by rcases h with h | h <;> omega
  simp [this]

theorem getter_addr (c : Regs) (op : Op) (a n : Nat) (e : Option (List Int))
    (h : getterSpecI c op = some (a, n, e)) : a + n ≤ 4 ∨ (10 ≤ a ∧ a ≠ 0x14) := by
  cases op <;> simp [getterSpecI] at h <;> (obtain ⟨rfl, rfl, _⟩ := h; omega)

/-- C17, concrete: any world whose SPI interface is idle (any register content, any recorded
    configuration - the getters do not depend on it) -/
theorem C17_run (t : Transport) (w : World) (hspi : t = .spi → w.chip.csHigh = true ∧ w.chip.spiMode = true)
    (op : Op) (a n : Nat) (e : Option (List Int)) (h : getterSpecI w.chip.regs op = some (a, n, e)) :
    let r := runOp t noFaults w op
    ∃ accs, decode t r.1 = some accs ∧ P.C17 w.chip.regs op accs r.2.2 := by
  intro r
  have hplan := C17_plan w.chip.regs w.shadow op a n e h
  have hwf := plan_wf w.shadow op
  rw [hplan] at hwf
  have href := exec_refines t [.rd a n] hwf { w with idx := 0 } [] hspi
  have hdec : decode t (exec t noFaults { w with idx := 0 } [.rd a n] []).1 = some ([Act.rd a n].map Act.acc) := by
    cases t with
    | i2c dev => exact C12_exact dev [.rd a n] hwf { w with idx := 0 } []
    | spi => exact C13_exact [.rd a n] hwf { w with idx := 0 } []
  have hr : r = runOp t noFaults w op := rfl
  simp only [runOp, hplan] at hr
  rcases hx : exec t noFaults { w with idx := 0 } [.rd a n] [] with ⟨j, w', res⟩
  rw [hx] at href hr hdec
  obtain ⟨_, r2, r3⟩ := href
  cases res with
  | error err => exact absurd r3 (by simp)
  | ok reads =>
    simp only [aexec] at hr r2 r3 hdec
    subst r3
    refine ⟨[.rd a n true], by rw [hr]; simpa [Act.acc] using hdec, ?_⟩
    unfold P.C17 getterSpec
    rw [h]
    simp only [Option.map_some]
    obtain ⟨v, hv, hve⟩ := C17_value w.chip.regs w'.shadow op a n e h
    have hb := burst_regs w.chip a n (getter_addr _ op a n e h)
    have hout : r.2.2 = .ok (fmtInts v) := by
      rw [hr]
      simp only [List.nil_append, hb]
      have : op.finish w'.shadow [regBurst w.chip.regs a n] = (op.ints w'.shadow [regBurst w.chip.regs a n]).map (fun l => .ok (fmtInts l)) := by
        cases op <;> simp [getterSpecI] at h <;> rfl
      rw [this, hv]; rfl
    refine ⟨trivial, by rw [hout]; rfl, ?_⟩
    intro s hs
    rw [hout]
    cases e with
    | none => simp at hs
    | some x => simp at hs; subst hs; rw [hve x rfl]

end Thm
end Bma400
