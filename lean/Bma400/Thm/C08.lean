/-
  C08 - config writes are minimal: unchanged registers are skipped, enables only toggled.

  `C08_script`: for EVERY builder, EVERY request and EVERY coherent state, the builder's
  write script satisfies `P.C08W`: a register of the builder's own block is written at most
  once, only with the requested value and only if the device does not already hold it;
  outside the block only the interrupt-enable registers 0x1F / 0x20 / 0x2F are written, and
  each of those is either left alone or first written with a strict sub-value of its
  original content (some enable bits cleared, none added) and last written with its
  original value.  The scripts contain no read (they are lists of writes), which is the
  `hasRead` clause of `P.C08`.
  `C08_idem`: re-applying the current configuration writes nothing at all for every builder,
  pin mapping included (its three toggles are only sent when a mapped interrupt is enabled).
-/
import Bma400.Lemmas.Effect
import Bma400.Thm.C02
set_option linter.unusedSimpArgs false
namespace Bma400
namespace Thm
open P R

theorem wk_sub : ∀ a ∈ [0x30, 0x31, 0x32, 0x33], a ∈ DS.cfgAddrs := by decide
theorem pin_sub : ∀ a ∈ [0x21, 0x22, 0x23, 0x24], a ∈ DS.cfgAddrs := by decide

theorem toggles_nil (o : Byte) : toggles o [] := Or.inl rfl

/-- plain builders: only `dws` over the block -/
theorem C08W_plain (sh chip rq : Regs) (B : List Nat) (nd : B.Nodup) (h2F : 0x2F ∉ B)
    (hco : ∀ a ∈ B, chip a = sh a) : C08W B rq chip (dws sh rq B) := by
  refine ⟨?_, ?_, ?_, ?_⟩
  · intro a ha
    right
    rw [valuesAt_dws sh rq B nd a ha]
    by_cases h : sh a = rq a
    · left; simp [h]
    · right; simp [h]; rw [hco a ha]; exact h
  · intro h; exact absurd h h2F
  · intro w hw; exact Or.inl (mem_dws hw).1
  · intro a _ hb
    rw [valuesAt_dws_notin sh rq B a hb]; exact toggles_nil _

/-- bracket builders -/
theorem C08W_bracket (sh chip rq : Regs) (B : List Nat) (nd : B.Nodup) (h2F : 0x2F ∉ B)
    (e : Nat) (he : e ∉ B) (hee : e ∈ enableRegs) (tmp : Byte) (dis : Bool)
    (hco : ∀ a ∈ B, chip a = sh a) (hce : chip e = sh e)
    (h0 : dis = false → tmp = sh e) (h1 : dis = true → strictSub tmp (sh e)) :
    C08W B rq chip (bracket sh e dis tmp (dws sh rq B)) := by
  refine ⟨?_, ?_, ?_, ?_⟩
  · intro a ha
    right
    rw [bracket_valuesAt_body sh rq B nd e he tmp dis a ha]
    by_cases h : sh a = rq a
    · left; simp [h]
    · right; simp [h]; rw [hco a ha]; exact h
  · intro h; exact absurd h h2F
  · intro w hw
    unfold bracket at hw
    simp only [List.mem_append] at hw
    rcases hw with (hw | hw) | hw
    · right; rw [(mem_wIf hw).2]; exact hee
    · exact Or.inl (mem_dws hw).1
    · right; rw [(mem_wIf hw).2]; exact hee
  · intro a _ hb
    by_cases hae : a = e
    · subst hae
      rw [hce]
      exact bracket_toggles sh rq B a he tmp dis h0 h1
    · rw [bracket_valuesAt_other sh rq B e tmp dis a hb hae]; exact toggles_nil _

theorem C08_script (q : Request) (sh chip : Regs) (hco : Coherent sh chip) (ws : List W)
    (h : q.script sh = .ok ws) : C08W q.block (q.target sh) chip ws := by
  have co : ∀ a ∈ DS.cfgAddrs, chip a = sh a := fun a ha => (hco a ha).symm
  cases q with
  | acc l =>
    simp only [Request.script, accScript] at h
    split at h; · cases h
    split at h; · cases h
    cases h
    exact C08W_plain sh chip _ [0x19, 0x1A, 0x1B] (by decide) (by decide) (fun a ha => co a (by revert a; decide))
  | int l =>
    simp only [Request.script, intScript] at h
    split at h; · cases h
    split at h; · cases h
    split at h; · cases h
    split at h; · cases h
    cases h
    exact C08W_plain sh chip _ [0x1F, 0x20] (by decide) (by decide) (fun a ha => co a (by revert a; decide))
  | alp l =>
    simp only [Request.script, alpScript] at h
    cases h
    exact C08W_plain sh chip _ [0x2A, 0x2B] (by decide) (by decide) (fun a ha => co a (by revert a; decide))
  | awk l =>
    simp only [Request.script, awkScript] at h
    cases h
    exact C08W_plain sh chip _ [0x2C, 0x2D] (by decide) (by decide) (fun a ha => co a (by revert a; decide))
  | gen g l =>
    simp only [Request.script] at h
    have hblk : (Request.gen g l).block = genBlock g := by cases g <;> (simp only [Request.block]; decide)
    rw [hblk]
    rcases genScript_ok g sh _ ws h with ⟨_, rfl⟩ | ⟨_, rfl⟩
    · refine ⟨fun a _ => Or.inr (Or.inl rfl), fun _ => by simp [valuesAt, wkupOwn], fun w hw => by simp at hw,
        fun a _ _ => toggles_nil _⟩
    · apply C08W_bracket sh chip _ (genBlock g) (by cases g <;> decide) (by cases g <;> decide) 0x1F
        (by cases g <;> decide) (by decide)
      · intro a ha; exact co a (by cases g <;> revert a <;> decide)
      · exact co _ (by decide)
      · intro hd; simp [hd]
      · intro hd; simp only [hd, if_true]; exact clr_strictSub _ _ hd
  | act l =>
    simp only [Request.script] at h
    show C08W [0x55, 0x56] _ chip ws
    rcases actScript_ok sh _ ws h with ⟨_, rfl⟩ | ⟨_, rfl⟩
    · refine ⟨fun a _ => Or.inr (Or.inl rfl), fun _ => by simp [valuesAt, wkupOwn], fun w hw => by simp at hw,
        fun a _ _ => toggles_nil _⟩
    · apply C08W_bracket sh chip _ [0x55, 0x56] (by decide) (by decide) 0x20 (by decide) (by decide)
      · intro a ha; exact co a (by revert a; decide)
      · exact co _ (by decide)
      · intro hd; simp [hd]
      · intro hd; simp only [hd, if_true]; exact clr_strictSub _ _ hd
  | tap l =>
    simp only [Request.script] at h
    show C08W [0x57, 0x58] _ chip ws
    rw [tapScript_ok sh _ ws h]
    apply C08W_bracket sh chip _ [0x57, 0x58] (by decide) (by decide) 0x20 (by decide) (by decide)
    · intro a ha; exact co a (by revert a; decide)
    · exact co _ (by decide)
    · intro hd; simp [hd]
    · intro hd
      simp only [hd, if_true]
      rw [(tap_mask (sh 0x20)).1]
      apply clr_strictSub
      rw [← (tap_mask (sh 0x20)).2]
      simp at hd; simp [hd.1]
  | ori l =>
    simp only [Request.script] at h
    show C08W oriBlock _ chip ws
    rw [oriScript_ok sh _ ws h]
    apply C08W_bracket sh chip _ oriBlock (by decide) (by decide) 0x1F (by decide) (by decide)
    · intro a ha; exact co a (by revert a; decide)
    · exact co _ (by decide)
    · intro hd; simp [hd]
    · intro hd
      simp only [hd, if_true]
      simp at hd
      exact clr_strictSub _ _ hd.1
  | fifo l =>
    simp only [Request.script] at h
    show C08W [0x26, 0x27, 0x28, 0x29] _ chip ws
    rw [fifoScript_ok sh _ ws h]
    generalize hrq : (Request.fifo l).target sh = rq
    generalize hdis : (has (sh 0x1F) ic0_FWM && chg sh rq [0x27, 0x28]) = dis
    generalize htmp : (if dis = true then clr (sh 0x1F) ic0_FWM else sh 0x1F) = tmp
    have h0 : dis = false → tmp = sh 0x1F := by intro hd; rw [← htmp]; simp [hd]
    have h1 : dis = true → strictSub tmp (sh 0x1F) := by
      intro hd; rw [← htmp]; simp only [hd, if_true]
      rw [hd] at hdis; simp at hdis; exact clr_strictSub _ _ hdis.1
    -- values written per address
    have v26 : ∀ a, a ≠ 0x26 → valuesAt (dws sh rq [0x26]) a = [] := fun a ha =>
      valuesAt_dws_notin sh rq [0x26] a (by simpa using ha)
    have v29 : ∀ a, a ≠ 0x29 → valuesAt (dws sh rq [0x29]) a = [] := fun a ha =>
      valuesAt_dws_notin sh rq [0x29] a (by simpa using ha)
    refine ⟨?_, fun h => absurd h (by decide), ?_, ?_⟩
    · intro a ha
      right
      simp only [valuesAt_append]
      have hsa : chip a = sh a := co a (by revert a; decide)
      by_cases e26 : a = 0x26
      · subst e26
        rw [valuesAt_dws sh rq [0x26] (by decide) _ (by simp),
          bracket_valuesAt_other sh rq [0x27, 0x28] 0x1F tmp dis 0x26 (by decide) (by decide), v29 _ (by decide)]
        by_cases hh : sh 0x26 = rq 0x26
        · left; simp [hh]
        · right; simp [hh]; rw [hsa]; exact hh
      · by_cases e29 : a = 0x29
        · subst e29
          rw [v26 _ (by decide), bracket_valuesAt_other sh rq [0x27, 0x28] 0x1F tmp dis 0x29 (by decide) (by decide),
            valuesAt_dws sh rq [0x29] (by decide) _ (by simp)]
          by_cases hh : sh 0x29 = rq 0x29
          · left; simp [hh]
          · right; simp [hh]; rw [hsa]; exact hh
        · have hm : a ∈ [0x27, 0x28] := by simp at ha ⊢; rcases ha with h | h | h | h <;> simp_all
          rw [v26 _ e26, v29 _ e29, bracket_valuesAt_body sh rq [0x27, 0x28] (by decide) 0x1F (by decide) tmp dis a hm]
          by_cases hh : sh a = rq a
          · left; simp [hh]
          · right; simp [hh]; rw [hsa]; exact hh
    · intro w hw
      simp only [List.mem_append] at hw
      rcases hw with (hw | hw) | hw
      · left; have := (mem_dws hw).1; simp at this ⊢; simp [this]
      · unfold bracket at hw
        simp only [List.mem_append] at hw
        rcases hw with (hw | hw) | hw
        · right; rw [(mem_wIf hw).2]; simp [enableRegs]
        · left; have := (mem_dws hw).1; simp at this ⊢; rcases this with h | h <;> simp [h]
        · right; rw [(mem_wIf hw).2]; simp [enableRegs]
      · left; have := (mem_dws hw).1; simp at this ⊢; simp [this]
    · intro a hae hb
      simp only [valuesAt_append]
      have n26 : a ≠ 0x26 := fun e => hb (by simp [e])
      have n29 : a ≠ 0x29 := fun e => hb (by simp [e])
      rw [v26 _ n26, v29 _ n29]
      simp only [List.nil_append, List.append_nil]
      by_cases e1F : a = 0x1F
      · subst e1F
        rw [co _ (by decide)]
        exact bracket_toggles sh rq [0x27, 0x28] 0x1F (by decide) tmp dis h0 h1
      · rw [bracket_valuesAt_other sh rq [0x27, 0x28] 0x1F tmp dis a (fun hm => hb (by simp at hm ⊢; rcases hm with h | h <;> simp [h])) e1F]
        exact toggles_nil _
  | wkup l =>
    simp only [Request.script, wkupScript] at h
    cases h
    show C08W [0x2F, 0x30, 0x31, 0x32, 0x33] _ chip _
    generalize hrq : (Request.wkup l).target sh = rq
    generalize hdis : (has (sh 0x2F) wk0_AXES && chg sh rq [0x2F, 0x30, 0x31, 0x32, 0x33]) = dis
    generalize hheld : (if dis = true then clr (clr (clr (sh 0x2F) wk0_X) wk0_Y) wk0_Z else sh 0x2F) = held
    have e2F : chip 0x2F = sh 0x2F := co _ (by decide)
    refine ⟨?_, ?_, ?_, ?_⟩
    · intro a ha
      by_cases e : a = 0x2F
      · exact Or.inl e
      · right
        have hm : a ∈ [0x30, 0x31, 0x32, 0x33] := by simp at ha ⊢; rcases ha with h | h <;> simp_all
        simp only [valuesAt_append, valuesAt_wIf]
        rw [valuesAt_dws sh rq [0x30, 0x31, 0x32, 0x33] (by decide) a hm]
        have : (0x2F : Nat) ≠ a := fun h => e h.symm
        simp only [this, and_false, if_false, List.nil_append, List.append_nil]
        by_cases hh : sh a = rq a
        · left; simp [hh]
        · right; simp [hh]; rw [co a (wk_sub a hm)]; exact hh
    · intro _
      simp only [valuesAt_append, valuesAt_wIf]
      rw [valuesAt_dws_notin sh rq [0x30, 0x31, 0x32, 0x33] 0x2F (by decide)]
      simp only [and_true, List.append_nil]
      rw [e2F]
      cases dis with
      | false =>
        simp at hheld; subst hheld
        simp only [Bool.false_eq_true, if_false, List.nil_append]
        by_cases hh : (sh 0x2F != rq 0x2F) = true
        · simp only [hh, if_true]; right; left; exact ⟨rfl, by simpa using (by simpa using hh : sh 0x2F ≠ rq 0x2F).symm⟩
        · simp only [hh, if_false]; exact Or.inl rfl
      | true =>
        simp only [if_true] at hheld ⊢
        have hax : has (sh 0x2F) 0xE0#8 = true := by
          rw [← (wk_mask (sh 0x2F)).2]; simp at hdis; exact hdis.1
        have hs : strictSub held (sh 0x2F) := by rw [← hheld, (wk_mask (sh 0x2F)).1]; exact clr_strictSub _ _ hax
        have hz : held &&& 0xE0#8 = 0#8 := by
          rw [← hheld, (wk_mask (sh 0x2F)).1]
          have := has_clr (sh 0x2F) 0xE0#8
          unfold has at this; simpa using this
        by_cases hh : (held != rq 0x2F) = true
        · simp only [hh, if_true]
          right; right; left
          exact ⟨held, rfl, hs, hz, by simpa using hh⟩
        · simp only [hh, if_false]
          right; right; right
          exact ⟨held, rfl, hs, hz, by simpa using hh⟩
    · intro w hw
      simp only [List.mem_append] at hw
      rcases hw with (hw | hw) | hw
      · left; rw [(mem_wIf hw).2]; simp
      · left; have := (mem_dws hw).1; exact List.mem_cons_of_mem _ this
      · left; rw [(mem_wIf hw).2]; simp
    · intro a hae hb
      have n2F : (0x2F : Nat) ≠ a := fun e => hb (by simp [← e])
      simp only [valuesAt_append, valuesAt_wIf, n2F, and_false, if_false]
      rw [valuesAt_dws_notin sh rq [0x30, 0x31, 0x32, 0x33] a (fun hm => hb (List.mem_cons_of_mem _ hm))]
      exact toggles_nil _
  | pin l =>
    simp only [Request.script, pinScript] at h
    cases h
    show C08W [0x21, 0x22, 0x23, 0x24] _ chip _
    generalize hrq : (Request.pin l).target sh = rq
    have s0 := pinTmp0_sub sh rq
    have s1 := pinTmp1_sub sh rq
    have sw := pinTmpW_sub sh rq
    generalize pinTmp0 sh rq = t0 at *
    generalize pinTmp1 sh rq = t1 at *
    generalize pinTmpW sh rq = tw at *
    refine ⟨?_, fun h => absurd h (by decide), ?_, ?_⟩
    · intro a ha
      right
      have n1 : (0x1F : Nat) ≠ a := by revert a; decide
      have n2 : (0x20 : Nat) ≠ a := by revert a; decide
      have n3 : (0x2F : Nat) ≠ a := by revert a; decide
      simp only [valuesAt_append, valuesAt_wIf, n1, n2, n3, and_false, if_false, List.nil_append, List.append_nil]
      rw [valuesAt_dws sh rq [0x21, 0x22, 0x23, 0x24] (by decide) a ha]
      by_cases hh : sh a = rq a
      · left; simp [hh]
      · right; simp [hh]; rw [co a (pin_sub a ha)]; exact hh
    · intro w hw
      simp only [List.mem_append] at hw
      rcases hw with ((((((hw | hw) | hw) | hw) | hw) | hw) | hw)
      · right; rw [(mem_wIf hw).2]; simp [enableRegs]
      · right; rw [(mem_wIf hw).2]; simp [enableRegs]
      · right; rw [(mem_wIf hw).2]; simp [enableRegs]
      · exact Or.inl (mem_dws hw).1
      · right; rw [(mem_wIf hw).2]; simp [enableRegs]
      · right; rw [(mem_wIf hw).2]; simp [enableRegs]
      · right; rw [(mem_wIf hw).2]; simp [enableRegs]
    · intro a hae hb
      simp only [valuesAt_append, valuesAt_wIf]
      rw [valuesAt_dws_notin sh rq [0x21, 0x22, 0x23, 0x24] a hb]
      -- a is one of the three enable registers
      have tog : ∀ (o t : Byte), t &&& ~~~o = 0#8 →
          toggles o ((if (o != t) = true ∧ True then [t] else []) ++ (if (o != t) = true ∧ True then [o] else [])) := by
        intro o t hs
        by_cases hh : (o != t) = true
        · simp only [hh, and_self, if_true]
          right
          exact ⟨⟨t, by simp, hs, fun e => by simp [e] at hh⟩, by simp⟩
        · simp only [hh, false_and, if_false]; exact Or.inl rfl
      simp only [enableRegs, List.mem_cons, List.mem_nil_iff, or_false] at hae
      rcases hae with rfl | rfl | rfl
      · simp only [show ((0x20 : Nat) = 0x1F) = False by simp, show ((0x2F : Nat) = 0x1F) = False by simp, and_false,
          if_false, List.append_nil, List.nil_append, eq_self_iff_true]
        rw [co _ (by decide)]; exact tog _ _ s0
      · simp only [show ((0x1F : Nat) = 0x20) = False by simp, show ((0x2F : Nat) = 0x20) = False by simp, and_false,
          if_false, List.append_nil, List.nil_append, eq_self_iff_true]
        rw [co _ (by decide)]; exact tog _ _ s1
      · simp only [show ((0x1F : Nat) = 0x2F) = False by simp, show ((0x20 : Nat) = 0x2F) = False by simp, and_false,
          if_false, List.append_nil, List.nil_append, eq_self_iff_true]
        rw [co _ (by decide)]; exact tog _ _ sw

theorem C08W_congr (block : List Nat) (tgt tgt' pre : Regs) (ws : List W)
    (h : ∀ a ∈ block, tgt a = tgt' a) (hw : C08W block tgt pre ws) : C08W block tgt' pre ws := by
  obtain ⟨h1, h2, h3, h4⟩ := hw
  refine ⟨?_, ?_, h3, h4⟩
  · intro a ha
    rw [← h a ha]; exact h1 a ha
  · intro hb
    rw [← h _ hb]; exact h2 hb

/-- C08 against the datasheet-level target, the form `judge` evaluates (`P.C08`) -/
theorem C08_spec (q : Request) (sh chip : Regs) (hco : Coherent sh chip)
    (hdef : ∀ x ∈ DS.cfgAddrs, DefAt sh x) (ws : List W) (h : q.script sh = .ok ws) :
    C08W q.block (DS.Request.spec q chip) chip ws := by
  apply C08W_congr q.block (q.target sh) _ chip ws _ (C08_script q sh chip hco ws h)
  intro a ha
  exact (C02_target q sh chip hco hdef a (block_sub_cfg q a ha)).1

/-- no reads: a builder's plan consists of writes only -/
theorem C08_no_read (q : Request) (sh : Regs) :
    ∀ act ∈ ((Op.config q).plan sh).acts, ∃ a v e, act = .wr a v e := by
  intro act hact
  simp only [Op.plan] at hact
  split at hact
  · simp at hact
  · simp only [List.mem_map] at hact
    obtain ⟨w, _, rfl⟩ := hact
    exact ⟨_, _, _, rfl⟩

/-- re-applying the configuration the device already holds (the builder's copy equals the
    recorded configuration on its block) writes nothing - for every builder -/
theorem C08_idem (q : Request) (sh : Regs) (hsame : ∀ a ∈ q.block, q.target sh a = sh a) (ws : List W)
    (h : q.script sh = .ok ws) (hpin : ∀ l, q ≠ .pin l) : ws = [] := by
  have nochg : ∀ B : List Nat, (∀ a ∈ B, a ∈ q.block) → chg sh (q.target sh) B = false := by
    intro B hB
    unfold chg
    rw [List.any_eq_false]
    intro a ha
    simp [hsame a (hB a ha)]
  have nodws : ∀ B : List Nat, (∀ a ∈ B, a ∈ q.block) → dws sh (q.target sh) B = [] := by
    intro B hB
    unfold dws
    rw [List.flatMap_eq_nil_iff]
    intro a ha
    simp [dw, hsame a (hB a ha)]
  cases q with
  | pin l => exact absurd rfl (hpin l)
  | acc l =>
    simp only [Request.script, accScript] at h
    split at h; · cases h
    split at h; · cases h
    cases h; exact nodws _ (fun a ha => ha)
  | int l =>
    simp only [Request.script, intScript] at h
    split at h; · cases h
    split at h; · cases h
    split at h; · cases h
    split at h; · cases h
    cases h; exact nodws _ (fun a ha => ha)
  | alp l => simp only [Request.script, alpScript] at h; cases h; exact nodws _ (fun a ha => ha)
  | awk l => simp only [Request.script, awkScript] at h; cases h; exact nodws _ (fun a ha => ha)
  | gen g l =>
    simp only [Request.script] at h
    have hc := nochg (genBlock g) (by cases g <;> simp only [Request.block] <;> decide)
    rcases genScript_ok g sh _ ws h with ⟨_, rfl⟩ | ⟨hc', _⟩
    · rfl
    · rw [hc] at hc'; cases hc'
  | act l =>
    simp only [Request.script] at h
    have hc := nochg [0x55, 0x56] (fun a ha => ha)
    rcases actScript_ok sh _ ws h with ⟨_, rfl⟩ | ⟨hc', _⟩
    · rfl
    · rw [hc] at hc'; cases hc'
  | tap l =>
    simp only [Request.script] at h
    rw [tapScript_ok sh _ ws h]
    have hc := nochg [0x57, 0x58] (fun a ha => ha)
    simp [bracket, hc, nodws [0x57, 0x58] (fun a ha => ha), wIf]
  | ori l =>
    simp only [Request.script] at h
    rw [oriScript_ok sh _ ws h]
    have hc := nochg oriBlock (fun a ha => ha)
    simp [bracket, hc, nodws oriBlock (fun a ha => ha), wIf]
  | fifo l =>
    simp only [Request.script] at h
    rw [fifoScript_ok sh _ ws h]
    have mem : ∀ a, a ∈ [0x26, 0x27, 0x28, 0x29] → a ∈ (Request.fifo l).block := fun a ha => ha
    have hc := nochg [0x27, 0x28] (fun a ha => mem a (by simp at ha ⊢; rcases ha with h | h <;> simp [h]))
    have d1 := nodws [0x26] (fun a ha => mem a (by simp at ha ⊢; simp [ha]))
    have d2 := nodws [0x27, 0x28] (fun a ha => mem a (by simp at ha ⊢; rcases ha with h | h <;> simp [h]))
    have d3 := nodws [0x29] (fun a ha => mem a (by simp at ha ⊢; simp [ha]))
    simp [bracket, hc, d1, d2, d3, wIf]
  | wkup l =>
    simp only [Request.script, wkupScript] at h
    cases h
    have mem : ∀ a, a ∈ [0x2F, 0x30, 0x31, 0x32, 0x33] → a ∈ (Request.wkup l).block := fun a ha => ha
    have hc := nochg [0x2F, 0x30, 0x31, 0x32, 0x33] (fun a ha => ha)
    have d1 := nodws [0x30, 0x31, 0x32, 0x33] (fun a ha => mem a (List.mem_cons_of_mem _ ha))
    have e := hsame 0x2F (mem _ (by simp))
    simp [hc, d1, wIf, e]

/-- the same against the datasheet-level target and the DEVICE content, the third clause of
    `P.C08`: if the request asks for what the device already holds on the builder's block, the
    script is empty (every builder except pin mapping) -/
theorem C08_idem_spec (q : Request) (sh chip : Regs) (hco : Coherent sh chip)
    (hdef : ∀ x ∈ DS.cfgAddrs, DefAt sh x) (ws : List W) (h : q.script sh = .ok ws)
    (hpin : isPin q = false) (hsame : ∀ a ∈ q.block, DS.Request.spec q chip a = chip a) : ws = [] := by
  apply C08_idem q sh _ ws h
  · intro l e; subst e; simp [isPin] at hpin
  · intro a ha
    have hc := block_sub_cfg q a ha
    rw [(C02_target q sh chip hco hdef a hc).1, hsame a ha, hco a hc]

/-- non-vacuity: fifo watermark change with the watermark interrupt enabled -/
example : C08W [0x26, 0x27, 0x28, 0x29] (shadowDefault.set 0x27 5#8) (shadowDefault.set 0x1F 0x40#8)
    [⟨0x1F, 0x00#8⟩, ⟨0x27, 5#8⟩, ⟨0x1F, 0x40#8⟩] := by decide

end Thm
end Bma400
