/-
  Setters - the `with_*` SETTER methods of the eleven builders that take bools / plain enums (67 of
  the 80; the numeric ones - clamps, 12/16-bit values split over two registers - are tied by the
  differential check with exhaustive argument streams), TRANSLATED from src/config/*.rs on every run
  (tools/gen_builders.py --setters -> Bma400/GeneratedSet.lean: symbolic execution of the setter
  body on the builder's copy, enum arguments enumerated), ARE the model's `XSetter.apply`: which
  register a setter touches, through which encoder, with which substitute for an unsupported data
  source, for every content of the copy.  `sh` is the recorded configuration: no setter reads it
  (a setter that builds on the device's record instead of the pending copy - r5-C18b, r4-C01a -
  changes the translated term) or changes it.

  With Thm/Encoders (the encoders themselves), Thm/Builders (what write() sends) this makes
  `Request.target` for bool / enum setter lists a statement about the current source.
-/
import Bma400.Builders
import Bma400.GeneratedSet
namespace Bma400
namespace Thm
open R Generated

macro "setter_tac" d:ident : tactic =>
  `(tactic| (simp only [AccSetter.apply, IntSetter.apply, PinSetter.apply, FifoSetter.apply, AlpSetter.apply,
      AwkSetter.apply, WkupSetter.apply, OriSetter.apply, GenSetter.apply, ActSetter.apply, TapSetter.apply,
      upd_eq_set, map12, map3, matchMapped, fifoSrc, fifoSrc?, oriSrc, oriSrc?, genSrc, genSrc?,
      actSrc, actSrc?, GenId.base, $d:ident] <;> (try rfl) <;>
     (funext a; simp [Regs.set, flag, clr, uni, Option.get, Option.getD] <;> (try (repeat' split)) <;> simp_all)))
macro "setter_cases" v:ident d:ident : tactic => `(tactic| (cases $v:ident <;> setter_tac $d))

theorem set_acc_with_power_mode (sh r : Regs)  (v) :
    AccSetter.apply r (.powerMode v) = Set.acc_with_power_mode sh r v := by
  setter_cases v Set.acc_with_power_mode
theorem set_acc_with_osr_lp (sh r : Regs)  (v) :
    AccSetter.apply r (.osrLp v) = Set.acc_with_osr_lp sh r v := by
  setter_cases v Set.acc_with_osr_lp
theorem set_acc_with_filt1_bw (sh r : Regs)  (v) :
    AccSetter.apply r (.filt1Bw v) = Set.acc_with_filt1_bw sh r v := by
  setter_cases v Set.acc_with_filt1_bw
theorem set_acc_with_odr (sh r : Regs)  (v) :
    AccSetter.apply r (.odr v) = Set.acc_with_odr sh r v := by
  setter_cases v Set.acc_with_odr
theorem set_acc_with_osr (sh r : Regs)  (v) :
    AccSetter.apply r (.osr v) = Set.acc_with_osr sh r v := by
  setter_cases v Set.acc_with_osr
theorem set_acc_with_scale (sh r : Regs)  (v) :
    AccSetter.apply r (.scale v) = Set.acc_with_scale sh r v := by
  setter_cases v Set.acc_with_scale
theorem set_acc_with_reg_dta_src (sh r : Regs)  (v) :
    AccSetter.apply r (.regDtaSrc v) = Set.acc_with_reg_dta_src sh r v := by
  setter_cases v Set.acc_with_reg_dta_src
theorem set_int_with_dta_rdy_int (sh r : Regs) (x0 : Bool) :
    IntSetter.apply r (.dtaRdy x0) = Set.int_with_dta_rdy_int sh r x0 := by
  setter_tac Set.int_with_dta_rdy_int
theorem set_int_with_fwm_int (sh r : Regs) (x0 : Bool) :
    IntSetter.apply r (.fwm x0) = Set.int_with_fwm_int sh r x0 := by
  setter_tac Set.int_with_fwm_int
theorem set_int_with_ffull_int (sh r : Regs) (x0 : Bool) :
    IntSetter.apply r (.ffull x0) = Set.int_with_ffull_int sh r x0 := by
  setter_tac Set.int_with_ffull_int
theorem set_int_with_gen2_int (sh r : Regs) (x0 : Bool) :
    IntSetter.apply r (.gen2 x0) = Set.int_with_gen2_int sh r x0 := by
  setter_tac Set.int_with_gen2_int
theorem set_int_with_gen1_int (sh r : Regs) (x0 : Bool) :
    IntSetter.apply r (.gen1 x0) = Set.int_with_gen1_int sh r x0 := by
  setter_tac Set.int_with_gen1_int
theorem set_int_with_orientch_int (sh r : Regs) (x0 : Bool) :
    IntSetter.apply r (.orientch x0) = Set.int_with_orientch_int sh r x0 := by
  setter_tac Set.int_with_orientch_int
theorem set_int_with_latch_int (sh r : Regs) (x0 : Bool) :
    IntSetter.apply r (.latch x0) = Set.int_with_latch_int sh r x0 := by
  setter_tac Set.int_with_latch_int
theorem set_int_with_actch_int (sh r : Regs) (x0 : Bool) :
    IntSetter.apply r (.actch x0) = Set.int_with_actch_int sh r x0 := by
  setter_tac Set.int_with_actch_int
theorem set_int_with_d_tap_int (sh r : Regs) (x0 : Bool) :
    IntSetter.apply r (.dTap x0) = Set.int_with_d_tap_int sh r x0 := by
  setter_tac Set.int_with_d_tap_int
theorem set_int_with_s_tap_int (sh r : Regs) (x0 : Bool) :
    IntSetter.apply r (.sTap x0) = Set.int_with_s_tap_int sh r x0 := by
  setter_tac Set.int_with_s_tap_int
theorem set_int_with_step_int (sh r : Regs) (x0 : Bool) :
    IntSetter.apply r (.step x0) = Set.int_with_step_int sh r x0 := by
  setter_tac Set.int_with_step_int
theorem set_pin_with_drdy (sh r : Regs)  (v) :
    PinSetter.apply r (.drdy v) = Set.pin_with_drdy sh r v := by
  setter_cases v Set.pin_with_drdy
theorem set_pin_with_fifo_wm (sh r : Regs)  (v) :
    PinSetter.apply r (.fifoWm v) = Set.pin_with_fifo_wm sh r v := by
  setter_cases v Set.pin_with_fifo_wm
theorem set_pin_with_ffull (sh r : Regs)  (v) :
    PinSetter.apply r (.ffull v) = Set.pin_with_ffull sh r v := by
  setter_cases v Set.pin_with_ffull
theorem set_pin_with_ieng_ovrrn (sh r : Regs)  (v) :
    PinSetter.apply r (.iengOvrrn v) = Set.pin_with_ieng_ovrrn sh r v := by
  setter_cases v Set.pin_with_ieng_ovrrn
theorem set_pin_with_gen2 (sh r : Regs)  (v) :
    PinSetter.apply r (.gen2 v) = Set.pin_with_gen2 sh r v := by
  setter_cases v Set.pin_with_gen2
theorem set_pin_with_gen1 (sh r : Regs)  (v) :
    PinSetter.apply r (.gen1 v) = Set.pin_with_gen1 sh r v := by
  setter_cases v Set.pin_with_gen1
theorem set_pin_with_orientch (sh r : Regs)  (v) :
    PinSetter.apply r (.orientch v) = Set.pin_with_orientch sh r v := by
  setter_cases v Set.pin_with_orientch
theorem set_pin_with_wkup (sh r : Regs)  (v) :
    PinSetter.apply r (.wkup v) = Set.pin_with_wkup sh r v := by
  setter_cases v Set.pin_with_wkup
theorem set_pin_with_actch (sh r : Regs)  (v) :
    PinSetter.apply r (.actch v) = Set.pin_with_actch sh r v := by
  setter_cases v Set.pin_with_actch
theorem set_pin_with_tap (sh r : Regs)  (v) :
    PinSetter.apply r (.tap v) = Set.pin_with_tap sh r v := by
  setter_cases v Set.pin_with_tap
theorem set_pin_with_step (sh r : Regs)  (v) :
    PinSetter.apply r (.step v) = Set.pin_with_step sh r v := by
  setter_cases v Set.pin_with_step
theorem set_fifo_with_read_disabled (sh r : Regs) (x0 : Bool) :
    FifoSetter.apply r (.readDisabled x0) = Set.fifo_with_read_disabled sh r x0 := by
  setter_tac Set.fifo_with_read_disabled
theorem set_fifo_with_axes (sh r : Regs) (x0 : Bool) (x1 : Bool) (x2 : Bool) :
    FifoSetter.apply r (.axes x0 x1 x2) = Set.fifo_with_axes sh r x0 x1 x2 := by
  setter_tac Set.fifo_with_axes
theorem set_fifo_with_8bit_mode (sh r : Regs) (x0 : Bool) :
    FifoSetter.apply r (.eightBit x0) = Set.fifo_with_8bit_mode sh r x0 := by
  setter_tac Set.fifo_with_8bit_mode
theorem set_fifo_with_src (sh r : Regs)  (v) :
    FifoSetter.apply r (.src v) = Set.fifo_with_src sh r v := by
  setter_cases v Set.fifo_with_src
theorem set_fifo_with_send_time_on_empty (sh r : Regs) (x0 : Bool) :
    FifoSetter.apply r (.sendTimeOnEmpty x0) = Set.fifo_with_send_time_on_empty sh r x0 := by
  setter_tac Set.fifo_with_send_time_on_empty
theorem set_fifo_with_stop_on_full (sh r : Regs) (x0 : Bool) :
    FifoSetter.apply r (.stopOnFull x0) = Set.fifo_with_stop_on_full sh r x0 := by
  setter_tac Set.fifo_with_stop_on_full
theorem set_fifo_with_auto_flush (sh r : Regs) (x0 : Bool) :
    FifoSetter.apply r (.autoFlush x0) = Set.fifo_with_auto_flush sh r x0 := by
  setter_tac Set.fifo_with_auto_flush
theorem set_alp_with_auto_lp_trigger (sh r : Regs)  (v) :
    AlpSetter.apply r (.trigger v) = Set.alp_with_auto_lp_trigger sh r v := by
  setter_cases v Set.alp_with_auto_lp_trigger
theorem set_alp_with_gen1_int_trigger (sh r : Regs) (x0 : Bool) :
    AlpSetter.apply r (.gen1Trig x0) = Set.alp_with_gen1_int_trigger sh r x0 := by
  setter_tac Set.alp_with_gen1_int_trigger
theorem set_alp_with_drdy_trigger (sh r : Regs) (x0 : Bool) :
    AlpSetter.apply r (.drdyTrig x0) = Set.alp_with_drdy_trigger sh r x0 := by
  setter_tac Set.alp_with_drdy_trigger
theorem set_awk_with_periodic_wakeup (sh r : Regs) (x0 : Bool) :
    AwkSetter.apply r (.periodic x0) = Set.awk_with_periodic_wakeup sh r x0 := by
  setter_tac Set.awk_with_periodic_wakeup
theorem set_awk_with_activity_int (sh r : Regs) (x0 : Bool) :
    AwkSetter.apply r (.activityInt x0) = Set.awk_with_activity_int sh r x0 := by
  setter_tac Set.awk_with_activity_int
theorem set_wkup_with_ref_mode (sh r : Regs)  (v) :
    WkupSetter.apply r (.refMode v) = Set.wkup_with_ref_mode sh r v := by
  setter_cases v Set.wkup_with_ref_mode
theorem set_wkup_with_axes (sh r : Regs) (x0 : Bool) (x1 : Bool) (x2 : Bool) :
    WkupSetter.apply r (.axes x0 x1 x2) = Set.wkup_with_axes sh r x0 x1 x2 := by
  setter_tac Set.wkup_with_axes
theorem set_ori_with_axes (sh r : Regs) (x0 : Bool) (x1 : Bool) (x2 : Bool) :
    OriSetter.apply r (.axes x0 x1 x2) = Set.ori_with_axes sh r x0 x1 x2 := by
  setter_tac Set.ori_with_axes
theorem set_ori_with_src (sh r : Regs)  (v) :
    OriSetter.apply r (.src v) = Set.ori_with_src sh r v := by
  setter_cases v Set.ori_with_src
theorem set_ori_with_ref_mode (sh r : Regs)  (v) :
    OriSetter.apply r (.refMode v) = Set.ori_with_ref_mode sh r v := by
  setter_cases v Set.ori_with_ref_mode
theorem set_gen1_with_axes (sh r : Regs) (x0 : Bool) (x1 : Bool) (x2 : Bool) :
    GenSetter.apply .g1 r (.axes x0 x1 x2) = Set.gen1_with_axes sh r x0 x1 x2 := by
  setter_tac Set.gen1_with_axes
theorem set_gen1_with_src (sh r : Regs)  (v) :
    GenSetter.apply .g1 r (.src v) = Set.gen1_with_src sh r v := by
  setter_cases v Set.gen1_with_src
theorem set_gen1_with_ref_mode (sh r : Regs)  (v) :
    GenSetter.apply .g1 r (.refMode v) = Set.gen1_with_ref_mode sh r v := by
  setter_cases v Set.gen1_with_ref_mode
theorem set_gen1_with_hysteresis (sh r : Regs)  (v) :
    GenSetter.apply .g1 r (.hysteresis v) = Set.gen1_with_hysteresis sh r v := by
  setter_cases v Set.gen1_with_hysteresis
theorem set_gen1_with_criterion_mode (sh r : Regs)  (v) :
    GenSetter.apply .g1 r (.criterion v) = Set.gen1_with_criterion_mode sh r v := by
  setter_cases v Set.gen1_with_criterion_mode
theorem set_gen1_with_logic_mode (sh r : Regs)  (v) :
    GenSetter.apply .g1 r (.logic v) = Set.gen1_with_logic_mode sh r v := by
  setter_cases v Set.gen1_with_logic_mode
theorem set_gen2_with_axes (sh r : Regs) (x0 : Bool) (x1 : Bool) (x2 : Bool) :
    GenSetter.apply .g2 r (.axes x0 x1 x2) = Set.gen2_with_axes sh r x0 x1 x2 := by
  setter_tac Set.gen2_with_axes
theorem set_gen2_with_src (sh r : Regs)  (v) :
    GenSetter.apply .g2 r (.src v) = Set.gen2_with_src sh r v := by
  setter_cases v Set.gen2_with_src
theorem set_gen2_with_ref_mode (sh r : Regs)  (v) :
    GenSetter.apply .g2 r (.refMode v) = Set.gen2_with_ref_mode sh r v := by
  setter_cases v Set.gen2_with_ref_mode
theorem set_gen2_with_hysteresis (sh r : Regs)  (v) :
    GenSetter.apply .g2 r (.hysteresis v) = Set.gen2_with_hysteresis sh r v := by
  setter_cases v Set.gen2_with_hysteresis
theorem set_gen2_with_criterion_mode (sh r : Regs)  (v) :
    GenSetter.apply .g2 r (.criterion v) = Set.gen2_with_criterion_mode sh r v := by
  setter_cases v Set.gen2_with_criterion_mode
theorem set_gen2_with_logic_mode (sh r : Regs)  (v) :
    GenSetter.apply .g2 r (.logic v) = Set.gen2_with_logic_mode sh r v := by
  setter_cases v Set.gen2_with_logic_mode
theorem set_act_with_axes (sh r : Regs) (x0 : Bool) (x1 : Bool) (x2 : Bool) :
    ActSetter.apply r (.axes x0 x1 x2) = Set.act_with_axes sh r x0 x1 x2 := by
  setter_tac Set.act_with_axes
theorem set_act_with_src (sh r : Regs)  (v) :
    ActSetter.apply r (.src v) = Set.act_with_src sh r v := by
  setter_cases v Set.act_with_src
theorem set_act_with_obs_period (sh r : Regs)  (v) :
    ActSetter.apply r (.obsPeriod v) = Set.act_with_obs_period sh r v := by
  setter_cases v Set.act_with_obs_period
theorem set_tap_with_axis (sh r : Regs)  (v) :
    TapSetter.apply r (.axis v) = Set.tap_with_axis sh r v := by
  setter_cases v Set.tap_with_axis
theorem set_tap_with_sensitivity (sh r : Regs)  (v) :
    TapSetter.apply r (.sensitivity v) = Set.tap_with_sensitivity sh r v := by
  setter_cases v Set.tap_with_sensitivity
theorem set_tap_with_min_duration_btn_taps (sh r : Regs)  (v) :
    TapSetter.apply r (.minDur v) = Set.tap_with_min_duration_btn_taps sh r v := by
  setter_cases v Set.tap_with_min_duration_btn_taps
theorem set_tap_with_max_double_tap_window (sh r : Regs)  (v) :
    TapSetter.apply r (.dtapDur v) = Set.tap_with_max_double_tap_window sh r v := by
  setter_cases v Set.tap_with_max_double_tap_window
theorem set_tap_with_max_tap_duration (sh r : Regs)  (v) :
    TapSetter.apply r (.maxDur v) = Set.tap_with_max_tap_duration sh r v := by
  setter_cases v Set.tap_with_max_tap_duration

end Thm
end Bma400
