/-
  C10 - self-test follows the datasheet procedure, judges correctly, restores the config.

  The self test is a fixed list of 21 bus actions computed from the configuration saved
  before it (`selfTestActs`, mirroring lib.rs / config.rs).  For EVERY coherent prior
  configuration and EVERY pair of sensor responses:
  `C10_setup` / `C10_state_at_excitation`  when the first non-zero value is written to
        SELF_TEST (0x7D) the device has INT_CONFIG0 = INT_CONFIG1 = 0 (all interrupts off),
        the auto-wake-up interrupt bit and the three FIFO axis bits clear, power mode normal
        and ACC_CONFIG1 = 0x78 (4g, OSR3, 100 Hz);
  `C10_order`   SELF_TEST receives exactly 0x07 (positive, all axes), 0x0F (negative), 0x00
        (off), in this order; each of the two data reads - one 6-byte burst at 0x04 each,
        and there are no other reads - happens while an excitation is applied and after at
        least 50 ms of DelayMs arguments since it was switched on;
  `C10_verdict` Ok exactly when positive - negative exceeds 1500 / 1200 / 250 on x / y / z
        (12-bit operands: no i16 overflow), otherwise SelfTestFailedError, nothing else;
  `C10_restore` in both cases every device register afterwards equals its value before, and
        so does the recorded configuration;
  `C10_abstract` all of it as `P.C10`, the predicate `judge` evaluates on the crate;
  `C10_i2c` / `C10_spi`  the run over either transport is that abstract run (refinement,
        Thm/C14), journal included.
  Partial: "50 ms" is the sum of the arguments passed to DelayMs, not elapsed time.
-/
import Bma400.Thm.C16
import Bma400.Thm.C03
set_option linter.unusedSimpArgs false
namespace Bma400
namespace Thm
open P R

/-- registers after the six set-up writes -/
def stSetup (sh pre : Regs) : Regs :=
  (((((pre.set 0x1F 0x00#8).set 0x20 0x00#8).set 0x2D (flag (sh 0x2D) awk1_WKUP_INT false)).set 0x26
    (flag (flag (flag (sh 0x26) f0_X false) f0_Y false) f0_Z false)).set 0x19
    (acc0_with_power_mode (sh 0x19) .normal)).set 0x1A 0x78#8

theorem setup_bytes : ∀ b : Byte,
    flag b awk1_WKUP_INT false &&& 0x02#8 = 0#8 ∧
    flag (flag (flag b f0_X false) f0_Y false) f0_Z false &&& 0xE0#8 = 0#8 ∧
    acc0_with_power_mode b .normal &&& 0x03#8 = 0x02#8 := by decide +kernel

theorem C10_setup (sh pre : Regs) : selfTestSetup (stSetup sh pre) := by
  unfold selfTestSetup stSetup
  simp [Regs.set, (setup_bytes (sh 0x2D)).1, (setup_bytes (sh 0x26)).2.1, (setup_bytes (sh 0x19)).2.2]

theorem C10_state_at_excitation (sh pre : Regs) :
    stateAtExcitation pre ((selfTestActs sh).map Act.acc) = some (stSetup sh pre) := by
  simp [selfTestActs, Act.acc, stateAtExcitation, stSetup, trunc, selftest_trunc]

theorem C10_order (sh : Regs) :
    excitations ((selfTestActs sh).map Act.acc) = [0x07#8, 0x0F#8, 0x00#8] ∧
    settleOk ((selfTestActs sh).map Act.acc) none = true ∧
    ((selfTestActs sh).map Act.acc).filter (fun a => match a with | .rd _ _ _ => true | _ => false)
      = [.rd 0x04 6 true, .rd 0x04 6 true] := by
  refine ⟨?_, ?_, ?_⟩
  · simp [selfTestActs, Act.acc, excitations, okWrites, valuesAt, selftest_trunc, trunc]
  · simp [selfTestActs, Act.acc, settleOk, selftest_trunc, trunc, DS.ST_SETTLE_MS]
  · simp [selfTestActs, Act.acc]

/-- the device registers after the whole procedure (fault-free) -/
theorem C10_restore (chip : Chip) (sh : Regs) (hco : Coherent sh chip.regs) (h7D : chip.regs 0x7D = 0#8) :
    (∀ a, (aexec chip sh (selfTestActs sh) []).1.regs a = chip.regs a) ∧
    (∀ a ∈ DS.cfgAddrs, (aexec chip sh (selfTestActs sh) []).2.1 a = sh a) := by
  have c19 := hco 0x19 (by decide); have c1A := hco 0x1A (by decide); have c1F := hco 0x1F (by decide)
  have c20 := hco 0x20 (by decide); have c2D := hco 0x2D (by decide); have c26 := hco 0x26 (by decide)
  have key : ∀ a : Nat, a = 38 ∨ a = 45 ∨ a = 32 ∨ a = 31 ∨ a = 26 ∨ a = 25 ∨ a = 125 ∨
      (a ≠ 38 ∧ a ≠ 45 ∧ a ≠ 32 ∧ a ≠ 31 ∧ a ≠ 26 ∧ a ≠ 25 ∧ a ≠ 125) := by intro a; omega
  constructor
  · intro a
    rcases key a with rfl | rfl | rfl | rfl | rfl | rfl | rfl | ⟨n1, n2, n3, n4, n5, n6, n7⟩
    all_goals
      simp [selfTestActs, aexec, Chip.write, applyEff, trunc, selftest_trunc, Regs.set, *]
  · intro a _
    rcases key a with rfl | rfl | rfl | rfl | rfl | rfl | rfl | ⟨n1, n2, n3, n4, n5, n6, n7⟩
    all_goals
      simp [selfTestActs, aexec, Chip.write, applyEff, trunc, selftest_trunc, Regs.set, *]

/-- without the assumption that SELF_TEST was idle before (an earlier test may have been cut
    by a bus error with the excitation still applied): every OTHER register is restored and
    SELF_TEST is left idle -/
theorem C10_restore_any (chip : Chip) (sh : Regs) (hco : Coherent sh chip.regs) :
    (∀ a, a ≠ 0x7D → (aexec chip sh (selfTestActs sh) []).1.regs a = chip.regs a) ∧
    (aexec chip sh (selfTestActs sh) []).1.regs 0x7D = 0#8 := by
  have c19 := hco 0x19 (by decide); have c1A := hco 0x1A (by decide); have c1F := hco 0x1F (by decide)
  have c20 := hco 0x20 (by decide); have c2D := hco 0x2D (by decide); have c26 := hco 0x26 (by decide)
  have key : ∀ a : Nat, a = 38 ∨ a = 45 ∨ a = 32 ∨ a = 31 ∨ a = 26 ∨ a = 25 ∨ a = 125 ∨
      (a ≠ 38 ∧ a ≠ 45 ∧ a ≠ 32 ∧ a ≠ 31 ∧ a ≠ 26 ∧ a ≠ 25 ∧ a ≠ 125) := by intro a; omega
  constructor
  · intro a ha
    rcases key a with rfl | rfl | rfl | rfl | rfl | rfl | rfl | ⟨n1, n2, n3, n4, n5, n6, n7⟩
    all_goals first
      | exact absurd rfl ha
      | simp [selfTestActs, aexec, Chip.write, applyEff, trunc, selftest_trunc, Regs.set, *]
  · simp [selfTestActs, aexec, Chip.write, applyEff, trunc, selftest_trunc, Regs.set]

/-- the data the two reads return: the positive, then the negative excitation response -/
theorem C10_reads (chip : Chip) (sh : Regs) :
    (aexec chip sh (selfTestActs sh) []).2.2 =
      [(List.range 6).map (fun i => chip.pos.getD i 0#8), (List.range 6).map (fun i => chip.neg.getD i 0#8)] := by
  simp [selfTestActs, aexec, Chip.write, Chip.burst, Chip.dataAt, Regs.set, selftest_trunc, trunc, List.range, List.range.loop]

/-- the verdict: Ok exactly when the three differences exceed 1500 / 1200 / 250 (no i16
    overflow: both operands are 12-bit), otherwise SelfTestFailedError - never anything else -/
theorem C10_verdict (p n : List Byte) :
    let d (i : Nat) := accel12 (p.getD (2 * i) 0) (p.getD (2 * i + 1) 0) - accel12 (n.getD (2 * i) 0) (n.getD (2 * i + 1) 0)
    let o := finishOutcome (selfTestVerdict [(List.range 6).map (fun i => p.getD i 0#8), (List.range 6).map (fun i => n.getD i 0#8)])
    (o = .ok "" ↔ (d 0 > DS.ST_MIN_X ∧ d 1 > DS.ST_MIN_Y ∧ d 2 > DS.ST_MIN_Z)) ∧ (o = .ok "" ∨ o = .err .selfTest) := by
  simp only [selfTestVerdict, T.fromBytesUnscaled, C03_decode, List.range, List.range.loop, List.map, DS.ST_MIN_X, DS.ST_MIN_Y,
    DS.ST_MIN_Z]
  simp
  split <;> simp_all [finishOutcome]

/-- C10, fault-free, in the form `P.C10` that `judge` evaluates - for every coherent prior
    configuration (SELF_TEST idle) and every pair of sensor responses -/
theorem C10_abstract (chip : Chip) (sh : Regs) (hco : Coherent sh chip.regs) :
    P.C10 chip.regs (aexec chip sh (selfTestActs sh) []).1.regs chip.pos chip.neg ((selfTestActs sh).map Act.acc)
      (finishOutcome (selfTestVerdict (aexec chip sh (selfTestActs sh) []).2.2)) := by
  unfold P.C10
  obtain ⟨o1, o2, o3⟩ := C10_order sh
  refine ⟨⟨_, C10_state_at_excitation sh chip.regs, C10_setup sh chip.regs⟩, o1, o2, o3, ?_, ?_, ?_⟩
  · rw [C10_reads]; exact C10_verdict chip.pos chip.neg
  · intro a _ ha; exact (C10_restore_any chip sh hco).1 a ha
  · exact (C10_restore_any chip sh hco).2

/-- the self test over either transport, fault-free: the run refines the abstract one, so
    journal (C12_exact / C13_exact), verdict and restoration are the abstract ones -/
theorem C10_i2c (dev : Nat) (w : World) :
    let r := runOp (.i2c dev) noFaults w .selfTest
    decodeI2c dev r.1 = some ((selfTestActs w.shadow).map Act.acc) ∧
    r.2.2 = finishOutcome (selfTestVerdict (aexec w.chip w.shadow (selfTestActs w.shadow) []).2.2) ∧
    Chip.Same r.2.1.chip (aexec w.chip w.shadow (selfTestActs w.shadow) []).1 ∧
    r.2.1.shadow = (aexec w.chip w.shadow (selfTestActs w.shadow) []).2.1 := by
  have hwf := plan_wf w.shadow .selfTest
  have href := exec_i2c_refines dev (selfTestActs w.shadow) hwf { w with idx := 0 } []
  have hdec := C12_exact dev (selfTestActs w.shadow) hwf { w with idx := 0 } []
  simp only [runOp, show (Op.selfTest.plan w.shadow) = ⟨none, selfTestActs w.shadow⟩ from rfl]
  rcases hx : exec (.i2c dev) noFaults { w with idx := 0 } (selfTestActs w.shadow) [] with ⟨j, w', r⟩
  rw [hx] at href hdec
  obtain ⟨h1, h2, h3⟩ := href
  cases r with
  | error e => exact absurd h3 (by simp)
  | ok reads =>
    simp only at h3 hdec
    subst h3
    exact ⟨hdec, rfl, h1, h2⟩

theorem C10_spi (w : World) (hcs : w.chip.csHigh = true) (hsm : w.chip.spiMode = true) :
    let r := runOp .spi noFaults w .selfTest
    decodeSpi r.1 = some ((selfTestActs w.shadow).map Act.acc) ∧
    r.2.2 = finishOutcome (selfTestVerdict (aexec w.chip w.shadow (selfTestActs w.shadow) []).2.2) ∧
    Chip.Same r.2.1.chip (aexec w.chip w.shadow (selfTestActs w.shadow) []).1 ∧
    r.2.1.shadow = (aexec w.chip w.shadow (selfTestActs w.shadow) []).2.1 := by
  have hwf := plan_wf w.shadow .selfTest
  have href := (exec_spi_refines (selfTestActs w.shadow) hwf { w with idx := 0 } [] hcs hsm).1
  have hdec := C13_exact (selfTestActs w.shadow) hwf { w with idx := 0 } []
  simp only [runOp, show (Op.selfTest.plan w.shadow) = ⟨none, selfTestActs w.shadow⟩ from rfl]
  rcases hx : exec .spi noFaults { w with idx := 0 } (selfTestActs w.shadow) [] with ⟨j, w', r⟩
  rw [hx] at href hdec
  obtain ⟨h1, h2, h3⟩ := href
  cases r with
  | error e => exact absurd h3 (by simp)
  | ok reads =>
    simp only at h3 hdec
    subst h3
    exact ⟨hdec, rfl, h1, h2⟩

/-- non-vacuity: +1600/+1300/+300 against 0 passes; +1500 on x does not -/
example :
    finishOutcome (selfTestVerdict [[0x40#8, 0x06#8, 0x14#8, 0x05#8, 0x2C#8, 0x01#8], [0, 0, 0, 0, 0, 0]]) = .ok "" ∧
    finishOutcome (selfTestVerdict [[0xDC#8, 0x05#8, 0x14#8, 0x05#8, 0x2C#8, 0x01#8], [0, 0, 0, 0, 0, 0]]) = .err .selfTest := by
  decide

end Thm
end Bma400
