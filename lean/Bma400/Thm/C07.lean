/-
  C07 - interrupt parameters are only rewritten while that interrupt is disabled.

  `C07_script`: for EVERY builder, EVERY request and EVERY coherent state, walking the
  builder's whole write script from the device state `chip`, at each write to a parameter
  register of the generic-1, generic-2, activity-change, tap, orientation-change or
  wake-up interrupt, or to the FIFO watermark level, that interrupt is disabled in the
  device state at that instant (`P.C07`, the predicate `judge` evaluates on the crate's
  journal against the simulated chip's own enable bits).
  `C07_prefix`: the walk is prefix-closed, so the same holds when the call is cut short by
  a bus failure at any position.
-/
import Bma400.Lemmas.Effect
set_option linter.unusedSimpArgs false
namespace Bma400
namespace Thm
open P R

theorem dws_nil_of_not_chg {sh rq : Regs} {as : List Nat} (h : chg sh rq as = false) : dws sh rq as = [] := by
  have := chg_false h
  unfold dws
  rw [List.flatMap_eq_nil_iff]
  intro a ha
  simp [dw, this a ha]

theorem C07_nil (c : Regs) : C07 c [] := trivial

/-- bracket whose body is either empty or written with the interrupt disabled -/
theorem bracket_C07' (X : DS.Intr) (chip sh rq : Regs) (B : List Nat) (e : Nat) (hee : e ∈ enableRegs)
    (tmp : Byte) (dis : Bool) (hB : ∀ a ∈ B, a ∈ X.params)
    (h0 : dis = false → X.enabled chip = false ∨ dws sh rq B = [])
    (h1 : dis = true → X.enabled (chip.set e tmp) = false) :
    C07 chip (bracket sh e dis tmp (dws sh rq B)) := by
  cases dis with
  | true => exact bracket_C07 X chip sh rq B e hee tmp true hB (by simp) h1
  | false =>
    rcases h0 rfl with h | h
    · exact bracket_C07 X chip sh rq B e hee tmp false hB (fun _ => h) (by simp)
    · unfold bracket
      rw [h]
      apply C07_noparam
      intro w hw x hx hp
      simp only [List.append_nil, List.mem_append] at hw
      rcases hw with hw | hw
      · simp [wIf] at hw
      · rw [(mem_wIf hw).2] at hp
        exact params_not_enable x hx e hp hee

theorem noparam_of_addrs (ws : List W) (S : List Nat) (hS : ∀ w ∈ ws, w.addr ∈ S)
    (hd : ∀ a ∈ S, ∀ x ∈ DS.Intr.all, a ∉ x.params) (c : Regs) : C07 c ws :=
  C07_noparam c ws (fun w hw x hx => hd _ (hS w hw) x hx)

theorem C07_script (q : Request) (sh chip : Regs) (hco : Coherent sh chip) (ws : List W)
    (h : q.script sh = .ok ws) : C07 chip ws := by
  have e1F : chip 0x1F = sh 0x1F := (hco 0x1F (by decide)).symm
  have e20 : chip 0x20 = sh 0x20 := (hco 0x20 (by decide)).symm
  have e2F : chip 0x2F = sh 0x2F := (hco 0x2F (by decide)).symm
  cases q with
  | acc l =>
    exact noparam_of_addrs ws ([0x19, 0x1A, 0x1B] ++ enableRegs)
      (fun w hw => by
        have := script_addrs _ sh ws h w hw
        simp only [Request.block] at this
        simp only [List.mem_append]; exact this) (by decide) chip
  | int l =>
    exact noparam_of_addrs ws ([0x1F, 0x20] ++ enableRegs)
      (fun w hw => by
        have := script_addrs _ sh ws h w hw
        simp only [Request.block] at this
        simp only [List.mem_append]; exact this) (by decide) chip
  | pin l =>
    exact noparam_of_addrs ws ([0x21, 0x22, 0x23, 0x24] ++ enableRegs)
      (fun w hw => by
        have := script_addrs _ sh ws h w hw
        simp only [Request.block] at this
        simp only [List.mem_append]; exact this) (by decide) chip
  | alp l =>
    exact noparam_of_addrs ws ([0x2A, 0x2B] ++ enableRegs)
      (fun w hw => by
        have := script_addrs _ sh ws h w hw
        simp only [Request.block] at this
        simp only [List.mem_append]; exact this) (by decide) chip
  | awk l =>
    exact noparam_of_addrs ws ([0x2C, 0x2D] ++ enableRegs)
      (fun w hw => by
        have := script_addrs _ sh ws h w hw
        simp only [Request.block] at this
        simp only [List.mem_append]; exact this) (by decide) chip
  | gen g l =>
    simp only [Request.script] at h
    rcases genScript_ok g sh _ ws h with ⟨_, rfl⟩ | ⟨_, rfl⟩
    · exact C07_nil _
    · cases g with
      | g1 =>
        apply bracket_C07' .gen1 chip sh _ (genBlock .g1) 0x1F (by decide) _ _ (by decide)
        · intro hd; left; simp only [DS.Intr.enabled, e1F]; exact hd
        · intro hd; simp only [DS.Intr.enabled, Regs.set_same, hd, if_true]; exact has_clr _ _
      | g2 =>
        apply bracket_C07' .gen2 chip sh _ (genBlock .g2) 0x1F (by decide) _ _ (by decide)
        · intro hd; left; simp only [DS.Intr.enabled, e1F]; exact hd
        · intro hd; simp only [DS.Intr.enabled, Regs.set_same, hd, if_true]; exact has_clr _ _
  | act l =>
    simp only [Request.script] at h
    rcases actScript_ok sh _ ws h with ⟨_, rfl⟩ | ⟨_, rfl⟩
    · exact C07_nil _
    · apply bracket_C07' .actch chip sh _ [0x55, 0x56] 0x20 (by decide) _ _ (by decide)
      · intro hd; left; simp only [DS.Intr.enabled, e20]; exact hd
      · intro hd; simp only [DS.Intr.enabled, Regs.set_same, hd, if_true]; exact has_clr _ _
  | tap l =>
    simp only [Request.script] at h
    rw [tapScript_ok sh _ ws h]
    apply bracket_C07' .tap chip sh _ [0x57, 0x58] 0x20 (by decide) _ _ (by decide)
    · intro hd
      simp only [Bool.and_eq_false_iff] at hd
      rcases hd with hd | hd
      · left; simp only [DS.Intr.enabled, e20]; rw [← (tap_mask (sh 0x20)).2]; exact hd
      · right; exact dws_nil_of_not_chg hd
    · intro hd
      simp only [DS.Intr.enabled, Regs.set_same, hd, if_true]
      rw [(tap_mask (sh 0x20)).1]; exact has_clr _ _
  | ori l =>
    simp only [Request.script] at h
    rw [oriScript_ok sh _ ws h]
    apply bracket_C07' .orient chip sh _ oriBlock 0x1F (by decide) _ _ (by decide)
    · intro hd
      simp only [Bool.and_eq_false_iff] at hd
      rcases hd with hd | hd
      · left; simp only [DS.Intr.enabled, e1F]; exact hd
      · right; exact dws_nil_of_not_chg hd
    · intro hd
      simp only [DS.Intr.enabled, Regs.set_same, hd, if_true]; exact has_clr _ _
  | fifo l =>
    simp only [Request.script] at h
    rw [fifoScript_ok sh _ ws h]
    have np : ∀ (c : Regs) (a : Nat), a = 0x26 ∨ a = 0x29 → C07 c (dws sh ((Request.fifo l).target sh) [a]) := by
      intro c a ha
      apply noparam_of_addrs _ [0x26, 0x29] _ (by decide)
      intro w hw
      have := (mem_dws hw).1
      simp at this ⊢; rcases ha with rfl | rfl <;> simp [this]
    apply C07_append
    · apply C07_append
      · exact np _ _ (Or.inl rfl)
      · have hne : ∀ (a : Nat) (c : Regs), a = 0x26 → (applyWrites c (dws sh ((Request.fifo l).target sh) [a])) 0x1F = c 0x1F := by
          intro a c ha
          subst ha
          simp only [dws, List.flatMap_cons, List.flatMap_nil, List.append_nil, dw]
          split <;> simp [applyWrites, Regs.set]
        apply bracket_C07' .fwm _ sh _ [0x27, 0x28] 0x1F (by decide) _ _ (by decide)
        · intro hd
          simp only [Bool.and_eq_false_iff] at hd
          rcases hd with hd | hd
          · left; simp only [DS.Intr.enabled]; rw [hne 0x26 chip rfl, e1F]; exact hd
          · right; exact dws_nil_of_not_chg hd
        · intro hd
          simp only [DS.Intr.enabled, Regs.set_same, hd, if_true]; exact has_clr _ _
    · exact np _ _ (Or.inr rfl)
  | wkup l =>
    simp only [Request.script, wkupScript] at h
    cases h
    have npe : ∀ (b : Bool) (v : Byte) (c : Regs), C07 c (wIf b 0x2F v) := by
      intro b v c
      apply noparam_of_addrs _ [0x2F] _ (by decide)
      intro w hw; rw [(mem_wIf hw).2]; simp
    apply C07_append
    · apply C07_append
      · exact npe _ _ _
      · rw [applyWrites_wIf]
        cases hd : (has (sh 0x2F) wk0_AXES && chg sh ((Request.wkup l).target sh) [0x2F, 0x30, 0x31, 0x32, 0x33]) with
        | true =>
          simp only [if_true]
          apply C07_params .wkup
          · intro w hw; have := (mem_dws hw).1; revert this; generalize w.addr = a; revert a; decide
          · simp only [DS.Intr.enabled, Regs.set_same]
            rw [(wk_mask (sh 0x2F)).1]; exact has_clr _ _
        | false =>
          simp only [Bool.false_eq_true, if_false]
          simp only [Bool.and_eq_false_iff] at hd
          rcases hd with hd | hd
          · apply C07_params .wkup
            · intro w hw; have := (mem_dws hw).1; revert this; generalize w.addr = a; revert a; decide
            · simp only [DS.Intr.enabled, e2F]; rw [← (wk_mask (sh 0x2F)).2]; exact hd
          · have := chg_false hd
            have hn : dws sh ((Request.wkup l).target sh) [0x30, 0x31, 0x32, 0x33] = [] := by
              apply dws_nil_of_not_chg
              unfold chg
              rw [List.any_eq_false]
              intro a ha
              have := this a (List.mem_cons_of_mem _ ha)
              simp [this]
            rw [hn]; exact C07_nil _
    · exact npe _ _ _

/-- prefix-closed: whatever prefix of the script was executed before a bus failure -/
theorem C07_prefix (c : Regs) (ws : List W) (n : Nat) (h : C07 c ws) : C07 c (ws.take n) := by
  induction ws generalizing c n with
  | nil => simpa using h
  | cons w ws ih =>
    cases n with
    | zero => trivial
    | succ n => exact ⟨h.1, ih _ n h.2⟩

/-- non-vacuity: tap parameters with single-tap enabled at 200 Hz: disable, write, restore -/
example : C07 (shadowDefault.set 0x20 0x04#8) [⟨0x20, 0x00#8⟩, ⟨0x57, 0x03#8⟩, ⟨0x20, 0x04#8⟩] ∧
    ¬ C07 (shadowDefault.set 0x20 0x04#8) [⟨0x57, 0x03#8⟩] := by decide

end Thm
end Bma400
