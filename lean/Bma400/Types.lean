/-
  Model of src/types.rs: measurement decoding, status decoders, FIFO frame
  parser (`FifoFrames::next`, `Header`, `Frame` accessors).

  Slices are modelled as lists; every index the Rust code evaluates is an
  `Option`-valued `getElem?` here, `none` meaning "the Rust would panic".
-/
import Bma400.Basic
namespace Bma400
namespace T

/-- `i16::from_le_bytes([lo, hi])` as an integer -/
def i16le (lo hi : Byte) : Int :=
  let n := lo.toNat + 256 * hi.toNat
  if n < 32768 then (n : Int) else (n : Int) - 65536

/-- `Measurement::to_i16` -/
def toI16 (lsb msb : Byte) : Int :=
  let c := msb &&& 0x0F#8
  i16le lsb (if c >>> 3 == 0#8 then c else c ||| 0xF0#8)

/-- `i16 << shift` with wrap-around (what a release build computes; a debug build
    panics only on an over-wide shift amount, never on lost bits) -/
def shlI16 (v : Int) (s : Nat) : Int :=
  let n := ((v * (2 ^ s : Nat)) % 65536).toNat
  if n < 32768 then (n : Int) else (n : Int) - 65536

def scaleShift : Scale → Nat | .r2g => 0 | .r4g => 1 | .r8g => 2 | .r16g => 3

/-- `Measurement::from_bytes_unscaled`; `none` = index out of range -/
def fromBytesUnscaled (b : List Byte) : Option (Int × Int × Int) := do
  let b0 ← b[0]?; let b1 ← b[1]?; let b2 ← b[2]?; let b3 ← b[3]?; let b4 ← b[4]?; let b5 ← b[5]?
  pure (toI16 b0 b1, toI16 b2 b3, toI16 b4 b5)

def fromBytesScaled (s : Scale) (b : List Byte) : Option (Int × Int × Int) := do
  let (x, y, z) ← fromBytesUnscaled b
  let k := scaleShift s
  pure (shlI16 x k, shlI16 y k, shlI16 z k)

/-- `u32::from_le_bytes([b0, b1, b2, 0])` -/
def u24le (b0 b1 b2 : Byte) : Nat := b0.toNat + 256 * b1.toNat + 65536 * b2.toNat

def bit (b m : Byte) : Bool := (b &&& m) != 0#8

/-! ### status decoders: each returns the list of accessor results in a fixed order -/
def b2i (b : Bool) : Int := if b then 1 else 0

/-- Status: drdy_stat, cmd_rdy, power_mode (0 sleep, 1 low power, 2 normal), int_active -/
def statusPowerMode (b : Byte) : Nat :=
  match ((b &&& 0x06#8) >>> 1).toNat with | 0 => 0 | 1 => 1 | _ => 2
def decodeStatus (b : Byte) : List Int :=
  [b2i (bit b 0x80#8), b2i (bit b 0x10#8), statusPowerMode b, b2i (bit b 0x01#8)]
/-- IntStatus0: drdy, fwm, ffull, ieng_overrun, gen2, gen1, orientch, wkup -/
def decodeIntStatus0 (b : Byte) : List Int :=
  [b2i (bit b 0x80#8), b2i (bit b 0x40#8), b2i (bit b 0x20#8), b2i (bit b 0x10#8),
   b2i (bit b 0x08#8), b2i (bit b 0x04#8), b2i (bit b 0x02#8), b2i (bit b 0x01#8)]
/-- IntStatus1: ieng_overrun, d_tap, s_tap, step_int (0 none, 1 one step, 2 many) -/
def stepIntStat (b : Byte) : Nat :=
  match (b &&& 0x03#8).toNat with | 0 => 0 | 1 => 1 | _ => 2
def decodeIntStatus1 (b : Byte) : List Int :=
  [b2i (bit b 0x10#8), b2i (bit b 0x08#8), b2i (bit b 0x04#8), stepIntStat b]
/-- IntStatus2: ieng_overrun, actch_z, actch_y, actch_x -/
def decodeIntStatus2 (b : Byte) : List Int :=
  [b2i (bit b 0x10#8), b2i (bit b 0x04#8), b2i (bit b 0x02#8), b2i (bit b 0x01#8)]
/-- Activity: 0 still, 1 walk, 2 run -/
def decodeActivity (b : Byte) : Nat :=
  match (b &&& 0x03#8).toNat with | 0 => 0 | 1 => 1 | _ => 2
def fifoLen (b0 b1 : Byte) : Nat := b0.toNat + 256 * (b1 &&& 0x07#8).toNat
/-- `i8::from_le_bytes` -/
def i8of (b : Byte) : Int := if b.toNat < 128 then (b.toNat : Int) else (b.toNat : Int) - 256

/-! ### FIFO frames -/

inductive FrameType | data | time | control deriving DecidableEq, Repr

/-- `Header::from_bits_truncate`: bit 0 is not part of the header -/
def hdr (b : Byte) : Byte := b &&& 0xFE#8

/-- `Header::frame_type` -/
def frameType (h : Byte) : FrameType :=
  if (h &&& 0xA0#8) == 0xA0#8 then .time
  else if (h &&& 0x40#8) != 0#8 then .control
  else .data

def resolutionIs12bit (h : Byte) : Bool :=
  match frameType h with | .data => (h &&& 0x10#8) != 0#8 | _ => false
def hasData (h : Byte) : Bool :=
  match frameType h with | .data => (h &&& 0x0E#8) != 0#8 | _ => false
def hasX (h : Byte) : Bool := match frameType h with | .data => (h &&& 0x02#8) != 0#8 | _ => false
def hasY (h : Byte) : Bool := match frameType h with | .data => (h &&& 0x04#8) != 0#8 | _ => false
def hasZ (h : Byte) : Bool := match frameType h with | .data => (h &&& 0x08#8) != 0#8 | _ => false

/-- population count of the axes bits (the `while n != 0 { n &= n - 1; … }` loop) -/
def numAxes (h : Byte) : Nat :=
  (if (h &&& 0x02#8) != 0#8 then 1 else 0) + (if (h &&& 0x04#8) != 0#8 then 1 else 0)
    + (if (h &&& 0x08#8) != 0#8 then 1 else 0)

/-- `Header::num_payload_bytes` -/
def numPayloadBytes (h : Byte) : Nat :=
  match frameType h with
  | .time => 3
  | .data =>
      if !hasData h then 1
      else if resolutionIs12bit h then numAxes h * 2 else numAxes h
  | .control => 1

/-- iterator state of `FifoFrames` over a fixed buffer -/
structure Iter where
  index : Nat
  deriving DecidableEq, Repr

/-- a yielded frame: the sub-slice `[start, stop)` of the buffer -/
structure Frame where
  start : Nat
  stop : Nat
  deriving DecidableEq, Repr

/-- `FifoFrames::next`.  The buffer read `bytes[header_idx]` is guarded by the
    length test, so it is total; we still go through `getElem?` and return the
    iterator unchanged in the (unreachable) `none` case. -/
def next (buf : List Byte) (it : Iter) : Option Frame × Iter :=
  if it.index ≥ buf.length then (none, it)
  else
    match buf[it.index]? with
    | none => (none, it)
    | some b =>
      let h := hdr b
      if frameType h == .data && !hasData h then (none, ⟨it.index + 2⟩)
      else
        let idx' := it.index + numPayloadBytes h + 1
        if idx' > buf.length then (none, ⟨idx'⟩)
        else (some ⟨it.index, idx'⟩, ⟨idx'⟩)

/-- what `for frame in frames` / `collect()` yields: stop at the first `None` -/
def iterate (buf : List Byte) (it : Iter) (fuel : Nat) : List Frame :=
  match fuel with
  | 0 => []
  | fuel + 1 =>
    match next buf it with
    | (none, _) => []
    | (some f, it') => f :: iterate buf it' fuel

/-- all frames of a buffer (fuel `len + 1` is always enough, see Thm/C05) -/
def frames (buf : List Byte) : List Frame := iterate buf ⟨0⟩ (buf.length + 1)

/-- repeated calls of `next` without stopping at `None` (C05 counts every call) -/
def callN (buf : List Byte) (it : Iter) : Nat → List (Option Frame) × Iter
  | 0 => ([], it)
  | n + 1 =>
    let (o, it') := next buf it
    let (os, it'') := callN buf it' n
    (o :: os, it'')

/-! #### accessors: `slice[i]` is `buf[start + i]` guarded by `start + i < stop` -/

def Frame.at (buf : List Byte) (f : Frame) (i : Nat) : Option Byte :=
  if f.start + i < f.stop then buf[f.start + i]? else none

/-- `Frame::data_at_offset`; outer `none` = the Rust would panic -/
def Frame.dataAtOffset (buf : List Byte) (f : Frame) (off : Nat) (res12 : Bool) : Option Int :=
  if res12 then do
    let a ← f.at buf (off * 2 + 1)
    let b ← f.at buf (off * 2 + 2)
    let lsb := (a &&& 0x0F#8) ||| (b <<< 4)
    let msb := b >>> 4
    pure (i16le lsb (if msb >>> 3 == 0#8 then msb else msb ||| 0xF0#8))
  else do
    let a ← f.at buf (off + 1)
    let lsb := a <<< 4
    let msb := a >>> 4
    pure (i16le lsb (if msb >>> 3 == 0#8 then msb else msb ||| 0xF0#8))

/-- result of an accessor: outer `none` = panic, inner `none` = the accessor returned `None` -/
abbrev Acc (α : Type) := Option (Option α)

def Frame.frameType (buf : List Byte) (f : Frame) : Option FrameType := do
  let b ← f.at buf 0
  pure (T.frameType (hdr b))

def Frame.x (buf : List Byte) (f : Frame) : Option (Option Int) := do
  let b ← f.at buf 0
  let h := hdr b
  if T.frameType h != .data || !hasX h then pure none
  else (f.dataAtOffset buf 0 (resolutionIs12bit h)).map some

def Frame.y (buf : List Byte) (f : Frame) : Option (Option Int) := do
  let b ← f.at buf 0
  let h := hdr b
  if T.frameType h != .data || !hasY h then pure none
  else (f.dataAtOffset buf (if hasX h then 1 else 0) (resolutionIs12bit h)).map some

def Frame.z (buf : List Byte) (f : Frame) : Option (Option Int) := do
  let b ← f.at buf 0
  let h := hdr b
  if T.frameType h != .data || !hasZ h then pure none
  else (f.dataAtOffset buf ((if hasX h then 1 else 0) + (if hasY h then 1 else 0))
          (resolutionIs12bit h)).map some

def Frame.time (buf : List Byte) (f : Frame) : Option (Option Nat) := do
  let t ← f.frameType buf
  if t != .time then pure none
  else do
    let b1 ← f.at buf 1; let b2 ← f.at buf 2; let b3 ← f.at buf 3
    pure (some (u24le b1 b2 b3))

def Frame.ctrlBit (buf : List Byte) (f : Frame) (m : Byte) : Option (Option Bool) := do
  let t ← f.frameType buf
  if t != .control then pure none
  else do
    let b1 ← f.at buf 1
    pure (some ((b1 &&& m) != 0#8))

def Frame.fifoSrcChg (buf : List Byte) (f : Frame) : Option (Option Bool) := f.ctrlBit buf 0x02#8
def Frame.filt1BwChg (buf : List Byte) (f : Frame) : Option (Option Bool) := f.ctrlBit buf 0x04#8
def Frame.acc1Chg (buf : List Byte) (f : Frame) : Option (Option Bool) := f.ctrlBit buf 0x08#8

/-- everything a user can observe of a frame -/
structure View where
  ftype : FrameType
  x : Option Int
  y : Option Int
  z : Option Int
  time : Option Nat
  fifoSrcChg : Option Bool
  filt1BwChg : Option Bool
  acc1Chg : Option Bool
  deriving DecidableEq, Repr

/-- `none` if any accessor would panic -/
def Frame.view (buf : List Byte) (f : Frame) : Option View := do
  let t ← f.frameType buf
  let x ← f.x buf; let y ← f.y buf; let z ← f.z buf
  let tm ← f.time buf
  let a ← f.fifoSrcChg buf; let b ← f.filt1BwChg buf; let c ← f.acc1Chg buf
  pure ⟨t, x, y, z, tm, a, b, c⟩

end T
end Bma400
