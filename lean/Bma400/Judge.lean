/-
  `bma400model judge`: evaluates the property predicates of Props.lean on an
  observation line (normally the one produced by the real crate).  Input lines
  are `<case line>\t<observation line>`; output is `<id> ok` or
  `<id> <prop>@<call index> ...` listing every predicate that is false.
-/
import Bma400.Props
import Bma400.Proto
import Bma400.Fifo
namespace Bma400
namespace Judge
open Proto P

def parseOutcome (s : String) : Option Outcome :=
  if s = "panic" then some .panic
  else if s.startsWith "ok:" then some (.ok (s.drop 3).toString)
  else
    match s.splitOn ":" with
    | ["err", "io", i] => i.toNat?.map (fun n => .err (.io n))
    | ["err", "pin", i] => i.toNat?.map (fun n => .err (.pin n))
    | ["err", "cfg", "filt1"] => some (.err (.cfg .filt1Odr))
    | ["err", "cfg", "tap"] => some (.err (.cfg .tapOdr))
    | ["err", "cfg", "fifopwr"] => some (.err (.cfg .fifoPwr))
    | ["err", "chipid"] => some (.err .chipId)
    | ["err", "selftest"] => some (.err .selfTest)
    | _ => none

def parseSent (s : String) : Option (List Byte) :=
  if s.startsWith "z" then (s.drop 1).toString.toNat?.map (fun n => List.replicate n 0#8)
  else parseHexBytes s

def parseEntry (tok : String) : Option JEntry := do
  let ok := !tok.endsWith "!"
  let t := if ok then tok else (tok.dropEnd 1).toString
  if t = "L" then pure ⟨.csLow, ok⟩
  else if t = "H" then pure ⟨.csHigh, ok⟩
  else if t.startsWith "iw" then
    match (t.drop 2).toString.splitOn ":" with
    | [d, b] => pure ⟨.i2cWrite (← parseHexNat d) (← parseHexBytes b), ok⟩
    | _ => none
  else if t.startsWith "ir" then
    match (t.drop 2).toString.splitOn ":" with
    | [d, b, n] => pure ⟨.i2cWriteRead (← parseHexNat d) (← parseHexBytes b) (← n.toNat?), ok⟩
    | _ => none
  else if t.startsWith "sw:" then pure ⟨.spiWrite (← parseHexBytes (t.drop 3).toString), ok⟩
  else if t.startsWith "st:" then pure ⟨.spiTransfer (← parseSent (t.drop 3).toString), ok⟩
  else if t.startsWith "d" then pure ⟨.delay (← (t.drop 1).toString.toNat?), ok⟩
  else none

def parseJournal (s : String) : Option (List JEntry) := (words s).mapM parseEntry

def regsOfShadowDump (bytes : List Byte) : Regs :=
  let arr := (DS.cfgAddrs.zip bytes).toArray
  fun a => match arr.find? (·.1 == a) with | some (_, v) => v | none => 0#8

structure Obs where
  outcome : Outcome
  journal : List JEntry
  shadow : Option Regs
  chip : Option Regs
  csHigh : Bool

def parseObs (s : String) : Option Obs := do
  match s.splitOn ";" with
  | [r, j, sh, ch, cs] =>
    let o ← parseOutcome r
    let jn ← parseJournal j
    let shadow ← if sh = "-" then pure none else do
      let b ← parseHexBytes sh
      if b.length ≠ 57 then none else pure (some (regsOfShadowDump b))
    let chip ← if ch = "-" then pure none else do
      let b ← parseHexBytes ch
      if b.length ≠ 128 then none else pure (some (ofArray b.toArray))
    pure ⟨o, jn, shadow, chip, cs = "1"⟩
  | _ => none

def cfgOutcome : Outcome → Option CfgOutcome
  | .ok _ => some .ok
  | .err (.cfg e) => some (.rejected e)
  | .err (.io _) => some .busError
  | .err (.pin _) => some .busError
  | _ => none

def chk (name : String) (k : Nat) (b : Bool) : List String := if b then [] else [s!"{name}@{k}"]

/-- is the call free of injected failures (judged from the journal) -/
def faultFree (j : List JEntry) : Bool := j.all (·.ok)

def onlyDataFaults (j : List JEntry) : Bool := onlyDataFailures j

/-- transport-level predicates, every call -/
def judgeTransport (t : Transport) (k : Nat) (o : Obs) : List String :=
  (match t with
   | .i2c dev => chk "C12" k (decide (C12 dev o.journal))
   | .spi => chk "C13" k (decide (C13 o.journal (o.outcome.isOk || faultFree o.journal)))
             ++ chk "C20" k (decide (C20 o.journal) && (!onlyDataFaults o.journal || o.csHigh)))
  ++ chk "C15" k (decide (C15 o.journal o.outcome))
  ++ (if faultFree o.journal then chk "C15" k (match o.outcome with | .err (.io _) => false | .err (.pin _) => false | .panic => false | _ => true) else [])

def isRd : Acc → Bool | .rd _ _ _ => true | _ => false

def plannedReads (acts : List Act) : List Acc :=
  (acts.filter (fun a => match a with | .rd _ _ => true | _ => false)).map
    (fun a => match a with | .rd a n => Acc.rd a n true | _ => Acc.lowFailed)

def plannedAccs (acts : List Act) : List Acc :=
  acts.map (fun a => match a with | .wr a v _ => Acc.wr a v true | .rd a n => Acc.rd a n true | .delay ms => Acc.delay ms)

/-- every access of a fault-free call, in order: exactly the accesses the operation plans from
    the configuration the CRATE had recorded before the call (C12/C13 "every register write is
    one transaction ...": a write that never reaches the bus, or one sent twice, is not) -/
def accessesOk (sh : Regs) (op : Op) (accs : List Acc) (ff : Bool) : Bool :=
  if !ff then true else accs == plannedAccs (op.plan sh).acts

def judgeCtor (c : Case) (o : Obs) : List String :=
  let t := c.ctor.transport c.dev
  judgeTransport t 0 o ++
  (if faultFree o.journal then
    match decode t o.journal with
    | none => ["decode@0"]
    | some accs =>
      chk "C18" 0 (decide (C18 c.ctor (c.low.getD 0 0#8) (o.shadow.getD shadowDefault) accs o.outcome))
      ++ chk "reads" 0 ((accs.filter isRd) == plannedReads c.ctor.acts)
   else [])

def judgeFifo (c : Case) (k : Nat) (n : Nat) (v : String) : List String :=
  let buf := (List.range n).map (fun i => c.fifo.getD i 0#8)
  chk "C05" k (Fifo.judgeC05 buf v)
  ++ (match c.fspec with
      | none => []
      | some sp =>
        match Fifo.parseSpecs sp, Fifo.parseTail c.ftail with
        | some fs, some tl => chk "C04" k (Fifo.judgeC04 fs tl buf v)
        | _, _ => [s!"C04spec@{k}"])

/-- every read of a fault-free call is one access of exactly the planned register and length;
    `sh` is the recorded configuration the call started from (`none` in quiet mode: then a
    refused FIFO read, which plans no access, is tolerated) -/
def rdAddr : Acc → Nat | .rd a _ _ => a | _ => 0

def readsOk (sh : Option Regs) (op : Op) (accs : List Acc) (ff : Bool) : Bool :=
  if !ff then
    -- a call cut short by a bus failure attempts a PREFIX of its plan (Thm.exec_prefix): a read that is
    -- retried, or attempted after the failure, is not "one" read
    match sh with
    | some sh =>
      -- (a read whose address phase failed over SPI decodes with length 0: addresses are compared,
      --  and every ACKNOWLEDGED read must be a planned one in full)
      ((accs.filter isRd).map rdAddr).isPrefixOf ((plannedReads (op.plan sh).acts).map rdAddr)
      && (accs.filter (fun a => match a with | .rd _ _ true => true | _ => false)).all
           (fun a => (plannedReads (op.plan sh).acts).contains a)
    | none => true
  else
    let got := accs.filter isRd
    match sh with
    | some sh => got == plannedReads (op.plan sh).acts
    | none => got == plannedReads (op.plan shadowDefault).acts || got == []

def judgeOp (c : Case) (k : Nat) (op : Op) (prev : Obs) (o : Obs) : List String :=
  let t := c.ctor.transport c.dev
  let tr := judgeTransport t k o
  match decode t o.journal, prev.chip, o.chip, prev.shadow, o.shadow with
  | some accs, some pre0, some post, some shPre, some shPost =>
    -- what the device did by itself before this call (`@` tokens of the case)
    let pre := poke pre0 (c.pokesAt (k - 1))
    let c := { c with pos := c.posAt (k - 1), neg := c.negAt (k - 1) }
    let ff := faultFree o.journal
    let coherentOk :=
      -- C16: unless a pin operation failed, belief = device after the call
      if onlyDataFaults o.journal then chk "C16" k (decide (C16 shPost post)) else []
    let specific : List String :=
      match op with
      | .config q =>
        (match cfgOutcome o.outcome with
         | some co => chk "C06" k (decide (C06 q pre post shPre shPost o.journal.length co))
         | none => [s!"C06@{k}"])
        ++ chk "C07" k (decide (C07 pre (okWrites accs)))
        ++ (if ff && o.outcome.isOk then
              chk "C01" k (decide (C01 q pre post)) ++ chk "C02" k (decide (C02 q pre post))
              ++ chk "C02b" k (decide (C02Block q pre post))
              ++ chk "C08" k (decide (C08 q pre accs))
            else [])
        ++ (if ff then chk "C02" k (o.outcome != .panic) else [])
      | .getUnscaled | .getData =>
        if ff then
          let chipW : Chip := { regs := pre, pos := c.pos, neg := c.neg, fifo := c.fifo }
          chk "C03" k (decide (C03 pre (chipW.burst 4 6) op accs o.outcome)) else []
      | .readFifo n =>
        if ff then chk "C19" k (decide (C19 pre op accs o.outcome))
          ++ (match o.outcome with
              | .ok v => judgeFifo c k n v
              | .panic => [s!"C05@{k}"]
              | _ => [])
        else
          -- a burst that fails is still ONE burst (Thm.exec_prefix: what is attempted is a prefix of the plan)
          -- and the failure is what the call returns
          if onlyDataFaults o.journal then chk "C19" k (accs.length ≤ 1 && !o.outcome.isOk) else []
      | .flushFifo | .clearStepCount =>
        if ff then chk "C19" k (decide (C19 pre op accs o.outcome))
        else if onlyDataFaults o.journal then chk "C19" k (accs.length ≤ 1 && !o.outcome.isOk) else []
      | .selfTest =>
        if ff then chk "C10" k (decide (C10 pre post c.pos c.neg accs o.outcome)) else []
      | .softReset => chk "C11" k (decide (C11 shPost accs o.outcome))
      | _ => if ff then chk "C17" k (decide (C17 pre op accs o.outcome)) else []
    let inv6 : List String :=
      -- C06's invariant is an invariant of EVERY call (Thm.reach_step), not only of builders
      match op with
      | .selfTest | .softReset =>
        if onlyDataFaults o.journal && decide (Inv6 pre) then chk "C06" k (decide (Inv6 post)) else []
      | _ => []
    tr ++ coherentOk ++ specific ++ inv6
      ++ chk "reads" k (readsOk (if ff || onlyDataFaults o.journal then some shPre else none) op accs ff)
      ++ chk "accesses" k (accessesOk shPre op accs ff)
      ++ (match op with
          | .config _ | .selfTest => if ff then chk "recorded" k (decide (Recorded shPre shPost (okWrites accs))) else []
          | _ => [])
  | none, _, _, _, _ => tr ++ [s!"decode@{k}"]
  | some accs, _, _, _, _ =>
    -- quiet case (no register dumps): what needs only the case and the result
    tr ++ (match op with
      | .readFifo n =>
        if faultFree o.journal then
          match o.outcome with
          | .ok v => judgeFifo c k n v
          | .panic => [s!"C05@{k}"]
          | _ => []
        else []
      | _ => [])
      ++ chk "reads" k (readsOk none op accs (faultFree o.journal))

def judgeLine (line : String) : String :=
  match line.splitOn "\t" with
  | [cl, ol] =>
    match parseCase cl with
    | none => "bad-case"
    | some c =>
      let secs := ol.splitOn " | "
      match secs with
      | id :: first :: rest =>
        match parseObs first, rest.mapM parseObs with
        | some o0, some os =>
          let chip0 := Chip.powerOn (fun a => c.low.getD a 0#8) c.pos c.neg c.fifo c.dummy
          let o0' : Obs := { o0 with chip := o0.chip }
          let r0 := judgeCtor c o0'
          let prev0 : Obs := { o0 with chip := match o0.chip with | some x => some x | none => some chip0.regs,
                                        shadow := match o0.shadow with | some x => some x | none => some shadowDefault }
          let (_, _, fails) := (c.ops.zip os).foldl (fun (acc : Obs × Nat × List String) (p : (Op × List Nat) × Obs) =>
            let (prev, k, fs) := acc
            (p.2, k + 1, fs ++ judgeOp c k p.1.1 prev p.2)) (prev0, 1, r0)
          let extra := if os.length ≠ c.ops.length ∧ o0.outcome.isOk ∧ !(os.any (·.outcome == .panic))
                       then ["arity"] else []
          let fails := fails ++ extra
          if fails.isEmpty then s!"{id} ok" else s!"{id} " ++ " ".intercalate fails
        | _, _ => s!"{id} bad-obs"
      | _ => "bad-obs"
  | _ => "bad-line"

/-- `step` mode: the model's observation of every call when each call starts from the state the
    CRATE was observed in after the previous call (register dump, shadow dump, chip-select
    level).  A divergence in one call therefore does not propagate into the comparison of the
    following calls.  Quiet cases (no dumps) fall back to the sequential run. -/
def stepLine (line : String) : String :=
  match line.splitOn "\t" with
  | [cl, ol] =>
    match parseCase cl with
    | none => "bad-case " ++ cl
    | some c =>
      if c.quiet then runCase c
      else
        let secs := ol.splitOn " | "
        match secs with
        | id :: first :: rest =>
          match parseObs first, rest.mapM parseObs with
          | some o0, some os =>
            let chip0 := Chip.powerOn (fun a => c.low.getD a 0#8) c.pos c.neg c.fifo c.dummy
            let (j0, w0, out0) := runCtor c.dev (failsOf c.ctorFaults) chip0 c.ctor
            let firstM := fmtObs c.quiet j0 w0 out0
            let t := c.ctor.transport c.dev
            let prevs := o0 :: os
            let outs := ((c.ops.zip prevs).zip (List.range c.ops.length)).map (fun (pk : ((Op × List Nat) × Obs) × Nat) =>
              let p := pk.1
              let k := pk.2
              let prev := p.2
              match prev.chip, prev.shadow with
              | some regs, some sh =>
                let chip : Chip := { regs := poke regs (c.pokesAt k), pos := c.posAt k, neg := c.negAt k, fifo := c.fifo, csHigh := prev.csHigh,
                                     spiMode := true, dummy := c.dummy }
                let w : World := { chip := chip, shadow := sh }
                let (j, w', o) := runOp t (failsOf p.1.2) w p.1.1
                let ca := toArray w'.chip.regs
                let sa := toArray w'.shadow
                let w'' := { w' with chip := { w'.chip with regs := ofArray ca }, shadow := ofArray sa }
                fmtObs c.quiet j w'' o
              | _, _ => "nodump")
            -- only as many calls as the crate completed
            let outs := outs.take os.length
            " | ".intercalate (id :: firstM :: outs)
          | _, _ => s!"{id} bad-obs"
        | _ => "bad-obs"
  | _ => "bad-line"

def fmtAcc : Acc → String
  | .wr a v ok => s!"W{hexNat2 a}={hexByte v}{if ok then "" else "!"}"
  | .rd a n ok => s!"R{hexNat2 a}:{n}{if ok then "" else "!"}"
  | .delay ms => s!"D{ms}"
  | .lowFailed => "L!"

/-- `accs` mode: the register-level accesses of every call of an observation line -/
def accsLine (line : String) : String :=
  match line.splitOn "\t" with
  | [cl, ol] =>
    match parseCase cl with
    | none => "bad-case"
    | some c =>
      let t := c.ctor.transport c.dev
      let secs := ol.splitOn " | "
      match secs with
      | id :: rest =>
        " | ".intercalate (id :: rest.map (fun s =>
          match parseObs s with
          | none => "bad-obs"
          | some o => match decode t o.journal with
            | none => "undecodable"
            | some accs => " ".intercalate (accs.map fmtAcc)))
      | _ => "bad-obs"
  | _ => "bad-line"

end Judge
end Bma400
