/- well-formedness of the action lists planned by every API operation -/
import Bma400.Lemmas.Exec
import Bma400.Lemmas.Script
set_option linter.unusedSimpArgs false
namespace Bma400
namespace Thm
open P

theorem plan_wf (sh : Regs) (op : Op) : ActsWf (op.plan sh).acts := by
  intro act hact
  cases op with
  | config q =>
    simp only [Op.plan] at hact
    split at hact
    · simp at hact
    · rename_i ws hs
      simp only [List.mem_map] at hact
      obtain ⟨w, hw, rfl⟩ := hact
      have := cfg_lt_128 _ (script_addr_cfg q sh ws hs w hw)
      simp [W.act, ActWf]; omega
  | readFifo n =>
    simp only [Op.plan] at hact
    split at hact <;> simp at hact
    subst hact; simp [ActWf]
  | selfTest =>
    simp only [Op.plan, selfTestActs] at hact
    simp at hact
    rcases hact with h | h | h | h | h | h | h | h | h | h | h | h | h | h | h | h | h | h | h | h | h <;>
      (subst h; simp [ActWf])
  | softReset =>
    simp only [Op.plan] at hact
    simp at hact
    rcases hact with h | h <;> (subst h; simp [ActWf])
  | _ =>
    simp only [Op.plan] at hact
    simp at hact
    subst hact; simp [ActWf]

theorem ctor_wf (c : Ctor) : ActsWf c.acts := by
  intro act hact
  cases c <;> simp [Ctor.acts] at hact
  · subst hact; simp [ActWf]
  · subst hact; simp [ActWf]
  · rcases hact with h | h <;> (subst h; simp [ActWf])

end Thm
end Bma400
