/- generic lemmas about lists of register writes: device effect, values written per address,
   the C07 walk -/
import Bma400.Lemmas.Script
set_option linter.unusedSimpArgs false
namespace Bma400
namespace Thm
open P

/-! ### device effect -/

theorem applyWrites_append (c : Regs) (w1 w2 : List W) :
    applyWrites c (w1 ++ w2) = applyWrites (applyWrites c w1) w2 := by
  induction w1 generalizing c with
  | nil => rfl
  | cons w ws ih => simp [applyWrites, ih]

theorem applyWrites_wIf (c : Regs) (b : Bool) (a : Nat) (v : Byte) :
    applyWrites c (wIf b a v) = if b then c.set a v else c := by
  cases b <;> simp [wIf, applyWrites]

theorem applyWrites_dw (c sh rq : Regs) (a : Nat) (hco : c a = sh a) :
    applyWrites c (dw sh rq a) = c.set a (rq a) := by
  unfold dw
  split
  · simp [applyWrites]
  · rename_i h
    simp at h
    funext x
    simp [applyWrites, Regs.set]
    intro hx; subst hx; rw [hco, h]

/-- writing the differing registers of `as` makes the device hold the request on `as` -/
theorem applyWrites_dws (sh rq : Regs) (as : List Nat) (nd : as.Nodup) :
    ∀ (c : Regs), (∀ a ∈ as, c a = sh a) →
      ∀ x, applyWrites c (dws sh rq as) x = if x ∈ as then rq x else c x := by
  induction as with
  | nil => intro c _ x; simp [dws, applyWrites]
  | cons a as ih =>
    intro c hco x
    have e : dws sh rq (a :: as) = dw sh rq a ++ dws sh rq as := by simp [dws]
    simp at nd
    have hmem := nd.1
    rw [e, applyWrites_append, applyWrites_dw c sh rq a (hco a (by simp))]
    rw [ih nd.2 (c.set a (rq a))]
    · simp [Regs.set]
      by_cases hx : x = a
      · subst hx; simp [hmem]
      · simp [hx]
    · intro b hb
      have : b ≠ a := fun h => hmem (h ▸ hb)
      simp [Regs.set, this, hco b (by simp [hb])]

/-! ### values written per address -/

theorem valuesAt_append (w1 w2 : List W) (a : Nat) :
    valuesAt (w1 ++ w2) a = valuesAt w1 a ++ valuesAt w2 a := by
  simp [valuesAt]

theorem valuesAt_wIf (b : Bool) (a' : Nat) (v : Byte) (a : Nat) :
    valuesAt (wIf b a' v) a = if b = true ∧ a' = a then [v] else [] := by
  cases b <;> simp [wIf, valuesAt]
  split <;> simp_all

theorem valuesAt_dw (sh rq : Regs) (a' a : Nat) :
    valuesAt (dw sh rq a') a = if a' = a ∧ sh a ≠ rq a then [rq a] else [] := by
  unfold dw valuesAt
  by_cases h : sh a' = rq a'
  · simp [h]; intro h1; subst h1; simp [h]
  · simp [h]
    by_cases h1 : a' = a
    · subst h1; simp [h]
    · simp [h1]

theorem valuesAt_dws_notin (sh rq : Regs) (as : List Nat) (a : Nat) (h : a ∉ as) :
    valuesAt (dws sh rq as) a = [] := by
  induction as with
  | nil => simp [dws, valuesAt]
  | cons b bs ih =>
    have e : dws sh rq (b :: bs) = dw sh rq b ++ dws sh rq bs := by simp [dws]
    rw [e, valuesAt_append, valuesAt_dw, ih (fun hh => h (by simp [hh]))]
    have : b ≠ a := fun hh => h (by simp [hh])
    simp [this]

theorem valuesAt_dws (sh rq : Regs) (as : List Nat) (nd : as.Nodup) (a : Nat) (h : a ∈ as) :
    valuesAt (dws sh rq as) a = if sh a ≠ rq a then [rq a] else [] := by
  induction as with
  | nil => simp at h
  | cons b bs ih =>
    have e : dws sh rq (b :: bs) = dw sh rq b ++ dws sh rq bs := by simp [dws]
    rw [e, valuesAt_append, valuesAt_dw]
    simp at nd
    by_cases hb : b = a
    · subst hb
      rw [valuesAt_dws_notin sh rq bs b nd.1]
      simp
    · have : a ∈ bs := by simpa [Ne.symm hb] using h
      rw [ih nd.2 this]
      simp [hb]

/-! ### the C07 walk -/

theorem C07_append (c : Regs) (w1 w2 : List W) (h1 : C07 c w1) (h2 : C07 (applyWrites c w1) w2) :
    C07 c (w1 ++ w2) := by
  induction w1 generalizing c with
  | nil => simpa [applyWrites] using h2
  | cons w ws ih =>
    simp only [List.cons_append, C07] at h1 ⊢
    exact ⟨h1.1, ih _ h1.2 h2⟩

/-- no parameter register of any interrupt is among the three enable registers -/
theorem params_not_enable : ∀ x ∈ DS.Intr.all, ∀ a ∈ x.params, a ∉ enableRegs := by decide

/-- parameter sets of different interrupts are disjoint -/
theorem params_disjoint : ∀ x ∈ DS.Intr.all, ∀ y ∈ DS.Intr.all, ∀ a ∈ x.params, a ∈ y.params → x = y := by
  decide

theorem enabled_set_other (c : Regs) (a : Nat) (v : Byte) (x : DS.Intr) (h : a ∉ enableRegs) :
    x.enabled (c.set a v) = x.enabled c := by
  have h1 : (0x1F : Nat) ≠ a := fun e => h (by simp [enableRegs, ← e])
  have h2 : (0x20 : Nat) ≠ a := fun e => h (by simp [enableRegs, ← e])
  have h3 : (0x2F : Nat) ≠ a := fun e => h (by simp [enableRegs, ← e])
  cases x <;> simp [DS.Intr.enabled, Regs.set, h1, h2, h3]

theorem all_intr (x : DS.Intr) : x ∈ DS.Intr.all := by cases x <;> decide

/-- writes that touch no parameter register satisfy C07 in any state -/
theorem C07_noparam (c : Regs) (ws : List W)
    (h : ∀ w ∈ ws, ∀ x ∈ DS.Intr.all, w.addr ∉ x.params) : C07 c ws := by
  induction ws generalizing c with
  | nil => trivial
  | cons w ws ih =>
    refine ⟨fun x hx hp => absurd hp (h w (by simp) x hx), ih _ (fun w' hw' => h w' (by simp [hw']))⟩

/-- writes to parameter registers of one interrupt that is disabled satisfy C07 -/
theorem C07_params (X : DS.Intr) (c : Regs) (ws : List W)
    (hall : ∀ w ∈ ws, w.addr ∈ X.params) (hdis : X.enabled c = false) : C07 c ws := by
  induction ws generalizing c with
  | nil => trivial
  | cons w ws ih =>
    have hw := hall w (by simp)
    refine ⟨?_, ih _ (fun w' hw' => hall w' (by simp [hw'])) ?_⟩
    · intro x hx hp
      have := params_disjoint x hx X (all_intr X) w.addr hp hw
      subst this; exact hdis
    · rw [enabled_set_other c w.addr w.val X (params_not_enable X (all_intr X) w.addr hw)]
      exact hdis

end Thm
end Bma400
