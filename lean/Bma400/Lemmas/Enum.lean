/- finite enumeration of the API enums, so that `decide` can quantify over them -/
import Bma400.Basic
namespace Bma400

class Enum (α : Type) where
  all : List α
  complete : ∀ a : α, a ∈ all

instance instDecForallEnum {α} [Enum α] (p : α → Prop) [DecidablePred p] : Decidable (∀ a, p a) :=
  decidable_of_iff (∀ a ∈ Enum.all, p a) ⟨fun h a => h a (Enum.complete a), fun h a _ => h a⟩

instance : Enum PowerMode := ⟨[.sleep, .lowPower, .normal], by intro a; cases a <;> simp⟩
instance : Enum OSR := ⟨[.osr0, .osr1, .osr2, .osr3], by intro a; cases a <;> simp⟩
instance : Enum Filt1Bw := ⟨[.high, .low], by intro a; cases a <;> simp⟩
instance : Enum ODR := ⟨[.hz12_5, .hz25, .hz50, .hz100, .hz200, .hz400, .hz800], by intro a; cases a <;> simp⟩
instance : Enum Scale := ⟨[.r2g, .r4g, .r8g, .r16g], by intro a; cases a <;> simp⟩
instance : Enum DataSource := ⟨[.filt1, .filt2, .filt2Lp], by intro a; cases a <;> simp⟩
instance : Enum IntPins := ⟨[.none, .int1, .int2, .both], by intro a; cases a <;> simp⟩
instance : Enum PinLevel := ⟨[.activeLow, .activeHigh], by intro a; cases a <;> simp⟩
instance : Enum PinCfg := ⟨[.pushPull .activeLow, .pushPull .activeHigh, .openDrain .activeLow, .openDrain .activeHigh],
  by intro a; cases a with | pushPull l => cases l <;> simp | openDrain l => cases l <;> simp⟩
instance : Enum AutoLpTrig := ⟨[.disabled, .noReset, .gen2Reset], by intro a; cases a <;> simp⟩
instance : Enum WkupRefMode := ⟨[.manual, .oneTime, .everyTime], by intro a; cases a <;> simp⟩
instance : Enum OrientRefMode := ⟨[.manual, .filt2, .filt2Lp], by intro a; cases a <;> simp⟩
instance : Enum ObsPeriod := ⟨[.s32, .s64, .s128, .s256, .s512], by intro a; cases a <;> simp⟩
instance : Enum TapSens := ⟨[.s0, .s1, .s2, .s3, .s4, .s5, .s6, .s7], by intro a; cases a <;> simp⟩
instance : Enum Axis := ⟨[.x, .y, .z], by intro a; cases a <;> simp⟩
instance : Enum MinTapDur := ⟨[.s4, .s8, .s12, .s16], by intro a; cases a <;> simp⟩
instance : Enum DTapDur := ⟨[.s60, .s80, .s100, .s120], by intro a; cases a <;> simp⟩
instance : Enum MaxTapDur := ⟨[.s6, .s9, .s12, .s18], by intro a; cases a <;> simp⟩
instance : Enum GenRefMode := ⟨[.manual, .oneTime, .everyTimeSrc, .everyTimeLp], by intro a; cases a <;> simp⟩
instance : Enum Hyst := ⟨[.none, .h24, .h48, .h96], by intro a; cases a <;> simp⟩
instance : Enum Criterion := ⟨[.inactivity, .activity], by intro a; cases a <;> simp⟩
instance : Enum Logic := ⟨[.or, .and], by intro a; cases a <;> simp⟩
instance : Enum GenId := ⟨[.g1, .g2], by intro a; cases a <;> simp⟩
instance : Enum Bool := ⟨[false, true], by intro a; cases a <;> simp⟩

end Bma400
