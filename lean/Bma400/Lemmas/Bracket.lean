/- "temporarily disable, write the parameters, restore" - the shape shared by the gen1/gen2,
   activity-change, tap, orientation and FIFO-watermark builders -/
import Bma400.Lemmas.Writes
set_option linter.unusedSimpArgs false
namespace Bma400
namespace Thm
open P

/-- `e`: enable register, `tmp`: its temporary value, `dis`: whether the disable is sent -/
def bracket (sh : Regs) (e : Nat) (dis : Bool) (tmp : Byte) (body : List W) : List W :=
  wIf dis e tmp ++ body ++ wIf (sh e != tmp) e (sh e)

/-- clearing bits that are set gives a strict sub-value (for all bytes, structurally) -/
theorem clr_strictSub (c m : Byte) (h : has c m = true) : strictSub (clr c m) c := by
  unfold strictSub clr
  constructor
  · ext i; simp; intro h1 _; simp [h1]
  · intro he
    have : c &&& m = 0#8 := by rw [← he, BitVec.and_assoc]; simp
    unfold has at h
    simp [this] at h

theorem clr_eq_of_not_has (c m : Byte) (h : has c m = false) : clr c m = c := by
  unfold has at h; unfold clr
  simp at h
  ext i
  have := congrArg (fun b => b.getLsbD i) h
  simp at this ⊢
  intro hc; cases hm : m.getLsbD i <;> simp_all

theorem has_clr (c m : Byte) : has (clr c m) m = false := by
  unfold has clr; simp [BitVec.and_assoc]

/-- device effect of a bracket around `dws` -/
theorem bracket_effect (chip sh rq : Regs) (B : List Nat) (nd : B.Nodup) (e : Nat) (he : e ∉ B)
    (tmp : Byte) (dis : Bool)
    (hcoB : ∀ a ∈ B, chip a = sh a) (hce : chip e = sh e)
    (h0 : dis = false → tmp = sh e) (h1 : dis = true → tmp ≠ sh e) :
    ∀ x, applyWrites chip (bracket sh e dis tmp (dws sh rq B)) x = if x ∈ B then rq x else chip x := by
  intro x
  unfold bracket
  cases dis with
  | false =>
    have := h0 rfl
    subst this
    simp [wIf, applyWrites_append, applyWrites]
    exact applyWrites_dws sh rq B nd chip hcoB x
  | true =>
    have hne := h1 rfl
    have hb : (sh e != tmp) = true := by simp; exact fun h => hne h.symm
    rw [hb]
    simp only [applyWrites_append, applyWrites_wIf, if_true]
    have hco' : ∀ a ∈ B, (chip.set e tmp) a = sh a := by
      intro a ha
      have : a ≠ e := fun h => he (h ▸ ha)
      simp [Regs.set, this, hcoB a ha]
    by_cases hx : x = e
    · subst hx
      simp [Regs.set, he, hce]
    · have := applyWrites_dws sh rq B nd (chip.set e tmp) hco' x
      simp [Regs.set, hx] at this ⊢
      exact this

/-- values a bracket writes to a block register -/
theorem bracket_valuesAt_body (sh rq : Regs) (B : List Nat) (nd : B.Nodup) (e : Nat) (he : e ∉ B)
    (tmp : Byte) (dis : Bool) (a : Nat) (ha : a ∈ B) :
    valuesAt (bracket sh e dis tmp (dws sh rq B)) a = if sh a ≠ rq a then [rq a] else [] := by
  have hne : e ≠ a := fun h => he (h ▸ ha)
  unfold bracket
  rw [valuesAt_append, valuesAt_append, valuesAt_wIf, valuesAt_wIf, valuesAt_dws sh rq B nd a ha]
  simp [hne]

/-- values a bracket writes to its enable register -/
theorem bracket_valuesAt_enable (sh rq : Regs) (B : List Nat) (e : Nat) (he : e ∉ B)
    (tmp : Byte) (dis : Bool) :
    valuesAt (bracket sh e dis tmp (dws sh rq B)) e =
      (if dis = true then [tmp] else []) ++ (if (sh e != tmp) = true then [sh e] else []) := by
  unfold bracket
  rw [valuesAt_append, valuesAt_append, valuesAt_wIf, valuesAt_wIf, valuesAt_dws_notin sh rq B e he]
  simp

/-- values a bracket writes anywhere else -/
theorem bracket_valuesAt_other (sh rq : Regs) (B : List Nat) (e : Nat) (tmp : Byte) (dis : Bool)
    (a : Nat) (ha : a ∉ B) (hae : a ≠ e) :
    valuesAt (bracket sh e dis tmp (dws sh rq B)) a = [] := by
  unfold bracket
  rw [valuesAt_append, valuesAt_append, valuesAt_wIf, valuesAt_wIf, valuesAt_dws_notin sh rq B a ha]
  simp [Ne.symm hae]

/-- the enable register of a bracket is only toggled -/
theorem bracket_toggles (sh rq : Regs) (B : List Nat) (e : Nat) (he : e ∉ B) (tmp : Byte) (dis : Bool)
    (h0 : dis = false → tmp = sh e) (h1 : dis = true → strictSub tmp (sh e)) :
    toggles (sh e) (valuesAt (bracket sh e dis tmp (dws sh rq B)) e) := by
  rw [bracket_valuesAt_enable sh rq B e he]
  cases dis with
  | false => left; simp [h0 rfl]
  | true =>
    right
    have hs := h1 rfl
    have : (sh e != tmp) = true := by simp; exact fun h => hs.2 h.symm
    simp [this]
    exact hs

/-- C07 for a bracket whose body only writes parameters of interrupt X, when the temporary
    value has X disabled (or X was not enabled to begin with) -/
theorem bracket_C07 (X : DS.Intr) (chip sh rq : Regs) (B : List Nat) (e : Nat) (hee : e ∈ enableRegs)
    (tmp : Byte) (dis : Bool) (hB : ∀ a ∈ B, a ∈ X.params)
    (h0 : dis = false → X.enabled chip = false) (h1 : dis = true → X.enabled (chip.set e tmp) = false) :
    C07 chip (bracket sh e dis tmp (dws sh rq B)) := by
  unfold bracket
  have hne : ∀ (v : Byte) (b : Bool), ∀ w ∈ wIf b e v, ∀ x ∈ DS.Intr.all, w.addr ∉ x.params := by
    intro v b w hw x hx hp
    rw [(mem_wIf hw).2] at hp
    exact params_not_enable x hx e hp hee
  apply C07_append
  · apply C07_append
    · exact C07_noparam _ _ (hne tmp dis)
    · rw [applyWrites_wIf]
      apply C07_params X
      · intro w hw; exact hB _ (mem_dws hw).1
      · cases dis with
        | false => simpa using h0 rfl
        | true => simpa using h1 rfl
  · exact C07_noparam _ _ (hne (sh e) _)

end Thm
end Bma400
