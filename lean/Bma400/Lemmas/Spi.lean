/- what a complete SPI chip-select window does to the simulated chip: the byte-level SPI
   front end (Chip.clock) decodes the driver's framing into exactly the register access
   the datasheet describes -/
import Bma400.Lemmas.Exec
set_option linter.unusedSimpArgs false
namespace Bma400
namespace Thm
open P

/-- the part of the chip the device logic can observe through register accesses -/
def Chip.Same (c d : Chip) : Prop := c.regs = d.regs ∧ c.pos = d.pos ∧ c.neg = d.neg ∧ c.fifo = d.fifo

theorem Chip.Same.refl (c : Chip) : Chip.Same c c := ⟨rfl, rfl, rfl, rfl⟩

theorem Chip.Same.trans {a b c : Chip} (h1 : Chip.Same a b) (h2 : Chip.Same b c) : Chip.Same a c :=
  ⟨h1.1.trans h2.1, h1.2.1.trans h2.2.1, h1.2.2.1.trans h2.2.2.1, h1.2.2.2.trans h2.2.2.2⟩

theorem Chip.Same.symm {a b : Chip} (h : Chip.Same a b) : Chip.Same b a :=
  ⟨h.1.symm, h.2.1.symm, h.2.2.1.symm, h.2.2.2.symm⟩

theorem write_same (c d : Chip) (h : Chip.Same c d) (a : Nat) (v : Byte) : Chip.Same (c.write a v) (d.write a v) := by
  obtain ⟨h1, h2, h3, h4⟩ := h
  unfold Chip.write
  split
  · split
    · exact ⟨by simp [h1], h2, h3, h4⟩
    · exact ⟨h1, h2, h3, h4⟩
  · split
    · exact ⟨h1, h2, h3, h4⟩
    · exact ⟨by simp [h1], h2, h3, h4⟩

theorem dataAt_same (c d : Chip) (h : Chip.Same c d) (a : Nat) : c.dataAt a = d.dataAt a := by
  obtain ⟨h1, h2, h3, _⟩ := h
  unfold Chip.dataAt; rw [h1, h2, h3]

theorem burst_same (c d : Chip) (h : Chip.Same c d) (a n : Nat) : c.burst a n = d.burst a n := by
  unfold Chip.burst
  split
  · rw [h.2.2.2]
  · congr 1; funext i; exact dataAt_same c d h _

theorem low7w : ∀ a, a < 128 → (BitVec.ofNat 8 a &&& 0x7F#8).toNat = a := by decide +kernel
theorem bit7w : ∀ a, a < 128 → ((BitVec.ofNat 8 a &&& 0x80#8) != 0#8) = false := by decide +kernel
theorem bit7r : ∀ a, a < 128 → (((BitVec.ofNat 8 a ||| 0x80#8) &&& 0x80#8) != 0#8) = true := by decide +kernel

/-- a complete write window: the register write of the datasheet, chip-select back high -/
theorem spi_write_window (c : Chip) (a : Nat) (v : Byte) (hcs : c.csHigh = true) (ha : a < 128) :
    Chip.Same (((c.raw .csLow).1.raw (.spiWrite [BitVec.ofNat 8 a, v])).1.raw .csHigh).1 (c.write a v) ∧
    (((c.raw .csLow).1.raw (.spiWrite [BitVec.ofNat 8 a, v])).1.raw .csHigh).1.csHigh = true ∧
    (((c.raw .csLow).1.raw (.spiWrite [BitVec.ofNat 8 a, v])).1.raw .csHigh).1.spiMode = true ∧
    (((c.raw .csLow).1.raw (.spiWrite [BitVec.ofNat 8 a, v])).1.raw .csHigh).1.dummy = c.dummy := by
  simp only [Chip.raw, hcs, if_true, Chip.clockAll, Chip.clock, Bool.false_eq_true, if_false,
    bit7w a ha, low7w a ha, show (1 : Nat) % 2 = 1 from rfl, show ((1 : Nat) = 0) = False by simp]
  refine ⟨?_, by simp, by simp, ?_⟩
  · unfold Chip.write Chip.Same
    split
    · split <;> simp
    · split <;> simp
  · unfold Chip.write
    split
    · split <;> rfl
    · split <;> rfl

/-- `f k, f (k+1), …` (n values) -/
def outsFrom (f : Nat → Byte) : Nat → Nat → List Byte
  | _, 0 => []
  | k, n + 1 => f k :: outsFrom f (k + 1) n

theorem outsFrom_eq (f : Nat → Byte) (n : Nat) : ∀ k, outsFrom f k n = (List.range n).map (fun i => f (k + i)) := by
  induction n with
  | zero => intro k; rfl
  | succ n ih =>
    intro k
    simp only [outsFrom, List.range_succ_eq_map, List.map_cons, List.map_map, ih (k + 1)]
    congr 1
    apply List.map_congr_left
    intro i _
    simp only [Function.comp]
    congr 1; omega

/-- the byte a chip in read mode shifts out at data position j -/
def readOut (c : Chip) (j : Nat) : Byte :=
  if (c.winFirst &&& 0x7F#8).toNat = 0x14 then c.fifo.getD j 0#8
  else c.dataAt ((c.winFirst &&& 0x7F#8).toNat + j)

/-- clocking out n bytes in read mode from window position k+2 -/
theorem clockAll_read (n : Nat) : ∀ (c : Chip) (k : Nat), c.csHigh = false → c.winLen = k + 2 →
    ((c.winFirst &&& 0x80#8) != 0#8) = true → c.spiMode = true →
    (c.clockAll (List.replicate n 0#8)).2 = outsFrom (readOut c) k n ∧
    Chip.Same (c.clockAll (List.replicate n 0#8)).1 c ∧
    (c.clockAll (List.replicate n 0#8)).1.csHigh = false ∧
    (c.clockAll (List.replicate n 0#8)).1.spiMode = true ∧
    (c.clockAll (List.replicate n 0#8)).1.dummy = c.dummy := by
  induction n with
  | zero => intro c k hcs _ _ hsm; simp [Chip.clockAll, Chip.Same.refl, outsFrom, hcs, hsm]
  | succ n ih =>
    intro c k hcs hw hf hsm
    simp only [List.replicate_succ, Chip.clockAll, outsFrom]
    have hne : c.winLen ≠ 0 := by omega
    have hne1 : c.winLen ≠ 1 := by omega
    have hstep : c.clock 0#8 = ({ c with winLen := c.winLen + 1, winLast := 0#8 }, readOut c k) := by
      unfold Chip.clock readOut
      simp only [hcs, Bool.false_eq_true, if_false, hne, hf, if_true, hne1, hsm, Bool.not_true]
      have : c.winLen - 2 = k := by omega
      rw [this]
    rw [hstep]
    have := ih { c with winLen := c.winLen + 1, winLast := 0#8 } (k + 1) hcs (by simp; omega) hf hsm
    obtain ⟨h1, h2, h3, h4, h5⟩ := this
    have hro : readOut { c with winLen := c.winLen + 1, winLast := 0#8 } = readOut c := by
      funext j; unfold readOut Chip.dataAt; rfl
    refine ⟨?_, ?_, h3, h4, h5⟩
    · simp only [h1, hro]
    · exact h2.trans ⟨rfl, rfl, rfl, rfl⟩

/-- a complete read window: the burst of the datasheet, chip unchanged, chip-select high -/
theorem spi_read_window (c : Chip) (a n : Nat) (hcs : c.csHigh = true) (hsm : c.spiMode = true) (ha : a < 128) :
    ((((c.raw .csLow).1.raw (.spiTransfer [BitVec.ofNat 8 a ||| 0x80#8, 0#8])).1.raw
        (.spiTransfer (List.replicate n 0#8)))).2 = c.burst a n ∧
    Chip.Same (((((c.raw .csLow).1.raw (.spiTransfer [BitVec.ofNat 8 a ||| 0x80#8, 0#8])).1.raw
        (.spiTransfer (List.replicate n 0#8)))).1.raw .csHigh).1 c ∧
    (((((c.raw .csLow).1.raw (.spiTransfer [BitVec.ofNat 8 a ||| 0x80#8, 0#8])).1.raw
        (.spiTransfer (List.replicate n 0#8)))).1.raw .csHigh).1.csHigh = true ∧
    (((((c.raw .csLow).1.raw (.spiTransfer [BitVec.ofNat 8 a ||| 0x80#8, 0#8])).1.raw
        (.spiTransfer (List.replicate n 0#8)))).1.raw .csHigh).1.spiMode = true ∧
    (((((c.raw .csLow).1.raw (.spiTransfer [BitVec.ofNat 8 a ||| 0x80#8, 0#8])).1.raw
        (.spiTransfer (List.replicate n 0#8)))).1.raw .csHigh).1.dummy = c.dummy := by
  simp only [Chip.raw, hcs, if_true]
  -- the two header bytes
  have hc1 : ({ c with csHigh := false, winLen := 0 } : Chip).clockAll [BitVec.ofNat 8 a ||| 0x80#8, 0#8] =
      ({ c with csHigh := false, winLen := 2, winFirst := BitVec.ofNat 8 a ||| 0x80#8, winLast := 0#8 }, [0#8, 0#8]) := by
    simp [Chip.clockAll, Chip.clock, bit7r a ha]
  rw [hc1]
  have := clockAll_read n { c with csHigh := false, winLen := 2, winFirst := BitVec.ofNat 8 a ||| 0x80#8, winLast := 0#8 } 0
    rfl rfl (bit7r a ha) hsm
  obtain ⟨h1, h2, h3, h4, h5⟩ := this
  refine ⟨?_, ?_, by simp, by simp, ?_⟩
  · rw [h1, outsFrom_eq]
    simp only [readOut, low7 a ha, Nat.zero_add]
    unfold Chip.burst
    split
    · rfl
    · congr 1
  · exact ⟨h2.1, h2.2.1, h2.2.2.1, h2.2.2.2⟩
  · simpa using h5

end Thm
end Bma400
