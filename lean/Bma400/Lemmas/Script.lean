/- helper lemmas about the builders' write scripts (Builders.lean) -/
import Bma400.Props
set_option linter.unusedSimpArgs false
namespace Bma400
namespace Thm
open P

theorem mem_dw {sh rq : Regs} {a : Nat} {w : W} (h : w ∈ dw sh rq a) :
    w.addr = a ∧ w.val = rq a ∧ sh a ≠ rq a := by
  unfold dw at h
  split at h
  · simp at h; subst h; simp_all
  · simp at h

theorem mem_dws {sh rq : Regs} {as : List Nat} {w : W} (h : w ∈ dws sh rq as) :
    w.addr ∈ as ∧ w.val = rq w.addr ∧ sh w.addr ≠ rq w.addr := by
  unfold dws at h
  rw [List.mem_flatMap] at h
  obtain ⟨a, ha, hw⟩ := h
  obtain ⟨h1, h2, h3⟩ := mem_dw hw
  subst h1
  exact ⟨ha, h2, h3⟩

theorem mem_wIf {c : Bool} {a : Nat} {v : Byte} {w : W} (h : w ∈ wIf c a v) :
    c = true ∧ w = ⟨a, v⟩ := by
  unfold wIf at h
  split at h
  · simp at h; exact ⟨by assumption, h⟩
  · simp at h

theorem genBlock_g1 : genBlock .g1 = [0x3F, 0x40, 0x41, 0x42, 0x43, 0x44, 0x45, 0x46, 0x47, 0x48, 0x49] := by decide
theorem genBlock_g2 : genBlock .g2 = [0x4A, 0x4B, 0x4C, 0x4D, 0x4E, 0x4F, 0x50, 0x51, 0x52, 0x53, 0x54] := by decide

/-- every write of a builder goes to its own block or to one of the three enable registers -/
theorem script_addrs (q : Request) (sh : Regs) (ws : List W) (h : q.script sh = .ok ws) :
    ∀ w ∈ ws, w.addr ∈ q.block ∨ w.addr ∈ enableRegs := by
  intro w hw
  cases q with
  | acc l =>
    simp only [Request.script, accScript] at h
    split at h; · cases h
    split at h; · cases h
    cases h
    exact Or.inl (mem_dws hw).1
  | int l =>
    simp only [Request.script, intScript] at h
    split at h; · cases h
    split at h; · cases h
    split at h; · cases h
    split at h; · cases h
    cases h
    exact Or.inl (mem_dws hw).1
  | pin l =>
    simp only [Request.script, pinScript] at h
    cases h
    simp only [List.mem_append] at hw
    rcases hw with ((((((hw | hw) | hw) | hw) | hw) | hw) | hw)
    · right; rw [(mem_wIf hw).2]; simp [enableRegs]
    · right; rw [(mem_wIf hw).2]; simp [enableRegs]
    · right; rw [(mem_wIf hw).2]; simp [enableRegs]
    · exact Or.inl (mem_dws hw).1
    · right; rw [(mem_wIf hw).2]; simp [enableRegs]
    · right; rw [(mem_wIf hw).2]; simp [enableRegs]
    · right; rw [(mem_wIf hw).2]; simp [enableRegs]
  | fifo l =>
    simp only [Request.script, fifoScript] at h
    cases h
    simp only [List.mem_append] at hw
    rcases hw with (((((hw | hw) | hw) | hw) | hw) | hw)
    · left; rw [(mem_dw hw).1]; simp [Request.block]
    · right; rw [(mem_wIf hw).2]; simp [enableRegs]
    · left; rw [(mem_dw hw).1]; simp [Request.block]
    · left; rw [(mem_dw hw).1]; simp [Request.block]
    · right; rw [(mem_wIf hw).2]; simp [enableRegs]
    · left; rw [(mem_dw hw).1]; simp [Request.block]
  | alp l =>
    simp only [Request.script, alpScript] at h
    cases h
    exact Or.inl (mem_dws hw).1
  | awk l =>
    simp only [Request.script, awkScript] at h
    cases h
    exact Or.inl (mem_dws hw).1
  | wkup l =>
    simp only [Request.script, wkupScript] at h
    cases h
    simp only [List.mem_append] at hw
    rcases hw with ((hw | hw) | hw)
    · left; rw [(mem_wIf hw).2]; simp [Request.block]
    · left
      have := (mem_dws hw).1
      simp [Request.block] at this ⊢
      omega
    · left; rw [(mem_wIf hw).2]; simp [Request.block]
  | ori l =>
    simp only [Request.script, oriScript] at h
    cases h
    simp only [List.mem_append] at hw
    rcases hw with ((hw | hw) | hw)
    · right; rw [(mem_wIf hw).2]; simp [enableRegs]
    · exact Or.inl (mem_dws hw).1
    · right; rw [(mem_wIf hw).2]; simp [enableRegs]
  | gen g l =>
    simp only [Request.script, genScript] at h
    split at h
    · cases h; simp at hw
    split at h; · cases h
    cases h
    simp only [List.mem_append] at hw
    rcases hw with ((hw | hw) | hw)
    · right; rw [(mem_wIf hw).2]; simp [enableRegs]
    · left
      have := (mem_dws hw).1
      cases g
      · rw [genBlock_g1] at this; exact this
      · rw [genBlock_g2] at this; exact this
    · right; rw [(mem_wIf hw).2]; simp [enableRegs]
  | act l =>
    simp only [Request.script, actScript] at h
    split at h
    · cases h; simp at hw
    split at h; · cases h
    cases h
    simp only [List.mem_append] at hw
    rcases hw with ((hw | hw) | hw)
    · right; rw [(mem_wIf hw).2]; simp [enableRegs]
    · exact Or.inl (mem_dws hw).1
    · right; rw [(mem_wIf hw).2]; simp [enableRegs]
  | tap l =>
    simp only [Request.script, tapScript] at h
    cases h
    simp only [List.mem_append] at hw
    rcases hw with ((hw | hw) | hw)
    · right; rw [(mem_wIf hw).2]; simp [enableRegs]
    · exact Or.inl (mem_dws hw).1
    · right; rw [(mem_wIf hw).2]; simp [enableRegs]

/-- all blocks and enable registers are configuration registers -/
theorem block_sub_cfg (q : Request) : ∀ a ∈ q.block, a ∈ DS.cfgAddrs := by
  cases q with
  | gen g l => cases g <;> simp only [Request.block] <;> decide
  | _ => simp only [Request.block] <;> decide

theorem enable_sub_cfg : ∀ a ∈ enableRegs, a ∈ DS.cfgAddrs := by decide

theorem cfg_lt_128 : ∀ a ∈ DS.cfgAddrs, 0x19 ≤ a ∧ a < 0x7C := by decide

theorem script_addr_cfg (q : Request) (sh : Regs) (ws : List W) (h : q.script sh = .ok ws) :
    ∀ w ∈ ws, w.addr ∈ DS.cfgAddrs := by
  intro w hw
  rcases script_addrs q sh ws h w hw with h1 | h1
  · exact block_sub_cfg q _ h1
  · exact enable_sub_cfg _ h1

end Thm
end Bma400
