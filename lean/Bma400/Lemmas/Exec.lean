/- helper definitions and lemmas about the bus interpreter (Driver.lean) -/
import Bma400.Props
set_option linter.unusedSimpArgs false
namespace Bma400
namespace Thm
open P

/-- the register access an executed action shows on the bus -/
def Act.acc : Act → Acc
  | .wr a v _ => .wr a v true
  | .rd a n => .rd a n true
  | .delay ms => .delay ms

/-- register addresses fit the 7-bit address space of the chip -/
def ActWf : Act → Prop
  | .wr a _ _ => a < 128
  | .rd a _ => a < 128
  | .delay _ => True

def ActsWf (acts : List Act) : Prop := ∀ act ∈ acts, ActWf act

def noFaults : Nat → Bool := fun _ => false
@[simp] theorem noFaults_apply (i : Nat) : noFaults i = false := rfl

theorem toNat_ofNat_lt (a : Nat) (h : a < 128) : (BitVec.ofNat 8 a).toNat = a := by
  simp [BitVec.toNat_ofNat]; omega

theorem bit7_clear : ∀ a, a < 128 → (BitVec.ofNat 8 a &&& 0x80#8) = 0#8 := by decide +kernel
theorem bit7_set : ∀ a, a < 128 → ((BitVec.ofNat 8 a ||| 0x80#8) &&& 0x80#8) ≠ 0#8 := by decide +kernel
theorem low7 : ∀ a, a < 128 → ((BitVec.ofNat 8 a ||| 0x80#8) &&& 0x7F#8).toNat = a := by decide +kernel

theorem ActsWf_cons {a : Act} {l : List Act} (h : ActsWf (a :: l)) : ActWf a ∧ ActsWf l :=
  ⟨h a (by simp), fun b hb => h b (by simp [hb])⟩

/-! ### closed forms of one register access over SPI, for an arbitrary fault schedule -/

/-- chip after an acknowledged-or-not raw operation -/
def chipIf (ok : Bool) (c : Chip) (r : Raw) : Chip := if ok then (c.raw r).1 else c

theorem writeRegister_spi (fails : Nat → Bool) (w : World) (a : Nat) (v : Byte) :
    writeRegister .spi fails w a v =
      if fails w.idx then ([⟨.csLow, false⟩], { w with idx := w.idx + 1 }, some (.pin w.idx))
      else
        let ok1 := !fails (w.idx + 1)
        let ok2 := !fails (w.idx + 2)
        let c0 := (w.chip.raw .csLow).1
        let c1 := chipIf ok1 c0 (.spiWrite [BitVec.ofNat 8 a, v])
        let c2 := chipIf ok2 c1 .csHigh
        ([⟨.csLow, true⟩, ⟨.spiWrite [BitVec.ofNat 8 a, v], ok1⟩, ⟨.csHigh, ok2⟩],
         { chip := c2, shadow := w.shadow, idx := w.idx + 3 },
         if !ok1 then some (.io (w.idx + 1)) else if !ok2 then some (.pin (w.idx + 2)) else none) := by
  unfold writeRegister World.raw chipIf
  cases h0 : fails w.idx <;> cases h1 : fails (w.idx + 1) <;> cases h2 : fails (w.idx + 2) <;>
    simp [h0, h1, h2, show w.idx + 1 + 1 = w.idx + 2 from rfl]

theorem readRegister_spi (fails : Nat → Bool) (w : World) (a n : Nat) :
    readRegister .spi fails w a n =
      if fails w.idx then ([⟨.csLow, false⟩], { w with idx := w.idx + 1 }, .error (.pin w.idx))
      else
        let c0 := (w.chip.raw .csLow).1
        let t1 : Raw := .spiTransfer [BitVec.ofNat 8 a ||| 0x80#8, 0#8]
        let t2 : Raw := .spiTransfer (List.replicate n 0#8)
        if fails (w.idx + 1) then
          let ok2 := !fails (w.idx + 2)
          ([⟨.csLow, true⟩, ⟨t1, false⟩, ⟨.csHigh, ok2⟩],
           { chip := chipIf ok2 c0 .csHigh, shadow := w.shadow, idx := w.idx + 3 }, .error (.io (w.idx + 1)))
        else
          let c1 := (c0.raw t1).1
          let ok2 := !fails (w.idx + 2)
          let ok3 := !fails (w.idx + 3)
          let c2 := chipIf ok2 c1 t2
          let c3 := chipIf ok3 c2 .csHigh
          ([⟨.csLow, true⟩, ⟨t1, true⟩, ⟨t2, ok2⟩, ⟨.csHigh, ok3⟩],
           { chip := c3, shadow := w.shadow, idx := w.idx + 4 },
           if !ok2 then .error (.io (w.idx + 2)) else if !ok3 then .error (.pin (w.idx + 3))
           else .ok (c1.raw t2).2) := by
  unfold readRegister World.raw chipIf
  cases h0 : fails w.idx <;> cases h1 : fails (w.idx + 1) <;> cases h2 : fails (w.idx + 2) <;>
    cases h3 : fails (w.idx + 3) <;>
    simp [h0, h1, h2, h3, show w.idx + 1 + 1 = w.idx + 2 from rfl, show w.idx + 1 + 1 + 1 = w.idx + 3 from rfl,
      show w.idx + 2 + 1 = w.idx + 3 from rfl]

theorem writeRegister_i2c (dev : Nat) (fails : Nat → Bool) (w : World) (a : Nat) (v : Byte) :
    writeRegister (.i2c dev) fails w a v =
      let ok := !fails w.idx
      ([⟨.i2cWrite dev [BitVec.ofNat 8 a, v], ok⟩],
       { chip := chipIf ok w.chip (.i2cWrite dev [BitVec.ofNat 8 a, v]), shadow := w.shadow, idx := w.idx + 1 },
       if ok then none else some (.io w.idx)) := by
  unfold writeRegister World.raw chipIf
  cases h0 : fails w.idx <;> simp [h0]

theorem readRegister_i2c (dev : Nat) (fails : Nat → Bool) (w : World) (a n : Nat) :
    readRegister (.i2c dev) fails w a n =
      let ok := !fails w.idx
      ([⟨.i2cWriteRead dev [BitVec.ofNat 8 a] n, ok⟩],
       { chip := chipIf ok w.chip (.i2cWriteRead dev [BitVec.ofNat 8 a] n), shadow := w.shadow, idx := w.idx + 1 },
       if ok then .ok (w.chip.raw (.i2cWriteRead dev [BitVec.ofNat 8 a] n)).2 else .error (.io w.idx)) := by
  unfold readRegister World.raw chipIf
  cases h0 : fails w.idx <;> simp [h0]

end Thm
end Bma400
