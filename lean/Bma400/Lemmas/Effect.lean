/- device effect of every builder's write script from a coherent state -/
import Bma400.Lemmas.Bracket
set_option linter.unusedSimpArgs false
namespace Bma400
namespace Thm
open P R

theorem chg_false {sh rq : Regs} {as : List Nat} (h : chg sh rq as = false) : ∀ a ∈ as, sh a = rq a := by
  intro a ha
  unfold chg at h
  rw [List.any_eq_false] at h
  have := h a ha
  simpa using this

theorem chg_true {sh rq : Regs} {as : List Nat} (h : chg sh rq as = true) : ∃ a ∈ as, sh a ≠ rq a := by
  unfold chg at h
  rw [List.any_eq_true] at h
  obtain ⟨a, ha, h⟩ := h
  exact ⟨a, ha, by simpa using h⟩

theorem bne_comm' (a b : Byte) : (a != b) = (b != a) := by
  cases h : (a != b) <;> cases h2 : (b != a) <;> simp_all

theorem tap_mask : ∀ c : Byte, clr (clr c ic1_STAP) ic1_DTAP = clr c 0x0C#8 ∧
    (has c ic1_STAP || has c ic1_DTAP) = has c 0x0C#8 := by decide +kernel

theorem wk_mask : ∀ c : Byte, clr (clr (clr c wk0_X) wk0_Y) wk0_Z = clr c 0xE0#8 ∧ wk0_AXES = 0xE0#8 := by
  decide +kernel

theorem sub_refl : ∀ c : Byte, c &&& ~~~c = 0#8 := by decide +kernel
theorem xor_self_sub : ∀ c : Byte, (c ^^^ c) &&& ~~~c = 0#8 := by decide +kernel

theorem clr_sub (t c m : Byte) (h : t &&& ~~~c = 0#8) : clr t m &&& ~~~c = 0#8 := by
  unfold clr
  rw [show (t &&& ~~~m) &&& ~~~c = (t &&& ~~~c) &&& ~~~m by
    rw [BitVec.and_assoc, BitVec.and_comm (~~~m), ← BitVec.and_assoc], h]
  simp

theorem sub_cases (c t : Byte) (h : t &&& ~~~c = 0#8) : t = c ∨ strictSub t c := by
  by_cases e : t = c
  · exact Or.inl e
  · exact Or.inr ⟨h, e⟩

theorem foldl_clrIf_sub (c : Byte) (l : List (Bool × Byte)) :
    ∀ t : Byte, t &&& ~~~c = 0#8 → l.foldl clrIf t &&& ~~~c = 0#8 := by
  induction l with
  | nil => intro t h; simpa using h
  | cons p ps ih =>
    intro t h
    simp only [List.foldl_cons]
    apply ih
    unfold clrIf
    split
    · exact clr_sub _ _ _ h
    · exact h

/-- the pin-mapping builder's temporaries are sub-values of the originals -/
theorem pinTmp0_sub (sh rq : Regs) : pinTmp0 sh rq &&& ~~~(sh 0x1F) = 0#8 := by
  unfold pinTmp0
  simp only
  split
  · exact xor_self_sub _
  · exact foldl_clrIf_sub _ _ _ (sub_refl _)

theorem pinTmp1_sub (sh rq : Regs) : pinTmp1 sh rq &&& ~~~(sh 0x20) = 0#8 := by
  unfold pinTmp1
  simp only
  split
  · exact xor_self_sub _
  · exact foldl_clrIf_sub _ _ _ (sub_refl _)

theorem pinTmpW_sub (sh rq : Regs) : pinTmpW sh rq &&& ~~~(sh 0x2F) = 0#8 := by
  unfold pinTmpW clrIf
  simp only
  split
  · exact sub_refl _
  · split
    · exact clr_sub _ _ _ (sub_refl _)
    · exact sub_refl _

/-! ### normal forms of the builder scripts -/

theorem dw2 (sh rq : Regs) (a b : Nat) : dw sh rq a ++ dw sh rq b = dws sh rq [a, b] := by simp [dws]

theorem genScript_ok (g : GenId) (sh rq : Regs) (ws : List W) (h : genScript g sh rq = .ok ws) :
    (chg sh rq (genBlock g) = false ∧ ws = []) ∨
    (chg sh rq (genBlock g) = true ∧
      ws = bracket sh 0x1F (has (sh 0x1F) g.enMask)
            (if has (sh 0x1F) g.enMask then clr (sh 0x1F) g.enMask else sh 0x1F) (dws sh rq (genBlock g))) := by
  unfold genScript at h
  cases hc : chg sh rq (genBlock g) with
  | false => simp [hc] at h; left; exact ⟨rfl, h⟩
  | true =>
    simp only [hc] at h
    right; refine ⟨rfl, ?_⟩
    simp only [Bool.not_true, Bool.false_eq_true, if_false] at h
    split at h
    · cases h
    · cases h
      unfold bracket
      rw [bne_comm']

theorem actScript_ok (sh rq : Regs) (ws : List W) (h : actScript sh rq = .ok ws) :
    (chg sh rq [0x55, 0x56] = false ∧ ws = []) ∨
    (chg sh rq [0x55, 0x56] = true ∧
      ws = bracket sh 0x20 (has (sh 0x20) ic1_ACTCH)
            (if has (sh 0x20) ic1_ACTCH then clr (sh 0x20) ic1_ACTCH else sh 0x20) (dws sh rq [0x55, 0x56])) := by
  unfold actScript at h
  cases hc : chg sh rq [0x55, 0x56] with
  | false => simp [hc] at h; left; exact ⟨rfl, h⟩
  | true =>
    simp only [hc] at h
    right; refine ⟨rfl, ?_⟩
    simp only [Bool.not_true, Bool.false_eq_true, if_false] at h
    split at h
    · cases h
    · cases h; rfl

theorem tapScript_ok (sh rq : Regs) (ws : List W) (h : tapScript sh rq = .ok ws) :
    ws = bracket sh 0x20 ((has (sh 0x20) ic1_STAP || has (sh 0x20) ic1_DTAP) && chg sh rq [0x57, 0x58])
          (if ((has (sh 0x20) ic1_STAP || has (sh 0x20) ic1_DTAP) && chg sh rq [0x57, 0x58]) = true
            then clr (clr (sh 0x20) ic1_STAP) ic1_DTAP else sh 0x20) (dws sh rq [0x57, 0x58]) := by
  unfold tapScript at h
  cases h; rfl

theorem oriScript_ok (sh rq : Regs) (ws : List W) (h : oriScript sh rq = .ok ws) :
    ws = bracket sh 0x1F (has (sh 0x1F) ic0_ORIENTCH && chg sh rq oriBlock)
          (if (has (sh 0x1F) ic0_ORIENTCH && chg sh rq oriBlock) = true
            then clr (sh 0x1F) ic0_ORIENTCH else sh 0x1F) (dws sh rq oriBlock) := by
  unfold oriScript at h
  cases h; rfl

theorem fifoScript_ok (sh rq : Regs) (ws : List W) (h : fifoScript sh rq = .ok ws) :
    ws = dws sh rq [0x26] ++
         bracket sh 0x1F (has (sh 0x1F) ic0_FWM && chg sh rq [0x27, 0x28])
          (if (has (sh 0x1F) ic0_FWM && chg sh rq [0x27, 0x28]) = true
            then clr (sh 0x1F) ic0_FWM else sh 0x1F) (dws sh rq [0x27, 0x28]) ++
         dws sh rq [0x29] := by
  unfold fifoScript at h
  cases h
  simp [bracket, dws, List.append_assoc]

end Thm
end Bma400
