import Bma400.Basic
import Bma400.Datasheet
import Bma400.Regs
import Bma400.Builders
import Bma400.Types
import Bma400.Driver
import Bma400.Proto
