/-
  bma400bld - sampled equivalence of the TRANSLATED builders (GeneratedBld.lean) and the model's
  scripts (Builders.lean).  Used only when the proof of their equality (Thm/Builders.lean) does not
  check for the current source: a difference found here is a concrete (recorded configuration,
  request) on which the crate's write() - as translated - is not the model's script; no difference
  on any sample means the rewrite is, as far as this search can tell, behaviour preserving and the
  model stays tied to the code by the differential check alone.  This is a search, not a proof.

    bma400bld <samples per builder> <seed>
-/
import Bma400.Builders
import Bma400.Driver
import Bma400.GeneratedBld
import Bma400.GeneratedApi
open Bma400 Bma400.Generated

def cfgAddrs : List Nat :=
  [0x19, 0x1A, 0x1B, 0x1F, 0x20, 0x21, 0x22, 0x23, 0x24, 0x26, 0x27, 0x28, 0x29, 0x2A, 0x2B, 0x2C, 0x2D,
   0x2F, 0x30, 0x31, 0x32, 0x33, 0x35, 0x36, 0x38, 0x39, 0x3A, 0x3B, 0x3C, 0x3D, 0x3E] ++ (List.range 26).map (0x3F + ·)

def xorshift (s : UInt64) : UInt64 :=
  let s := s ^^^ (s <<< 13)
  let s := s ^^^ (s >>> 7)
  s ^^^ (s <<< 17)

def regsOf (a : Array UInt8) : Regs := fun x => if h : x < a.size then BitVec.ofNat 8 (a[x]).toNat else 0#8

def resEq : Except CfgErr (List W) → Except CfgErr (List W) → Bool
  | .ok a, .ok b => a == b
  | .error a, .error b => a == b
  | _, _ => false

def showRes : Except CfgErr (List W) → String
  | .ok ws => "ok[" ++ " ".intercalate (ws.map fun w => s!"{w.addr}:{w.val.toNat}") ++ "]"
  | .error .filt1Odr => "err:filt1Odr"
  | .error .tapOdr => "err:tapOdr"
  | .error .fifoPwr => "err:fifoPwr"

def hex2 (n : Nat) : String :=
  let d := "0123456789abcdef".toList
  String.ofList [d.getD (n / 16) '0', d.getD (n % 16) '0']

def dump (a : Array UInt8) (as : List Nat) : String :=
  " ".intercalate (as.map fun x => s!"{hex2 x}={hex2 (a.getD x 0).toNat}")

structure B where
  name : String
  block : List Nat
  gen : Regs → Regs → Except CfgErr (List W)
  model : Regs → Regs → Except CfgErr (List W)

def builders : List B :=
  [ ⟨"acc", [0x19, 0x1A, 0x1B], Bld.acc, accScript⟩,
    ⟨"int", [0x1F, 0x20], Bld.int, intScript⟩,
    ⟨"pin", [0x21, 0x22, 0x23, 0x24], Bld.pin, pinScript⟩,
    ⟨"fifo", [0x26, 0x27, 0x28, 0x29], Bld.fifo, fifoScript⟩,
    ⟨"alp", [0x2A, 0x2B], Bld.alp, alpScript⟩,
    ⟨"awk", [0x2C, 0x2D], Bld.awk, awkScript⟩,
    ⟨"wkup", [0x2F, 0x30, 0x31, 0x32, 0x33], Bld.wkup, wkupScript⟩,
    ⟨"ori", oriBlock, Bld.ori, oriScript⟩,
    ⟨"gen1", genBlock .g1, Bld.gen1, genScript .g1⟩,
    ⟨"gen2", genBlock .g2, Bld.gen2, genScript .g2⟩,
    ⟨"act", [0x55, 0x56], Bld.act, actScript⟩,
    ⟨"tap", [0x57, 0x58], Bld.tap, tapScript⟩ ]

/-- one byte: uniformly random, or one of a few structured patterns -/
def pickByte (r : UInt64) (dflt : UInt8) : UInt8 :=
  match (r >>> 8).toNat % 6 with
  | 0 => 0
  | 1 => 0xFF
  | 2 => dflt
  | 3 => (1 : UInt8) <<< ((r >>> 16).toUInt8 % 8)
  | _ => (r >>> 24).toUInt8

partial def sample (b : B) (n : Nat) (seed : UInt64) : IO Bool := do
  let mut s := seed
  let mut sh : Array UInt8 := Array.replicate 128 0
  for i in [0:n] do
    -- recorded configuration: every configuration register gets a fresh byte every few rounds
    for a in cfgAddrs do
      s := xorshift s
      if i % 4 == 0 || s.toNat % 3 == 0 then
        sh := sh.set! a (pickByte s (R.defaultOf a).toNat.toUInt8)
    -- request: the block with some registers changed (none, one bit, or a fresh byte)
    let mut rq := sh
    for a in b.block do
      s := xorshift s
      match s.toNat % 4 with
      | 0 => rq := rq.set! a (pickByte (xorshift s) (sh.getD a 0))
      | 1 => rq := rq.set! a ((sh.getD a 0) ^^^ ((1 : UInt8) <<< ((s >>> 12).toUInt8 % 8)))
      | _ => pure ()
    let g := b.gen (regsOf sh) (regsOf rq)
    let m := b.model (regsOf sh) (regsOf rq)
    if !resEq g m then
      IO.println s!"DIFF {b.name} sh[{dump sh cfgAddrs}] rq[{dump rq b.block}] translated={showRes g} model={showRes m}"
      return false
  IO.println s!"OK {b.name} {n}"
  return true

def main (args : List String) : IO UInt32 := do
  let n := (args.getD 0 "20000").toNat!
  let seed := (args.getD 1 "1").toNat!
  let mut bad := 0
  for b in builders do
    let ok ← sample b n (UInt64.ofNat (seed * 7919 + 88172645463325252))
    if !ok then bad := bad + 1
  -- the self test: set-up and clean-up writes against the model's action list
  let mut s : UInt64 := UInt64.ofNat (seed + 12345)
  let mut stOk := true
  for _ in [0:n] do
    let mut sh : Array UInt8 := Array.replicate 128 0
    for a in cfgAddrs do
      s := xorshift s
      sh := sh.set! a (pickByte s (R.defaultOf a).toNat.toUInt8)
    let r := regsOf sh
    let want := selfTestActs r
    let got := (Bld.selfTestSetup r).map W.act ++ (want.drop 6).take 9 ++ (Bld.selfTestCleanup r).map W.act
    if stOk && !(got == want) then
      IO.println s!"DIFF selftest sh[{dump sh cfgAddrs}]"
      stOk := false
  if stOk then IO.println s!"OK selftest {n}" else bad := bad + 1
  -- the plans of the API functions (only looked at when Thm/Plans.lean does not check)
  let planEq (a b : Plan) : Bool := a.guard == b.guard && a.acts == b.acts
  let mut apiOk := true
  for _ in [0:(n / 20 + 1)] do
    let mut sh : Array UInt8 := Array.replicate 128 0
    for a in cfgAddrs do
      s := xorshift s
      sh := sh.set! a (pickByte s (R.defaultOf a).toNat.toUInt8)
    let r := regsOf sh
    let pairs : List (String × Plan × Plan) :=
      [ ("get_id", Op.plan r .getId, Api.get_id r), ("get_cmd_error", Op.plan r .getCmdError, Api.get_cmd_error r),
        ("get_status", Op.plan r .getStatus, Api.get_status r), ("get_unscaled_data", Op.plan r .getUnscaled, Api.get_unscaled_data r),
        ("get_data", Op.plan r .getData, Api.get_data r), ("get_sensor_clock", Op.plan r .getSensorClock, Api.get_sensor_clock r),
        ("get_reset_status", Op.plan r .getResetStatus, Api.get_reset_status r),
        ("get_int_status0", Op.plan r .getIntStatus0, Api.get_int_status0 r), ("get_int_status1", Op.plan r .getIntStatus1, Api.get_int_status1 r),
        ("get_int_status2", Op.plan r .getIntStatus2, Api.get_int_status2 r), ("get_fifo_len", Op.plan r .getFifoLen, Api.get_fifo_len r),
        ("read_fifo_frames 0", Op.plan r (.readFifo 0), Api.read_fifo_frames r 0), ("read_fifo_frames 7", Op.plan r (.readFifo 7), Api.read_fifo_frames r 7),
        ("read_fifo_frames 1025", Op.plan r (.readFifo 1025), Api.read_fifo_frames r 1025),
        ("flush_fifo", Op.plan r .flushFifo, Api.flush_fifo r), ("get_step_count", Op.plan r .getStepCount, Api.get_step_count r),
        ("clear_step_count", Op.plan r .clearStepCount, Api.clear_step_count r), ("get_step_activity", Op.plan r .getStepActivity, Api.get_step_activity r),
        ("get_raw_temp", Op.plan r .getRawTemp, Api.get_raw_temp r), ("get_temp_celsius", Op.plan r .getTempCelsius, Api.get_temp_celsius r),
        ("perform_self_test", Op.plan r .selfTest, Api.perform_self_test r), ("soft_reset", Op.plan r .softReset, Api.soft_reset r),
        ("new_i2c", ⟨none, Ctor.acts .newI2c⟩, Api.new_i2c r), ("new_spi", ⟨none, Ctor.acts .newSpi⟩, Api.new_spi r),
        ("new_spi_3wire", ⟨none, Ctor.acts .newSpi3⟩, Api.new_spi_3wire r) ]
    for (nm, a, b) in pairs do
      if apiOk && !planEq a b then
        IO.println s!"DIFF api {nm} sh[{dump sh cfgAddrs}]"
        apiOk := false
  if apiOk then IO.println s!"OK api {n / 20 + 1}" else bad := bad + 1
  return (if bad == 0 then 0 else 1)
