#!/usr/bin/env python3
"""Translator: the register ENCODERS of /repo/src/registers.rs -> Lean data (Bma400/GeneratedEnc.lean).

usage: gen_encoders.py registers.rs types.rs lib.rs > GeneratedEnc.lean

Every `pub [const] fn with_*(self|&self, arg: T) -> Self` inside `impl <Reg> { .. }` of a
`cfg_register!` register is translated by SYMBOLIC EVALUATION of its body over the bitflags
operations, with the masks taken from the `cfg_register!` table of the same file:

  a value expression  E ::= self | Self::NAME | E.union(E) | E.difference(E) | E | E | (E)
                          | match ARG { Enum::V => E, .. , Enum::W => unreachable!() } | { E }
                          | if ARG { E } else { E }
  is evaluated to  (keep, set)  meaning  result = (self & keep) | set   (constants: keep = 0).

  * enum argument  -> per variant, in the DECLARATION ORDER of the Rust enum, `some (keep, set)`
                      or `none` for `unreachable!()`
  * bool argument  -> (keep, set) for true and for false
  * numeric bodies -> one of six fixed token patterns (tag + masks), e.g.
                      `self.difference(Self::M).union(Self::from_bits_truncate((x << 4).to_le_bytes()[0]))`
Anything else fails closed (exit 1): the obligation `Thm/Encoders.lean` then cannot be checked
and the check falls back to its differential search.
"""
import re, sys

reg_src = open(sys.argv[1]).read()
enum_src = open(sys.argv[2]).read() + '\n' + open(sys.argv[3]).read()
reg_src = re.sub(r'//[^\n]*', '', reg_src)
enum_src = re.sub(r'//[^\n]*', '', enum_src)


def die(msg):
    sys.stderr.write('gen_encoders: ' + msg + '\n')
    sys.exit(1)


def num(s):
    s = s.strip().replace('_', '')
    if s.startswith('0b'):
        return int(s[2:], 2)
    if s.startswith('0x'):
        return int(s[2:], 16)
    return int(s)


# ---------------------------------------------------------------- masks (same parsing as gen_regtable.py)
MASKS = {}
for m in re.finditer(r'cfg_register!\s*\{\s*(\w+)\s*:\s*(0x[0-9A-Fa-f]+)\s*=\s*(0x[0-9A-Fa-f]+)\s*\{(.*?)\}\s*\}', reg_src, re.S):
    name, body = m.group(1), m.group(4)
    consts = {}
    for c in re.finditer(r'const\s+(\w+)\s*=\s*([^;]+);', body):
        cname, expr = c.group(1), c.group(2).strip()
        if re.fullmatch(r'0b[01_]+|0x[0-9A-Fa-f_]+|\d+', expr):
            v = num(expr)
        else:
            v = 0
            for part in expr.split('|'):
                pm = re.fullmatch(r'\s*Self::(\w+)\.bits\s*', part)
                if not pm or pm.group(1) not in consts:
                    die('cannot parse constant %s::%s' % (name, cname))
                v |= consts[pm.group(1)]
        consts[cname] = v
    MASKS[name] = consts

# ---------------------------------------------------------------- enums (declaration order)
ENUMS = {}
for m in re.finditer(r'pub\s+enum\s+(\w+)\s*\{(.*?)\n\}', enum_src, re.S):
    name, body = m.group(1), m.group(2)
    body = re.sub(r'#\[[^\]]*\]', '', body)
    vs = []
    for part in body.split(','):
        part = part.strip()
        if not part:
            continue
        vm = re.match(r'(\w+)', part)
        if vm:
            vs.append(vm.group(1))
    ENUMS[name] = vs


# ---------------------------------------------------------------- tokenizer / parser for value expressions
TOK = re.compile(r'\s*(=>|::|[A-Za-z_]\w*!?|0x[0-9A-Fa-f_]+|\d+|[{}()\[\].,|&<>=!])')


def tokenize(s):
    out = []
    i = 0
    s = s.strip()
    while i < len(s):
        m = TOK.match(s, i)
        if not m:
            die('cannot tokenize: ' + s[i:i + 40])
        out.append(m.group(1))
        i = m.end()
    return out


class P:
    def __init__(self, toks, reg, arg):
        self.t = toks
        self.i = 0
        self.reg = reg
        self.arg = arg

    def peek(self, k=0):
        return self.t[self.i + k] if self.i + k < len(self.t) else None

    def eat(self, x=None):
        tok = self.peek()
        if tok is None or (x is not None and tok != x):
            die('%s: expected %r, found %r at %s' % (self.reg, x, tok, ' '.join(self.t[max(0, self.i - 6):self.i + 6])))
        self.i += 1
        return tok

    # a VALUE is a dict variantKey -> (keep,set) | None ; key () for "no case split"
    def expr(self):
        v = self.postfix()
        while self.peek() == '|':
            self.eat('|')
            w = self.postfix()
            v = combine(v, w, lambda a, b: (a[0] | b[0], a[1] | b[1]))  # bit-or of two constants / values
        return v

    def primary(self):
        tok = self.peek()
        if tok == 'self':
            self.eat()
            return {(): (0xFF, 0)}
        if tok == 'Self':
            self.eat()
            self.eat('::')
            name = self.eat()
            if name == 'from_bits_truncate':
                die('%s: numeric body inside a symbolic expression' % self.reg)
            if name not in MASKS[self.reg]:
                die('%s: unknown constant %s' % (self.reg, name))
            return {(): (0, MASKS[self.reg][name])}
        if tok == '(':
            self.eat('(')
            v = self.expr()
            self.eat(')')
            return v
        if tok == '{':
            self.eat('{')
            v = self.expr()
            self.eat('}')
            return v
        if tok == 'unreachable!':
            self.eat()
            self.eat('(')
            self.eat(')')
            return {(): None}
        if tok == 'match':
            self.eat('match')
            scrut = self.eat()
            self.eat('{')
            arms = {}
            while self.peek() != '}':
                if self.peek() == '_':
                    self.eat('_')
                    self.eat('=>')
                    val = self.expr()
                    if self.peek() == ',':
                        self.eat(',')
                    arms[(scrut, '_', '_', None)] = val
                    continue
                en = self.eat()
                self.eat('::')
                var = self.eat()
                bind = None
                if self.peek() == '(':
                    self.eat('(')
                    bind = self.eat()
                    self.eat(')')
                self.eat('=>')
                val = self.expr()
                if self.peek() == ',':
                    self.eat(',')
                arms[(scrut, en, var, bind)] = val
            self.eat('}')
            out = {}
            for (scrut, en, var, bind), val in arms.items():
                for k, kv in val.items():
                    out[((scrut, en, var),) + k] = kv
            return out
        if tok == 'if':
            self.eat('if')
            cond = self.eat()
            self.eat('{')
            a = self.expr()
            self.eat('}')
            self.eat('else')
            self.eat('{')
            b = self.expr()
            self.eat('}')
            out = {}
            for k, kv in a.items():
                out[((cond, 'bool', 'true'),) + k] = kv
            for k, kv in b.items():
                out[((cond, 'bool', 'false'),) + k] = kv
            return out
        die('%s: unexpected token %r' % (self.reg, tok))

    def postfix(self):
        v = self.primary()
        while self.peek() == '.':
            self.eat('.')
            op = self.eat()
            self.eat('(')
            w = self.expr()
            self.eat(')')
            if op == 'union':
                v = combine(v, w, lambda a, b: (a[0], (a[1] | b[1])) if b[0] == 0 else die('union with a non-constant'))
            elif op == 'difference':
                v = combine(v, w, lambda a, b: (a[0] & ~b[1] & 0xFF, a[1] & ~b[1] & 0xFF) if b[0] == 0 else die('difference with a non-constant'))
            else:
                die('%s: unsupported method .%s' % (self.reg, op))
        return v


def combine(v, w, f):
    out = {}
    for k1, a in v.items():
        for k2, b in w.items():
            # keys are tuples of case decisions; contradictory decisions on the same scrutinee are dropped
            d = dict((x[0], x) for x in k1)
            ok = True
            for x in k2:
                if x[0] in d and d[x[0]] != x:
                    ok = False
                d[x[0]] = x
            if not ok:
                continue
            key = tuple(sorted(d.values()))
            out[key] = None if (a is None or b is None) else f(a, b)
    return out


def blocks(src, pat):
    for m in re.finditer(pat, src):
        i = src.index('{', m.end() - 1)
        d = 0
        for j in range(i, len(src)):
            if src[j] == '{':
                d += 1
            elif src[j] == '}':
                d -= 1
                if d == 0:
                    yield m, src[i + 1:j]
                    break


NUMERIC = [
    # (tag, regex over the whitespace-normalised body); X = argument name, M = a mask constant
    ('id', r'Self::from_bits_truncate\(X\)'),
    ('shr4_lo', r'Self::from_bits_truncate\(\(X >> 4\)\.to_le_bytes\(\)\[0\]\)'),
    ('le0', r'Self::from_bits_truncate\(X\.to_le_bytes\(\)\[0\]\)'),
    ('le1', r'Self::from_bits_truncate\(X\.to_le_bytes\(\)\[1\]\)'),
    ('keep_shl4_lo', r'self\.difference\(Self::(\w+)\) ?\.union\(Self::from_bits_truncate\(\(X << 4\)\.to_le_bytes\(\)\[0\]\)\)'),
    ('keep_shl2', r'self\.difference\(Self::(\w+)\) ?\.union\(Self::from_bits_truncate\(X << 2\)\)'),
]

enum_rows, bool_rows, num_rows = [], [], []
for m, body in blocks(reg_src, r'\nimpl\s+(\w+)\s*\{'):
    reg = m.group(1)
    if reg not in MASKS:
        continue
    allmask = 0
    for v in MASKS[reg].values():
        allmask |= v
    for fm, fb in blocks(body, r'pub\s+(?:const\s+)?fn\s+(\w+)\s*\(([^)]*)\)\s*->\s*(\w+)\s*\{'):
        fn, args, ret = fm.group(1), fm.group(2), fm.group(3)
        if ret != 'Self' or not fn.startswith('with_'):
            continue
        am = re.fullmatch(r'\s*&?self\s*,\s*(\w+)\s*:\s*(\w+)\s*', args)
        if not am:
            die('%s::%s: unsupported argument list %r' % (reg, fn, args))
        arg, ty = am.group(1), am.group(2)
        b = ' '.join(fb.split())
        if ty in ('u8', 'u16', 'i16', 'i8'):
            for tag, pat in NUMERIC:
                mm = re.fullmatch(pat.replace('X', re.escape(arg)), b)
                if mm:
                    field = MASKS[reg][mm.group(1)] if mm.groups() else 0
                    if mm.groups() and mm.group(1) not in MASKS[reg]:
                        die('%s::%s unknown mask' % (reg, fn))
                    num_rows.append((reg, fn, ty, tag, field, allmask))
                    break
            else:
                die('%s::%s: unsupported numeric body: %s' % (reg, fn, b))
            continue
        val = P(tokenize(b), reg, arg).expr()
        if ty == 'bool':
            want = {((arg, 'bool', 'true'),), ((arg, 'bool', 'false'),)}
            if set(val.keys()) != want or any(v is None for v in val.values()):
                die('%s::%s: bool setter is not a two-way if' % (reg, fn))
            bool_rows.append((reg, fn, val[((arg, 'bool', 'true'),)], val[((arg, 'bool', 'false'),)]))
            continue
        if ty not in ENUMS:
            die('%s::%s: unknown argument type %s' % (reg, fn, ty))
        # flatten nested enums (PinOutputConfig(PinOutputLevel)) in declaration order
        def variants(t):
            out = []
            for v in ENUMS[t]:
                out.append(v)
            return out
        rows = []
        if ty == 'PinOutputConfig':
            for v in ENUMS['PinOutputConfig']:
                for l in ENUMS['PinOutputLevel']:
                    hit = [x for k, x in val.items() if any(d[2] == v for d in k) and any(d[2] == l for d in k)]
                    if len(hit) != 1:
                        die('%s::%s: arm %s(%s) not found exactly once' % (reg, fn, v, l))
                    rows.append(('%s(%s)' % (v, l), hit[0]))
        else:
            for v in ENUMS[ty]:
                hit = [x for k, x in val.items() if len(k) == 1 and k[0][1] == ty and k[0][2] == v]
                if not hit:
                    hit = [x for k, x in val.items() if len(k) == 1 and k[0][1] == '_']
                if len(hit) != 1:
                    die('%s::%s: arm %s::%s not found exactly once' % (reg, fn, ty, v))
                rows.append((v, hit[0]))
            if len([k for k in val if k[0][1] != '_']) > len(rows):
                die('%s::%s: unexpected extra arms' % (reg, fn))
        enum_rows.append((reg, fn, ty, rows))

# ---------------------------------------------------------------- decoders (fn(&self) -> bool | Enum)
def mask_expr(reg, e):
    """Self::A | Self::A.union(Self::B)... -> int"""
    v = P(tokenize(e), reg, None).expr()
    if set(v.keys()) != {()} or v[()] is None or v[()][0] != 0:
        die('%s: mask expression is not a constant: %s' % (reg, e))
    return v[()][1]


dec_bool, dec_if, dec_table = [], [], []
for m, body in blocks(reg_src, r'\nimpl\s+(\w+)\s*\{'):
    reg = m.group(1)
    if reg not in MASKS:
        continue
    for fm, fb in blocks(body, r'pub\s+(?:const\s+)?fn\s+(\w+)\s*\(([^)]*)\)\s*->\s*(\w+)\s*\{'):
        fn, args, ret = fm.group(1), fm.group(2), fm.group(3)
        if ret == 'Self':
            continue
        if not re.fullmatch(r'\s*&?self\s*', args):
            die('%s::%s: decoder with arguments' % (reg, fn))
        b = ' '.join(fb.split())
        mm = re.fullmatch(r'self\.intersects\((.*)\)', b)
        if mm and ret == 'bool':
            dec_bool.append((reg, fn, mask_expr(reg, mm.group(1))))
            continue
        mm = re.fullmatch(r'if self\.intersects\((.*?)\) \{ (\w+)::(\w+) \} else \{ (\w+)::(\w+) \}', b)
        if mm and mm.group(2) == ret and mm.group(4) == ret and ret in ENUMS:
            dec_if.append((reg, fn, ret, mask_expr(reg, mm.group(1)), ENUMS[ret].index(mm.group(3)), ENUMS[ret].index(mm.group(5))))
            continue
        mm = re.fullmatch(r'match \(?self\.intersection\((.*?)\)\)?\.bits\(\)(?: >> (\d+))? \{ (.*) \}', b)
        if mm and ret in ENUMS:
            mask = mask_expr(reg, mm.group(1))
            shift = int(mm.group(2) or 0)
            arms, default = [], None
            for am in re.finditer(r'(0x[0-9A-Fa-f]+|\d+|_) => (\w+)::(\w+),?', mm.group(3)):
                if am.group(2) != ret:
                    die('%s::%s: arm of another type' % (reg, fn))
                idx = ENUMS[ret].index(am.group(3))
                if am.group(1) == '_':
                    default = idx
                else:
                    arms.append((num(am.group(1)), idx))
            if default is None:
                die('%s::%s: no default arm' % (reg, fn))
            dec_table.append((reg, fn, ret, mask, shift, arms, default))
            continue
        die('%s::%s: unsupported decoder body: %s' % (reg, fn, b))

if len(dec_bool) < 25 or len(dec_if) < 3 or len(dec_table) < 2:
    die('too few decoders recognised')

if len(enum_rows) < 25 or len(bool_rows) < 50 or len(num_rows) < 30:
    die('too few encoders recognised: %d enum, %d bool, %d numeric' % (len(enum_rows), len(bool_rows), len(num_rows)))

out = []
out.append('/- GENERATED by tools/gen_encoders.py from src/registers.rs (+ enum declarations of src/types.rs, src/lib.rs)')
out.append('   on every check run. Do not edit.  result = (self &&& keep) ||| set -/')
out.append('namespace Bma400')
out.append('namespace Generated')
out.append('namespace Enc')
out.append('')
for reg, fn, ty, rows in enum_rows:
    out.append('/-- %s::%s(%s): %s -/' % (reg, fn, ty, ', '.join(r[0] for r in rows)))
    out.append('def %s_%s : List (Option (Nat × Nat)) :=' % (reg, fn))
    out.append('  [' + ', '.join('none' if r[1] is None else 'some (0x%02X, 0x%02X)' % r[1] for r in rows) + ']')
out.append('')
out.append('/-- bool setters: ((keep, set) for true, (keep, set) for false) -/')
for reg, fn, t, f in bool_rows:
    out.append('def %s_%s : (Nat × Nat) × (Nat × Nat) := ((0x%02X, 0x%02X), (0x%02X, 0x%02X))' % (reg, fn, t[0], t[1], f[0], f[1]))
out.append('')
out.append('/-- numeric setters: (argument type, body pattern, field mask, union of all masks of the register);')
out.append('    types: 0 = u8, 1 = u16, 2 = i16; patterns: 0 = from_bits_truncate(x), 1 = ..((x >> 4).to_le_bytes()[0]),')
out.append('    2 = ..(x.to_le_bytes()[0]), 3 = ..(x.to_le_bytes()[1]), 4 = self.difference(FIELD).union(..((x << 4).to_le_bytes()[0])),')
out.append('    5 = self.difference(FIELD).union(..(x << 2)) -/')
TY = {'u8': 0, 'u16': 1, 'i16': 2}
TAG = {'id': 0, 'shr4_lo': 1, 'le0': 2, 'le1': 3, 'keep_shl4_lo': 4, 'keep_shl2': 5}
for reg, fn, ty, tag, field, allmask in num_rows:
    if ty not in TY:
        die('%s::%s: unsupported numeric type %s' % (reg, fn, ty))
    out.append('def %s_%s : Nat × Nat × Nat × Nat := (%d, %d, 0x%02X, 0x%02X)  -- %s, %s' % (reg, fn, TY[ty], TAG[tag], field, allmask, ty, tag))
out.append('')
out.append('def counts : Nat × Nat × Nat := (%d, %d, %d)' % (len(enum_rows), len(bool_rows), len(num_rows)))
out.append('')
out.append('/-- bool decoders `self.intersects(MASK)`: the mask -/')
for reg, fn, mask in dec_bool:
    out.append('def %s_get_%s : Nat := 0x%02X' % (reg, fn, mask))
out.append('')
out.append('/-- `if self.intersects(MASK) { A } else { B }`: (mask, index of A, index of B) in declaration order of the enum -/')
for reg, fn, ty, mask, a, b in dec_if:
    out.append('def %s_get_%s : Nat × Nat × Nat := (0x%02X, %d, %d)  -- %s' % (reg, fn, mask, a, b, ty))
out.append('')
out.append('/-- `match (self & MASK) >> SHIFT { code => V, .., _ => D }`: (mask, shift, [(code, index of V)], index of D) -/')
for reg, fn, ty, mask, shift, arms, default in dec_table:
    out.append('def %s_get_%s : Nat × Nat × List (Nat × Nat) × Nat := (0x%02X, %d, [%s], %d)  -- %s' % (
        reg, fn, mask, shift, ', '.join('(0x%02X, %d)' % a for a in arms), default, ty))
out.append('')
out.append('def decoderCounts : Nat × Nat × Nat := (%d, %d, %d)' % (len(dec_bool), len(dec_if), len(dec_table)))
out.append('')
out.append('end Enc')
out.append('end Generated')
out.append('end Bma400')
print('\n'.join(out))
