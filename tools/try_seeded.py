#!/usr/bin/env python3
"""apply each seeded patch to /repo, run the given checks, undo; print which checks raise a violation"""
import sys, os, subprocess, json, glob
ROOT = os.path.dirname(os.path.dirname(os.path.abspath(__file__)))
REPO = os.environ.get('VERIF_REPO', '/repo')
dirs = sys.argv[1:] or sorted(glob.glob(ROOT + '/seeded/*/'))
ALL = ['C%02d' % i for i in range(1, 21)]
for d in dirs:
    d = d.rstrip('/')
    patch = os.path.join(d, 'patch.diff')
    if not os.path.exists(patch):
        continue
    name = os.path.basename(d)
    prop = name.split('-')[-1][:3] if name.split('-')[-1].startswith('C') else None
    props = os.environ.get('PROPS', '').split() or ([prop] if prop else ALL)
    assert subprocess.run(['git', '-C', REPO, 'status', '--porcelain', '--untracked-files=no'], capture_output=True, text=True).stdout.strip() == '', 'repo dirty'
    r = subprocess.run(['git', '-C', REPO, 'apply', patch])
    if r.returncode != 0:
        print(name, 'PATCH DOES NOT APPLY'); continue
    try:
        res = {}
        for p in props:
            out = subprocess.run(['./check', p], cwd=ROOT, capture_output=True, text=True).stdout
            v = [l for l in out.split('\n') if l.startswith('VIOLATION')]
            res[p] = ('DETECTED ' + ('(no-failing-input)' if v and 'no-failing-input-found' in v[0] else '(with input)')) if v else 'missed'
        print(name, json.dumps(res), flush=True)
    finally:
        subprocess.run(['git', '-C', REPO, 'checkout', '--', '.'])
        subprocess.run('git -C ' + ROOT + ' checkout -- evidence lean/Bma400/Generated.lean lean/Bma400/GeneratedEnc.lean lean/Bma400/GeneratedBld.lean lean/Bma400/GeneratedApi.lean lean/Bma400/GeneratedFrames.lean lean/Bma400/GeneratedFifo.lean lean/Bma400/GeneratedSet.lean', shell=True)
