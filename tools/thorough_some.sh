#!/bin/bash
# thorough checks of the given properties on a repository copy (VERIF_REPO) or /repo
set -u
cd "$(dirname "$0")/.."
export VERIF_REPO=${VERIF_REPO:-/repo}
if [ "$VERIF_REPO" != "/repo" ]; then sed -i "s|path = \"/repo\"|path = \"$VERIF_REPO\"|" harness/Cargo.toml; fi
./check --setup >/dev/null 2>&1 || { echo "setup failed"; exit 2; }
for p in "$@"; do
  s=$(date +%s); out=$(./check $p --tier thorough 2>/dev/null); rc=$?
  echo "$p rc=$rc $(( $(date +%s) - s ))s $(echo "$out" | grep -c VIOLATION) $(echo "$out" | tail -1)"
done
