#!/bin/bash
# every thorough check once on a repository copy (VERIF_REPO) or /repo; prints one line per property
set -u
cd "$(dirname "$0")/.."
export VERIF_REPO=${VERIF_REPO:-/repo}
if [ "$VERIF_REPO" != "/repo" ]; then sed -i "s|path = \"/repo\"|path = \"$VERIF_REPO\"|" harness/Cargo.toml; fi
./check --setup >/dev/null 2>&1 || { echo "setup failed"; exit 2; }
for i in 01 02 03 04 05 06 07 08 09 10 11 12 13 14 15 16 17 18 19 20; do
  s=$(date +%s); out=$(./check C$i --tier thorough 2>/dev/null); rc=$?
  echo "C$i rc=$rc $(( $(date +%s) - s ))s $(echo "$out" | grep -c VIOLATION) $(echo "$out" | tail -1)"
done
