#!/usr/bin/env python3
"""Translator T3: the `write()` functions of the eleven configuration builders
(src/config/*.rs) and the self-test set-up / clean-up (src/config.rs) -> Lean
(Bma400/GeneratedBld.lean), by SYMBOLIC EXECUTION of the Rust source.

  usage: gen_builders.py <repo/src> <lean/Bma400>      (prints the Lean file)

The Rust subset: loop-free function bodies made of `let [mut]`, assignments,
`if` / `else`, `match` on data-carrying enums and on tuples of bools, `matches!`,
`return Ok(())` / `return Err(ConfigError::X.into())` at the top level of write(),
method calls on register values (`bits()`, the `with_*` encoders and decoders of
registers.rs) and on the configuration structs (inlined from their `impl` blocks),
`self.device.interface.write_register(v)?`.

State is symbolic: every leaf of `self.device.config` (the recorded configuration) starts
as `sh 0xNN`, every leaf of the builder's own copy as `rq 0xNN`; an `if` on a symbolic
condition runs both branches and merges what they changed with `if c then a else b`.
A `write_register(v)?` appends `wIf <path condition> <address of v's type> <v>` to the
list of writes.  The result is, per builder,

    def <name> (sh rq : Regs) : Except CfgErr (List W) :=
      if c1 then <early return 1> else if c2 then ... else .ok (wIf g1 a1 v1 ++ ... ++ [])

which Thm/Builders.lean proves EQUAL, for all sh and rq, to the hand-written script of
Builders.lean that the property theorems are about.

COMMIT DISCIPLINE (the model's `Eff.commit`): after every write_register(v)? the recorded
configuration must hold v at v's address before the next fallible operation / the end of the
enclosing block.  A source that violates it is reported with exit code 3 (a broken
obligation, not a parse problem): recording early or late is what C16 forbids.

Exit codes: 0 ok, 1 source outside the translatable subset (soft), 3 commit discipline.
"""
import re, sys, os, copy


class Unsupported(Exception):
    pass


class CommitError(Exception):
    pass


# ------------------------------------------------------------------ tokens

TOK = re.compile(r"""
    (?P<ws>\s+|//[^\n]*|/\*.*?\*/)
  | (?P<num>0x[0-9A-Fa-f_]+|0b[01_]+|\d[\d_]*(?:u8|u16|i16|usize|i32|u32)?)
  | (?P<life>'[a-z_]\w*(?!'))
  | (?P<id>[A-Za-z_]\w*)
  | (?P<op>::|->|=>|==|!=|&&|\|\||<=|>=|<<|>>|\.\.|[-+*/%^!&|=<>.,;:(){}\[\]?#@$])
""", re.X | re.S)


def tokenize(src):
    out = []
    i = 0
    while i < len(src):
        m = TOK.match(src, i)
        if not m:
            raise Unsupported('cannot tokenize at %r' % src[i:i + 30])
        i = m.end()
        if m.lastgroup == 'ws':
            continue
        out.append((m.lastgroup, m.group(m.lastgroup)))
    return out


# ------------------------------------------------------------------ parser

class P:
    def __init__(self, toks):
        self.t = toks
        self.i = 0

    def peek(self, k=0):
        return self.t[self.i + k][1] if self.i + k < len(self.t) else None

    def kind(self, k=0):
        return self.t[self.i + k][0] if self.i + k < len(self.t) else None

    def next(self):
        v = self.t[self.i][1]
        self.i += 1
        return v

    def eat(self, s):
        if self.peek() != s:
            raise Unsupported('expected %r, found %r (token %d)' % (s, self.peek(), self.i))
        self.i += 1

    def opt(self, s):
        if self.peek() == s:
            self.i += 1
            return True
        return False

    # --- skipping
    def skip_generics(self):
        """at `<`: skip to the matching `>` (`->` is one token, `>>` closes two)"""
        assert self.peek() == '<'
        d = 0
        while True:
            t = self.next()
            if t == '<':
                d += 1
            elif t == '>':
                d -= 1
            elif t == '>>':
                d -= 2
            if d <= 0:
                return

    def skip_type(self, stops):
        d = 0
        while True:
            t = self.peek()
            if t is None:
                raise Unsupported('eof in type')
            if d == 0 and t in stops:
                return
            if t in ('<', '(', '['):
                d += 1
            elif t in ('>', ')', ']'):
                d -= 1
            elif t == '>>':
                d -= 2
            self.i += 1

    def skip_vis(self):
        # after `pub`: optional `(crate)` / `(super)` / `(in path)`
        if self.peek() == '(':
            while self.next() != ')':
                pass

    def skip_attr(self):
        # `#[...]` or `#![...]`
        self.eat('#')
        self.opt('!')
        self.eat('[')
        d = 1
        while d:
            t = self.next()
            if t == '[':
                d += 1
            elif t == ']':
                d -= 1

    def skip_braced(self):
        self.eat('{')
        d = 1
        while d:
            t = self.next()
            if t == '{':
                d += 1
            elif t == '}':
                d -= 1

    # --- items
    def items(self, out, until=None):
        """collect struct / enum / impl / fn items; everything else is skipped"""
        while self.peek() is not None and self.peek() != until:
            t = self.peek()
            if t == '#':
                # `#[cfg(test)]`: the rest of the file is the test module
                j = self.i
                self.skip_attr()
                txt = ''.join(x[1] for x in self.t[j:self.i])
                if txt == '#[cfg(test)]':
                    return
                continue
            if t == 'pub':
                self.next()
                self.skip_vis()
                continue
            if t == 'struct':
                self.next()
                name = self.next()
                if self.peek() == '<':
                    self.skip_generics()
                if self.peek() == 'where':
                    self.skip_type(['{', ';'])
                fields = []
                if self.opt(';'):
                    pass
                elif self.peek() == '(':
                    self.skip_type([';'])
                    self.eat(';')
                else:
                    self.eat('{')
                    while not self.opt('}'):
                        if self.peek() == '#':
                            self.skip_attr()
                            continue
                        if self.peek() == 'pub':
                            self.next()
                            self.skip_vis()
                        f = self.next()
                        self.eat(':')
                        j = self.i
                        self.skip_type([',', '}'])
                        ty = [x[1] for x in self.t[j:self.i]]
                        self.opt(',')
                        fields.append((f, ty))
                out['struct'][name] = fields
                continue
            if t == 'enum':
                self.next()
                name = self.next()
                self.eat('{')
                vs = []
                while not self.opt('}'):
                    if self.peek() == '#':
                        self.skip_attr()
                        continue
                    v = self.next()
                    payload = None
                    if self.peek() == '(':
                        self.next()
                        j = self.i
                        self.skip_type([')'])
                        payload = [x[1] for x in self.t[j:self.i]]
                        self.eat(')')
                    if self.opt('='):
                        self.skip_type([',', '}'])
                    self.opt(',')
                    vs.append((v, payload))
                out['enum'][name] = vs
                continue
            if t == 'impl':
                self.next()
                if self.peek() == '<':
                    self.skip_generics()
                j = self.i
                self.skip_type(['{', 'where'])
                head = [x[1] for x in self.t[j:self.i]]
                if self.peek() == 'where':
                    self.skip_type(['{'])
                if 'for' in head:
                    self.skip_braced()
                    continue
                target = head[0]
                self.eat('{')
                sub = {'struct': {}, 'enum': {}, 'fn': {}, 'impl': {}}
                self.items(sub, until='}')
                self.eat('}')
                out['impl'].setdefault(target, {}).update(sub['fn'])
                continue
            if t == 'fn':
                self.next()
                name = self.next()
                if self.peek() == '<':
                    self.skip_generics()
                self.eat('(')
                params = []
                while not self.opt(')'):
                    if self.peek() in ('&', 'mut'):
                        self.next()
                        continue
                    if self.kind() == 'life':
                        self.next()
                        continue
                    p = self.next()
                    if self.opt(':'):
                        self.skip_type([',', ')'])
                    self.opt(',')
                    params.append(p)
                if self.opt('->'):
                    self.skip_type(['{', 'where', ';'])
                if self.peek() == 'where':
                    self.skip_type(['{', ';'])
                if self.opt(';'):
                    continue
                j = self.i
                self.skip_braced()
                out['fn'][name] = (params, self.t[j:self.i])
                continue
            if t in ('mod', 'use', 'macro_rules', 'const', 'type', 'static', 'trait', 'extern'):
                # skip to `;` or over a braced body
                while self.peek() not in (';', '{', None):
                    self.next()
                if self.peek() == '{':
                    self.skip_braced()
                else:
                    self.opt(';')
                continue
            # anything else (doc attributes are comments already): skip a token
            self.next()

    # --- blocks and expressions -> AST tuples
    def block(self):
        self.eat('{')
        stmts = []
        while not self.opt('}'):
            if self.opt(';'):
                continue
            if self.peek() == 'let':
                self.next()
                self.opt('mut')
                pat = self.pattern()
                if self.opt(':'):
                    self.skip_type(['=', ';'])
                self.eat('=')
                e = self.expr()
                self.eat(';')
                stmts.append(('let', pat, e))
                continue
            if self.peek() == 'return':
                self.next()
                e = None if self.peek() == ';' else self.expr()
                self.opt(';')
                stmts.append(('return', e))
                continue
            e = self.expr()
            if self.opt('='):
                r = self.expr()
                self.opt(';')
                stmts.append(('assign', e, r))
                continue
            if self.opt(';'):
                stmts.append(('expr', e))
            elif self.peek() == '}':
                stmts.append(('tail', e))
            elif e[0] in ('if', 'match', 'block'):
                stmts.append(('expr', e))
            else:
                raise Unsupported('statement not understood near token %d (%r)' % (self.i, self.peek()))
        return ('block', stmts)

    def pattern(self):
        t = self.peek()
        if t == '&':
            self.next()
            self.opt('mut')
            return self.pattern()
        if t == '_':
            self.next()
            return ('wild',)
        if t == '(':
            self.next()
            ps = []
            while not self.opt(')'):
                ps.append(self.pattern())
                self.opt(',')
            return ('ptuple', ps)
        if t in ('true', 'false'):
            self.next()
            return ('plit', t)
        if self.kind() == 'num':
            return ('plit', self.next())
        if self.kind() == 'id':
            path = [self.next()]
            while self.opt('::'):
                path.append(self.next())
            if self.peek() == '(':
                self.next()
                ps = []
                while not self.opt(')'):
                    ps.append(self.pattern())
                    self.opt(',')
                return ('pvariant', path, ps)
            if len(path) == 1 and path[0][0].islower():
                return ('bind', path[0])
            return ('pvariant', path, None)
        raise Unsupported('pattern not understood: %r' % t)

    PREC = {'||': 1, '&&': 2, '==': 3, '!=': 3, '|': 4, '^': 5, '&': 6, '<<': 7, '>>': 7, '+': 8, '-': 8, '*': 9, '/': 9}

    def expr(self, minp=1):
        lhs = self.unary()
        while True:
            op = self.peek()
            p = self.PREC.get(op)
            if p is None or p < minp:
                return lhs
            self.next()
            rhs = self.expr(p + 1)
            lhs = ('bin', op, lhs, rhs)

    def unary(self):
        t = self.peek()
        if t == '!':
            self.next()
            return ('not', self.unary())
        if t == '&':
            self.next()
            self.opt('mut')
            return self.unary()
        if t == '*':
            self.next()
            return self.unary()
        return self.postfix(self.primary())

    def postfix(self, e):
        while True:
            if self.peek() == '.':
                self.next()
                name = self.next()
                if self.peek() == '(':
                    e = ('mcall', e, name, self.args())
                else:
                    e = ('field', e, name)
            elif self.peek() == '?':
                self.next()
                e = ('try', e)
            else:
                return e

    def args(self):
        self.eat('(')
        a = []
        while not self.opt(')'):
            a.append(self.expr())
            self.opt(',')
        return a

    def primary(self):
        t = self.peek()
        k = self.kind()
        if t == '(':
            self.next()
            es = []
            trailing = False
            while not self.opt(')'):
                es.append(self.expr())
                trailing = self.opt(',')
            if len(es) == 1 and not trailing:
                return es[0]
            return ('tuple', es)
        if t == '{':
            return self.block()
        if t == 'if':
            self.next()
            c = self.expr()
            th = self.block()
            el = None
            if self.opt('else'):
                el = ('block', [('tail', self.primary())]) if self.peek() == 'if' else self.block()
            return ('if', c, th, el)
        if t == 'match':
            self.next()
            scrut = self.expr()
            self.eat('{')
            arms = []
            while not self.opt('}'):
                pats = [self.pattern()]
                while self.opt('|'):
                    pats.append(self.pattern())
                self.eat('=>')
                body = self.expr()
                self.opt(',')
                arms.append((pats, body))
            return ('match', scrut, arms)
        if k == 'num':
            return ('num', self.next())
        if t in ('true', 'false'):
            self.next()
            return ('lit', t)
        if k == 'id':
            path = [self.next()]
            while self.peek() == '::':
                self.next()
                if self.peek() == '<':
                    self.skip_generics()
                    continue
                path.append(self.next())
            if self.peek() == '!':
                self.next()
                if path == ['matches']:
                    self.eat('(')
                    e = self.expr()
                    self.eat(',')
                    pats = [self.pattern()]
                    while self.opt('|'):
                        pats.append(self.pattern())
                    self.eat(')')
                    return ('matches', e, pats)
                raise Unsupported('macro %s!' % path[0])
            if self.peek() == '(':
                return ('call', path, self.args())
            return ('path', path)
        raise Unsupported('expression not understood at token %d: %r' % (self.i, t))


# ------------------------------------------------------------------ values

class Byte:   # a register value (bitflags type `ty`), `e` : Lean term of type Byte
    def __init__(self, ty, e):
        self.ty, self.e = ty, e


class U8:
    def __init__(self, e):
        self.e = e


class Bool:
    def __init__(self, e):
        self.e = e


class Enum:   # plain enum value: tree = ('c', variant) | ('s', lean) | ('ite', cond, t, e)
    def __init__(self, ty, tree):
        self.ty, self.tree = ty, tree


class Tup:
    def __init__(self, items):
        self.items = items


class Ref:    # reference to a configuration struct living in the store
    def __init__(self, ty, path):
        self.ty, self.path = ty, path


class Var:    # data-carrying enum value
    def __init__(self, ty, variant, payload):
        self.ty, self.variant, self.payload = ty, variant, payload


class Iface:
    pass


class Res:
    def __init__(self, kind, payload=None):
        self.kind, self.payload = kind, payload


class Unit:
    pass


def b_not(e):
    if e == 'true':
        return 'false'
    if e == 'false':
        return 'true'
    if e.startswith('!') and balanced_atom(e[1:]):
        return e[1:]
    return '!' + paren(e)


def balanced_atom(s):
    if re.fullmatch(r'[\w.]+', s):
        return True
    if not (s.startswith('(') and s.endswith(')')):
        return False
    d = 0
    for i, ch in enumerate(s):
        if ch == '(':
            d += 1
        elif ch == ')':
            d -= 1
            if d == 0 and i != len(s) - 1:
                return False
    return True


def paren(e):
    return e if balanced_atom(e) else '(' + e + ')'


def b_and(a, b):
    if a == 'false' or b == 'false':
        return 'false'
    if a == 'true':
        return b
    if b == 'true':
        return a
    return '(%s && %s)' % (a, b)


def b_or(a, b):
    if a == 'true' or b == 'true':
        return 'true'
    if a == 'false':
        return b
    if b == 'false':
        return a
    return '(%s || %s)' % (a, b)


def ite(c, a, b):
    if c == 'true':
        return a
    if c == 'false':
        return b
    if a == b:
        return a
    return '(if %s then %s else %s)' % (c, a, b)


def b_ite(c, a, b):
    if a == b:
        return a
    if a == 'true' and b == 'false':
        return c
    if a == 'false' and b == 'true':
        return b_not(c)
    if a == 'true':
        return b_or(c, b)
    if b == 'false':
        return b_and(c, a)
    if a == 'false':
        return b_and(b_not(c), b)
    if b == 'true':
        return b_or(b_not(c), a)
    return ite(c, a, b)


# ------------------------------------------------------------------ the interpreter

class Interp:
    def __init__(self, items, regaddr, maps):
        self.items = items
        self.regaddr = regaddr          # register type -> address
        self.maps = maps
        self.store = {}
        self.writes = []                # (guard, addr, value)
        self.guards = []
        self.pending = None             # (addr, value, where) of the last write, not yet checked as recorded
        self.chain = []                 # early returns of the top-level function: (cond, result, n_writes)
        self.depth = 0
        self.lets = []                  # (name, Lean term) of merged register values, in order

    # ---- store
    def struct_ref(self, ty, path, leaf):
        """allocate the struct `ty` at `path`; `leaf(regty, addr)` gives the initial leaf"""
        for f, fty in self.items['struct'][ty]:
            t = fty[-1] if fty else None
            if t in self.regaddr:
                self.store[path + (f,)] = Byte(t, leaf(t, self.regaddr[t]))
            elif t in self.items['struct']:
                self.struct_ref(t, path + (f,), leaf)
            else:
                raise Unsupported('field %s.%s of unknown type %s' % (ty, f, t))
        return Ref(ty, path)

    def get_field(self, ref, f):
        for fn, fty in self.items['struct'].get(ref.ty, []):
            if fn == f:
                t = fty[-1]
                if t in self.items['struct'] and (ref.path + (f,)) not in self.store:
                    return Ref(t, ref.path + (f,))
                return self.store[ref.path + (f,)]
        raise Unsupported('no field %s in %s' % (f, ref.ty))

    def guard(self):
        g = 'true'
        for x in self.guards:
            g = b_and(g, x)
        return g

    # ---- commit discipline
    def check_pending(self, where):
        if self.pending is None:
            return
        addr, val, path = self.pending
        cur = self.store.get(path)
        if cur is None or not isinstance(cur, Byte) or cur.e != val:
            raise CommitError('the write of %s to register 0x%02X is not recorded in the configuration before %s '
                              '(recorded there: %s)' % (val, addr, where, cur.e if isinstance(cur, Byte) else cur))
        self.pending = None

    def shadow_path_of(self, ty):
        """the path inside the device configuration of the (unique) leaf of register type ty"""
        hits = [p for p, v in self.store.items() if p[0] == 'dev' and isinstance(v, Byte) and v.ty == ty]
        # (a value of type ty temporarily stored elsewhere does not matter: leaves keep their type)
        hits = [p for p in hits if self.leaf_type(p) == ty]
        if len(hits) != 1:
            raise Unsupported('register type %s is recorded at %d places' % (ty, len(hits)))
        return hits[0]

    def leaf_type(self, path):
        ty = 'Config'
        for f in path[1:]:
            for fn, fty in self.items['struct'][ty]:
                if fn == f:
                    ty = fty[-1]
                    break
        return ty

    # ---- evaluation
    def run_fn(self, owner, name, selfv, args):
        fns = self.items['impl'].get(owner, {}) if owner else self.items['fn']
        if name not in fns:
            raise Unsupported('no method %s::%s' % (owner, name))
        params, toks = fns[name]
        p = P(toks)
        body = p.block()
        env = {}
        ps = list(params)
        if ps and ps[0] == 'self':
            env['self'] = selfv
            ps = ps[1:]
        if len(ps) != len(args):
            raise Unsupported('arity of %s::%s' % (owner, name))
        for k, v in zip(ps, args):
            env[k] = v
        self.depth += 1
        try:
            r = self.exec_block(body, env, top=False)
        finally:
            self.depth -= 1
        if isinstance(r, tuple) and r and r[0] == 'ret':
            return r[1]
        return r

    def exec_block(self, blk, env, top):
        """-> value of the block, or ('ret', value) if it returned"""
        val = Unit()
        stmts = blk[1]
        for idx, st in enumerate(stmts):
            k = st[0]
            if k == 'let':
                v = self.eval(st[2], env)
                self.bind(st[1], v, env)
            elif k == 'assign':
                v = self.eval(st[2], env)
                self.assign(st[1], v, env)
            elif k == 'return':
                v = self.eval(st[1], env) if st[1] is not None else Unit()
                return ('ret', v)
            elif k in ('expr', 'tail'):
                e = st[1]
                if top and e[0] == 'if' and e[3] is None and self.is_return_block(e[2]) and not self.guards:
                    # `if c { return X; }` at the top level of write(): an arm of the result chain
                    self.check_pending('the early return')
                    c = self.eval(e[1], env)
                    if not isinstance(c, Bool):
                        raise Unsupported('condition is not a bool')
                    snap = self.snapshot(env)
                    nw = len(self.writes)
                    r = self.exec_block(e[2], env, top=False)
                    if len(self.writes) != nw:
                        raise Unsupported('bus write inside an early-return block')
                    self.restore(snap, env)
                    self.chain.append((c.e, r[1], len(self.writes)))
                    continue
                v = self.eval(e, env)
                if isinstance(v, tuple) and v and v[0] == 'ret':
                    if self.guards:
                        raise Unsupported('return inside a conditional')
                    return v
                if k == 'tail':
                    val = v
            else:
                raise Unsupported('statement ' + k)
        return val

    @staticmethod
    def is_return_block(blk):
        return blk[0] == 'block' and len(blk[1]) >= 1 and blk[1][-1][0] == 'return'

    def snapshot(self, env):
        return (dict(self.store), dict(env), self.pending)

    def restore(self, snap, env):
        self.store = dict(snap[0])
        env.clear()
        env.update(snap[1])
        self.pending = snap[2]

    def bind(self, pat, v, env):
        if pat[0] == 'bind':
            env[pat[1]] = v
        elif pat[0] == 'wild':
            pass
        elif pat[0] == 'ptuple':
            if not isinstance(v, Tup) or len(v.items) != len(pat[1]):
                raise Unsupported('tuple pattern')
            for p, x in zip(pat[1], v.items):
                self.bind(p, x, env)
        else:
            raise Unsupported('let pattern')

    def lvalue(self, e, env):
        """-> ('env', name) | ('store', path)"""
        if e[0] == 'path' and len(e[1]) == 1:
            return ('env', e[1][0])
        if e[0] == 'field':
            base = self.eval(e[1], env)
            if isinstance(base, Ref):
                return ('store', base.path + (e[2],))
        raise Unsupported('assignment target')

    def assign(self, target, v, env):
        lv = self.lvalue(target, env)
        if lv[0] == 'env':
            if lv[1] not in env:
                raise Unsupported('assignment to unknown local ' + lv[1])
            env[lv[1]] = v
        else:
            if lv[1] not in self.store:
                raise Unsupported('assignment to a non-leaf')
            old = self.store[lv[1]]
            if not isinstance(v, Byte) or v.ty != old.ty:
                raise Unsupported('assignment changes the type of a configuration leaf')
            self.store[lv[1]] = v

    def merge(self, c, sa, ea, pa, sb, eb, pb, env):
        """state after `if c {A} else {B}`"""
        st = {}
        for k in set(sa) | set(sb):
            if k in sa and k in sb:
                st[k] = self.merge_val(c, sa[k], sb[k])
        self.store = st
        env.clear()
        for k in ea:
            if k in eb:
                env[k] = self.merge_val(c, ea[k], eb[k])
        if pa is not None or pb is not None:
            raise CommitError('a write is still unrecorded at the end of a conditional block')
        self.pending = None

    def merge_val(self, c, a, b):
        if a is b:
            return a
        if isinstance(a, Byte) and isinstance(b, Byte) and a.ty == b.ty:
            e = ite(c, a.e, b.e)
            if e not in (a.e, b.e):
                # a merged register value gets a name (SSA): nested conditionals stay linear in size
                name = 't%d' % (len(self.lets) + 1)
                self.lets.append((name, e[1:-1]))
                e = name
            return Byte(a.ty, e)
        if isinstance(a, U8) and isinstance(b, U8):
            return U8(ite(c, a.e, b.e))
        if isinstance(a, Bool) and isinstance(b, Bool):
            return Bool(b_ite(c, a.e, b.e))
        if isinstance(a, Enum) and isinstance(b, Enum) and a.ty == b.ty:
            return Enum(a.ty, a.tree if a.tree == b.tree else ('ite', c, a.tree, b.tree))
        if isinstance(a, Tup) and isinstance(b, Tup) and len(a.items) == len(b.items):
            return Tup([self.merge_val(c, x, y) for x, y in zip(a.items, b.items)])
        if isinstance(a, Ref) and isinstance(b, Ref) and a.path == b.path:
            return a
        if isinstance(a, Unit) and isinstance(b, Unit):
            return a
        if isinstance(a, Iface) and isinstance(b, Iface):
            return a
        if isinstance(a, Var) and isinstance(b, Var) and a.variant == b.variant:
            return a
        if isinstance(a, Res) and isinstance(b, Res) and a.kind == b.kind == 'ok':
            return a
        raise Unsupported('cannot merge values of the two branches of a conditional')

    def eval_if(self, e, env):
        c = self.eval(e[1], env)
        if not isinstance(c, Bool):
            raise Unsupported('condition is not a bool')
        if c.e == 'true':
            return self.exec_block(e[2], env, False)
        if c.e == 'false':
            return self.exec_block(e[3], env, False) if e[3] else Unit()
        self.check_pending('a conditional')
        snap = self.snapshot(env)
        self.guards.append(c.e)
        ra = self.exec_block(e[2], env, False)
        self.check_pending('the end of the conditional block')
        self.guards.pop()
        sa, ea, pa = self.snapshot(env)
        self.restore(snap, env)
        rb = Unit()
        if e[3]:
            self.guards.append(b_not(c.e))
            rb = self.exec_block(e[3], env, False)
            self.check_pending('the end of the conditional block')
            self.guards.pop()
        sb, eb, pb = self.snapshot(env)
        for r in (ra, rb):
            if isinstance(r, tuple) and r and r[0] == 'ret':
                raise Unsupported('return inside a conditional')
        self.merge(c.e, sa, ea, pa, sb, eb, pb, env)
        return self.merge_val(c.e, ra, rb)

    def match_pat(self, pat, v, env):
        """-> Bool condition lean string under which pat matches v (binding into env)"""
        k = pat[0]
        if k == 'wild':
            return 'true'
        if k == 'bind':
            env[pat[1]] = v
            return 'true'
        if k == 'plit':
            if isinstance(v, Bool) and pat[1] in ('true', 'false'):
                return v.e if pat[1] == 'true' else b_not(v.e)
            raise Unsupported('literal pattern')
        if k == 'ptuple':
            if not isinstance(v, Tup) or len(v.items) != len(pat[1]):
                raise Unsupported('tuple pattern')
            c = 'true'
            for p, x in zip(pat[1], v.items):
                c = b_and(c, self.match_pat(p, x, env))
            return c
        if k == 'pvariant':
            name = pat[1][-1]
            if isinstance(v, Var):
                if v.variant != name:
                    return 'false'
                if pat[2]:
                    if len(pat[2]) != 1:
                        raise Unsupported('variant payload pattern')
                    return self.match_pat(pat[2][0], v.payload, env)
                return 'true'
            if isinstance(v, Enum):
                return self.enum_is(v.ty, v.tree, name)
            raise Unsupported('variant pattern on %s' % type(v).__name__)
        raise Unsupported('pattern ' + k)

    def enum_is(self, ty, tree, variant):
        if tree[0] == 'c':
            return 'true' if tree[1] == variant else 'false'
        if tree[0] == 's':
            return '(%s == %s)' % (tree[1], self.lean_variant(ty, variant))
        return b_ite(tree[1], self.enum_is(ty, tree[2], variant), self.enum_is(ty, tree[3], variant))

    def lean_variant(self, ty, variant):
        m = self.maps['enums'].get(ty)
        if not m or variant not in m[1]:
            raise Unsupported('enum variant %s::%s has no Lean counterpart' % (ty, variant))
        return '%s.%s' % (m[0], m[1][variant])

    def eval_match(self, e, env):
        v = self.eval(e[1], env)
        remaining = 'true'
        result = None
        first = True
        for pats, body in e[2]:
            env2 = dict(env)
            c = 'false'
            for p in pats:
                c = b_or(c, self.match_pat(p, v, env2))
            c_here = b_and(remaining, c)
            if c_here == 'false':
                continue
            if c == 'true' or b_and(remaining, b_not(c)) == 'false':
                # statically the (last reachable) arm
                if remaining != 'true' and result is not None:
                    # symbolic chain: this is the else-branch
                    r = self.eval_arm(body, env2, env, None)
                    result = self.merge_val_chain(result, r)
                    return self.finish_chain(result)
                r = self.eval_arm(body, env2, env, None)
                if result is None:
                    return r
                result = self.merge_val_chain(result, r)
                return self.finish_chain(result)
            # symbolic arm: only pure arms are supported (no writes, no state change)
            nw = len(self.writes)
            snap = self.snapshot(env)
            r = self.eval_arm(body, env2, env, c_here)
            if len(self.writes) != nw or self.changed(snap, env):
                raise Unsupported('match on a symbolic value with effects in its arms')
            result = (result or []) + [(c, r)]
            remaining = b_and(remaining, b_not(c))
        if result is None:
            raise Unsupported('match without a reachable arm')
        # no statically-last arm: the last symbolic arm serves as the default
        last = result.pop()
        result.append(('else', last[1]))
        return self.finish_chain(result)

    def eval_arm(self, body, env2, env, cond):
        r = self.eval(body, env2)
        # propagate assignments to outer locals
        for k in env:
            if k in env2:
                env[k] = env2[k]
        return r

    def changed(self, snap, env):
        if set(snap[0]) != set(self.store) or any(snap[0][k] is not self.store[k] for k in snap[0]):
            return True
        return False

    def merge_val_chain(self, chain, last):
        return chain + [('else', last)]

    def finish_chain(self, chain):
        assert chain[-1][0] == 'else'
        acc = chain[-1][1]
        for c, r in reversed(chain[:-1]):
            acc = self.merge_val(c, r, acc)
        return acc

    def eval(self, e, env):
        k = e[0]
        if k == 'block':
            env2 = dict(env)
            r = self.exec_block(e, env2, False)
            for n in env:
                env[n] = env2[n]
            return r
        if k == 'if':
            return self.eval_if(e, env)
        if k == 'match':
            return self.eval_match(e, env)
        if k == 'lit':
            return Bool(e[1])
        if k == 'num':
            return U8(lean_num(e[1]))
        if k == 'tuple':
            return Tup([self.eval(x, env) for x in e[1]])
        if k == 'not':
            v = self.eval(e[1], env)
            if isinstance(v, Bool):
                return Bool(b_not(v.e))
            raise Unsupported('`!` on a non-bool')
        if k == 'bin':
            return self.eval_bin(e, env)
        if k == 'matches':
            v = self.eval(e[1], env)
            c = 'false'
            for p in e[2]:
                c = b_or(c, self.match_pat(p, v, dict(env)))
            return Bool(c)
        if k == 'path':
            p = e[1]
            if len(p) == 1:
                if p[0] in env:
                    return env[p[0]]
                raise Unsupported('unknown name ' + p[0])
            if len(p) == 2 and p[0] in self.items['enum']:
                return Enum(p[0], ('c', p[1]))
            if len(p) == 2 and p[0] in self.maps['enums']:
                return Enum(p[0], ('c', p[1]))
            if len(p) >= 2 and p[-2] == 'ConfigError':
                return Enum('ConfigError', ('c', p[-1]))
            if len(p) >= 2 and p[-2] in self.maps['enums']:
                return Enum(p[-2], ('c', p[-1]))
            raise Unsupported('path ' + '::'.join(p))
        if k == 'field':
            base = self.eval(e[1], env)
            if isinstance(base, Ref):
                return self.get_field(base, e[2])
            if isinstance(base, Tup) and e[2].isdigit():
                return base.items[int(e[2])]
            raise Unsupported('field access .%s on %s' % (e[2], type(base).__name__))
        if k == 'try':
            v = self.eval(e[1], env)
            if isinstance(v, Res) and v.kind == 'ok':
                return v.payload if v.payload is not None else Unit()
            raise Unsupported('`?` on something that is not a bus write')
        if k == 'call':
            p = e[1]
            args = [self.eval(a, env) for a in e[2]]
            if p == ['Ok']:
                return Res('ok', args[0] if args else None)
            if p == ['Err']:
                return Res('err', args[0])
            if len(p) == 1 and p[0] in self.items['fn']:
                return self.run_fn(None, p[0], None, args)
            if len(p) == 2 and p[1] == 'from_bits_truncate' and p[0] in self.regaddr:
                if isinstance(args[0], U8):
                    return Byte(p[0], 'trunc (DS.definedMask 0x%02X) %s' % (self.regaddr[p[0]], paren(args[0].e)))
            raise Unsupported('call ' + '::'.join(p))
        if k == 'mcall':
            return self.eval_mcall(e, env)
        raise Unsupported('expression ' + k)

    def eval_bin(self, e, env):
        op = e[1]
        a = self.eval(e[2], env)
        if op in ('&&', '||') and isinstance(a, Bool):
            # Rust short-circuits; the operands here are pure, so both are evaluated
            nw = len(self.writes)
            b = self.eval(e[3], env)
            if len(self.writes) != nw or not isinstance(b, Bool):
                raise Unsupported('effect in a boolean operand')
            return Bool(b_and(a.e, b.e) if op == '&&' else b_or(a.e, b.e))
        b = self.eval(e[3], env)
        if op in ('==', '!='):
            if isinstance(a, U8) and isinstance(b, U8):
                if a.e == b.e:
                    return Bool('true' if op == '==' else 'false')
                return Bool('(%s %s %s)' % (a.e, op, b.e))
            if isinstance(a, Bool) and isinstance(b, Bool):
                return Bool('(%s %s %s)' % (a.e, op, b.e))
            raise Unsupported('comparison of %s and %s' % (type(a).__name__, type(b).__name__))
        if op == '^' and isinstance(a, Byte) and isinstance(b, Byte) and a.ty == b.ty:
            return Byte(a.ty, '(%s ^^^ %s)' % (a.e, b.e))
        raise Unsupported('operator %s on %s, %s' % (op, type(a).__name__, type(b).__name__))

    def eval_mcall(self, e, env):
        name = e[2]
        recv = self.eval(e[1], env)
        if isinstance(recv, Iface):
            if name != 'write_register' or len(e[3]) != 1:
                raise Unsupported('interface method ' + name)
            v = self.eval(e[3][0], env)
            if not isinstance(v, Byte) or v.ty not in self.regaddr:
                raise Unsupported('write_register of something that is not a configuration register')
            self.check_pending('the next bus write')
            addr = self.regaddr[v.ty]
            self.writes.append((self.guard(), addr, v.e))
            self.pending = (addr, v.e, self.shadow_path_of(v.ty))
            return Res('ok', None)
        args = [self.eval(a, env) for a in e[3]]
        if name in ('into', 'clone', 'borrow') and not args:
            return recv
        if isinstance(recv, Byte):
            return self.reg_method(recv, name, args)
        if isinstance(recv, Ref):
            return self.run_fn(recv.ty, name, recv, args)
        if isinstance(recv, Var):
            return self.run_fn(recv.ty, name, recv, args)
        raise Unsupported('method .%s on %s' % (name, type(recv).__name__))

    def reg_method(self, r, name, args):
        m = self.maps
        key = (r.ty, name)
        if name == 'bits' and not args:
            return U8(r.e)
        if key in m['flagenc'] and len(args) == 1 and isinstance(args[0], Bool):
            mask = m['flagenc'][key]
            a = args[0].e
            if a == 'false':
                return Byte(r.ty, 'clr %s %s' % (paren(r.e), mask))
            if a == 'true':
                return Byte(r.ty, 'uni %s %s' % (paren(r.e), mask))
            return Byte(r.ty, 'flag %s %s %s' % (paren(r.e), mask, paren(a)))
        if key in m['flagdec'] and not args:
            return Bool('has %s %s' % (paren(r.e), m['flagdec'][key]))
        if key in m['enumdec'] and not args:
            fn, rty = m['enumdec'][key]
            return Enum(rty, ('s', '%s %s' % (fn, paren(r.e))))
        if key in m['enumenc'] and len(args) == 1 and isinstance(args[0], Enum) and args[0].tree[0] == 'c':
            fn, partial, rty = m['enumenc'][key]
            if partial:
                raise Unsupported('partial encoder with a constant argument')
            return Byte(r.ty, '%s %s %s' % (fn, paren(r.e), self.lean_variant(rty, args[0].tree[1])))
        raise Unsupported('register method %s::%s' % key)


def lean_num(s):
    s = re.sub(r'(u8|u16|i16|usize|i32|u32)$', '', s).replace('_', '')
    if s.startswith('0x'):
        return '0x%02X#8' % int(s[2:], 16)
    if s.startswith('0b'):
        return '0x%02X#8' % int(s[2:], 2)
    return '0x%02X#8' % int(s)


# ------------------------------------------------------------------ name maps (from the committed Lean files)

def load_maps(leandir, srcdir):
    enc = open(os.path.join(leandir, 'Thm', 'Encoders.lean')).read()
    maps = {'flagenc': {}, 'flagdec': {}, 'enumdec': {}, 'enumenc': {}, 'enums': {}}
    for m in re.finditer(r'isFlag (R\.\w+) Enc\.([A-Za-z0-9]+)_(with_\w+)', enc):
        maps['flagenc'][(m.group(2), m.group(3))] = m.group(1)
    dm = re.search(r'theorem dec_flags :\s*\[(.*?)\]\s*=\s*\[(.*?)\]', enc, re.S)
    names = re.findall(r'Enc\.([A-Za-z0-9]+)_get_(\w+)', dm.group(1))
    masks = re.findall(r'\((R\.\w+)\)\.toNat', dm.group(2))
    assert len(names) == len(masks)
    for (ty, mth), mk in zip(names, masks):
        maps['flagdec'][(ty, mth)] = mk
    # Rust enum name <-> Lean type, variants by declaration order
    rust_enums = {}
    for f in ('types.rs', 'lib.rs'):
        s = re.sub(r'//[^\n]*', '', open(os.path.join(srcdir, f)).read())
        for m in re.finditer(r'pub enum (\w+)\s*\{(.*?)\n\}', s, re.S):
            vs = [v for v in re.findall(r'^\s*([A-Z]\w*)\s*(?:\([^)]*\))?\s*(?:=\s*[^,]+)?,?\s*$', re.sub(r'#\[[^\]]*\]', '', m.group(2)), re.M)]
            rust_enums[m.group(1)] = vs
    basic = open(os.path.join(leandir, 'Basic.lean')).read()
    lean_enums = {}
    for m in re.finditer(r'^inductive (\w+)((?:\s*\|\s*\w+)+)\s*deriving', basic, re.M):
        lean_enums[m.group(1)] = re.findall(r'\|\s*(\w+)', m.group(2))
    pair = {'DataSource': 'DataSource', 'OutputDataRate': 'ODR', 'InterruptPins': 'IntPins', 'PowerMode': 'PowerMode',
            'Scale': 'Scale', 'OversampleRate': 'OSR'}
    for r, l in pair.items():
        if r in rust_enums and l in lean_enums and len(rust_enums[r]) == len(lean_enums[l]):
            maps['enums'][r] = (l, dict(zip(rust_enums[r], lean_enums[l])))
    lean2rust = {l: r for r, l in pair.items()}
    for m in re.finditer(r'(R\.\w+) b == decode(?:If|Table) \[(\w+)\.\w+.*?Enc\.([A-Za-z0-9]+)_get_(\w+) b', enc):
        lty = m.group(2)
        if lty in lean2rust:
            maps['enumdec'][(m.group(3), m.group(4))] = (m.group(1), lean2rust[lty])
    for m in re.finditer(r'theorem enc_([A-Za-z0-9]+)_(with_\w+) : agrees \(α := (\w+)\) \[[^\]]*\] \(fun b v => (some )?\(?(R\.\w+) b v\)?\)', enc):
        lty = m.group(3)
        if lty in lean2rust:
            maps['enumenc'][(m.group(1), m.group(2))] = (m.group(5), m.group(4) is None, lean2rust[lty])
    return maps


def load_regaddr(srcdir):
    src = re.sub(r'//[^\n]*', '', open(os.path.join(srcdir, 'registers.rs')).read())
    out = {}
    for m in re.finditer(r'cfg_register!\s*\{\s*(\w+)\s*:\s*(0x[0-9A-Fa-f]+)\s*=', src):
        out[m.group(1)] = int(m.group(2), 16)
    return out


# ------------------------------------------------------------------ driver

BUILDERS = [
    # (lean name, file, builder type, block struct / variant, field of Config)
    ('acc', 'accel_config.rs', 'AccConfigBuilder', 'AccConfig', 'acc_config', None),
    ('int', 'int_config.rs', 'IntConfigBuilder', 'IntConfig', 'int_config', None),
    ('pin', 'int_pin_config.rs', 'IntPinConfigBuilder', 'IntPinConfig', 'int_pin_config', None),
    ('fifo', 'fifo_config.rs', 'FifoConfigBuilder', 'FifoConfig', 'fifo_config', None),
    ('alp', 'auto_lp_config.rs', 'AutoLpConfigBuilder', 'AutoLpConfig', 'auto_lp_config', None),
    ('awk', 'auto_wkup_config.rs', 'AutoWakeupConfigBuilder', 'AutoWakeupConfig', 'auto_wkup_config', None),
    ('wkup', 'wkup_int_config.rs', 'WakeupIntConfigBuilder', 'WakeupIntConfig', 'wkup_int_config', None),
    ('ori', 'orientch_config.rs', 'OrientChgConfigBuilder', 'OrientChgConfig', 'orientch_config', None),
    ('gen1', 'gen_int_config.rs', 'GenIntConfigBuilder', 'Gen1IntConfig', 'gen1int_config', 'Gen1Int'),
    ('gen2', 'gen_int_config.rs', 'GenIntConfigBuilder', 'Gen2IntConfig', 'gen2int_config', 'Gen2Int'),
    ('act', 'actchg_config.rs', 'ActChgConfigBuilder', 'ActChgConfig', 'actchg_config', None),
    ('tap', 'tap_config.rs', 'TapConfigBuilder', 'TapConfig', 'tap_config', None),
]


def parse_all(srcdir):
    items = {'struct': {}, 'enum': {}, 'fn': {}, 'impl': {}}
    files = ['config.rs'] + sorted('config/' + f for f in os.listdir(os.path.join(srcdir, 'config')) if f.endswith('.rs'))
    for f in files:
        toks = tokenize(open(os.path.join(srcdir, f)).read())
        P(toks).items(items)
    return items


def writes_term(ws):
    t = '[]'
    for g, a, v in reversed(ws):
        t = 'wIf %s 0x%02X %s ++ %s' % (paren(g), a, paren(v), t)
    return t


def lean_result(r, ws):
    if isinstance(r, Res) and r.kind == 'ok':
        return '.ok (%s)' % writes_term(ws)
    if isinstance(r, Res) and r.kind == 'err' and isinstance(r.payload, Enum) and r.payload.ty == 'ConfigError':
        if ws:
            raise Unsupported('configuration error returned after bus writes')
        name = {'Filt1InterruptInvalidODR': 'filt1Odr', 'TapIntEnabledInvalidODR': 'tapOdr',
                'FifoReadWhilePwrDisable': 'fifoPwr'}.get(r.payload.tree[1])
        if not name:
            raise Unsupported('unknown ConfigError variant')
        return '.error .%s' % name
    raise Unsupported('result of write() is neither Ok(()) nor Err(ConfigError)')


def translate_builder(items, regaddr, maps, spec):
    lname, _, bty, blockty, cfgfield, variant = spec
    it = Interp(items, regaddr, maps)
    dev_cfg = it.struct_ref('Config', ('dev',), lambda t, a: 'sh 0x%02X' % a)
    blk = it.struct_ref(blockty, ('rq',), lambda t, a: 'rq 0x%02X' % a)
    cfgv = Var('GenIntConfig', variant, blk) if variant else blk
    # the builder object: struct { config, device: BMA400 { config, interface } }
    items['struct']['__Dev'] = []
    builder = {'config': cfgv}

    class Builder(Ref):
        pass
    # special-case field access on the builder / device through tiny shims
    selfv = Ref('__Builder', ('self',))
    it.items['struct']['__Builder'] = [('config', ['__cfg']), ('device', ['__Device'])]
    it.items['struct']['__Device'] = [('config', ['Config']), ('interface', ['__Iface'])]
    it.store[('self', 'config')] = cfgv
    it.store[('self', 'device')] = Ref('__Device', ('self', 'device'))
    it.store[('self', 'device', 'config')] = dev_cfg
    it.store[('self', 'device', 'interface')] = Iface()
    # methods of the builder type (write and its private helpers) are looked up under '__Builder'
    it.items['impl']['__Builder'] = items['impl'].get(bty, {})
    params, toks = items['impl'][bty]['write']
    body = P(toks).block()
    env = {'self': selfv}
    r = it.exec_block(body, env, top=True)
    it.check_pending('the end of write()')
    if isinstance(r, tuple) and r and r[0] == 'ret':
        r = r[1]
    out = lean_result(r, it.writes)
    for c, rr, nw in reversed(it.chain):
        out = 'if %s then %s else\n  %s' % (c, lean_result(rr, it.writes[:nw]), out)
    # only the lets the result depends on (the recorded configuration after the writes is merged too)
    used = set()
    text = out
    for name, e in reversed(it.lets):
        if re.search(r'\b%s\b' % name, text):
            used.add(name)
            text += ' ' + e
    lets = ''.join('let %s : Byte := %s\n  ' % l for l in it.lets if l[0] in used)
    return 'def %s (sh rq : Regs) : Except CfgErr (List W) :=\n  %s%s' % (lname, lets, out), len(it.writes)


def translate_selftest(items, regaddr, maps, which):
    """Config::setup_self_test / cleanup_self_test: the list of writes (all unconditional)"""
    it = Interp(items, regaddr, maps)
    me = it.struct_ref('Config', ('dev',), lambda t, a: 'sh 0x%02X' % a)
    env = {'self': me, 'interface': Iface()}
    if which == 'cleanup_self_test':
        # `saved` is a second configuration; allocate it outside 'dev' so that shadow_path_of ignores it
        env['saved'] = it.struct_ref('Config', ('saved',), lambda t, a: 'saved 0x%02X' % a)
    params, toks = items['impl']['Config'][which]
    body = P(toks).block()
    r = it.exec_block(body, env, top=True)
    it.check_pending('the end of ' + which)
    if isinstance(r, tuple) and r and r[0] == 'ret':
        r = r[1]
    if it.chain or not (isinstance(r, Res) and r.kind == 'ok') or any(g != 'true' for g, _, _ in it.writes):
        raise Unsupported(which + ' is not a straight line of writes')
    ws = ', '.join('⟨0x%02X, %s⟩' % (a, v) for _, a, v in it.writes)
    if which == 'cleanup_self_test':
        return 'def selfTestCleanup (saved : Regs) : List W :=\n  [%s]' % ws, len(it.writes)
    return 'def selfTestSetup (sh : Regs) : List W :=\n  [%s]' % ws, len(it.writes)


def main():
    srcdir, leandir = sys.argv[1], sys.argv[2]
    try:
        items = parse_all(srcdir)
        regaddr = load_regaddr(srcdir)
        maps = load_maps(leandir, srcdir)
        defs = []
        counts = []
        for spec in BUILDERS:
            d, n = translate_builder(copy.deepcopy(items), regaddr, maps, spec)
            defs.append('/-- %s::write() of src/config/%s%s -/\n%s' % (spec[2], spec[1], (' (' + spec[5] + ')') if spec[5] else '', d))
            counts.append(n)
        for which in ('setup_self_test', 'cleanup_self_test'):
            d, n = translate_selftest(copy.deepcopy(items), regaddr, maps, which)
            defs.append('/-- Config::%s of src/config.rs -/\n%s' % (which, d))
            counts.append(n)
    except CommitError as ex:
        sys.stderr.write('commit discipline: %s\n' % ex)
        sys.exit(3)
    except Unsupported as ex:
        sys.stderr.write('outside the translatable subset: %s\n' % ex)
        sys.exit(1)
    print('/- GENERATED by tools/gen_builders.py from src/config.rs and src/config/*.rs on every check run.')
    print('   Do not edit.  Symbolic execution of the builders\' write() functions: `sh` is the recorded')
    print('   configuration at the call, `rq` the builder\'s copy after its setters. -/')
    print('import Bma400.Builders')
    print('import Bma400.Datasheet')
    print('namespace Bma400')
    print('namespace Generated')
    print('namespace Bld')
    print('open R')
    print()
    print('\n\n'.join(defs))
    print()
    print('/-- number of write sites per translated function -/')
    print('def writeSites : List Nat := [%s]' % ', '.join(str(c) for c in counts))
    print()
    print('end Bld')
    print('end Generated')
    print('end Bma400')


if __name__ == '__main__':
    main()
