#!/usr/bin/env python3
"""Translator T3: the `write()` functions of the eleven configuration builders
(src/config/*.rs) and the self-test set-up / clean-up (src/config.rs) -> Lean
(Bma400/GeneratedBld.lean), by SYMBOLIC EXECUTION of the Rust source.

  usage: gen_builders.py <repo/src> <lean/Bma400>               builders (T3)  -> GeneratedBld.lean
         gen_builders.py <repo/src> <lean/Bma400> --api         API plans (T4) -> GeneratedApi.lean
         gen_builders.py <repo/src> <lean/Bma400> --transport   transports (T5) -> GeneratedFrames.lean

The Rust subset: loop-free function bodies made of `let [mut]`, assignments,
`if` / `else`, `match` on data-carrying enums and on tuples of bools, `matches!`,
`return Ok(())` / `return Err(ConfigError::X.into())` at the top level of write(),
method calls on register values (`bits()`, the `with_*` encoders and decoders of
registers.rs) and on the configuration structs (inlined from their `impl` blocks),
`self.device.interface.write_register(v)?`.

State is symbolic: every leaf of `self.device.config` (the recorded configuration) starts
as `sh 0xNN`, every leaf of the builder's own copy as `rq 0xNN`; an `if` on a symbolic
condition runs both branches and merges what they changed with `if c then a else b`.
A `write_register(v)?` appends `wIf <path condition> <address of v's type> <v>` to the
list of writes.  The result is, per builder,

    def <name> (sh rq : Regs) : Except CfgErr (List W) :=
      if c1 then <early return 1> else if c2 then ... else .ok (wIf g1 a1 v1 ++ ... ++ [])

which Thm/Builders.lean proves EQUAL, for all sh and rq, to the hand-written script of
Builders.lean that the property theorems are about.

COMMIT DISCIPLINE (the model's `Eff.commit`): after every write_register(v)? the recorded
configuration must hold v at v's address before the next fallible operation / the end of the
enclosing block.  A source that violates it is reported with exit code 3 (a broken
obligation, not a parse problem): recording early or late is what C16 forbids.

ERROR PROPAGATION (the interpreter's "stop at the first failure"): the Result of every
`write_register` / `read_register` must be consumed by `?` (or returned) at once; binding it,
discarding it or calling a method on it is reported with exit code 4 (what C15 forbids).

--api: the same executor on the API functions of src/lib.rs and the constructors (values that are
only data - bytes read, decoded results - are opaque; no bus traffic and no recorded configuration
may depend on them): guard and list of register-level accesses (`Plan`) of every function.
--transport: write_register / read_register of src/i2c.rs and src/spi.rs executed CONCRETELY under
every pattern of failing raw HAL operations (2^n runs): attempted operations and result per pattern.

Exit codes: 0 ok, 1 source outside the translatable subset (soft), 3 commit discipline,
4 error propagation.
"""
import re, sys, os, copy


class Unsupported(Exception):
    pass


class CommitError(Exception):
    pass


class HardUnsupported(Unsupported):
    """something the translator cannot read in a place where effects may hide: never left opaque"""
    pass


# ------------------------------------------------------------------ tokens

TOK = re.compile(r"""
    (?P<ws>\s+|//[^\n]*|/\*.*?\*/)
  | (?P<num>0x[0-9A-Fa-f_]+|0b[01_]+|\d[\d_]*\.\d+|\d[\d_]*(?:u8|u16|i16|usize|i32|u32)?)
  | (?P<str>"(?:[^"\\]|\\.)*")
  | (?P<life>'[a-z_]\w*(?!'))
  | (?P<id>[A-Za-z_]\w*)
  | (?P<op>::|->|=>|==|!=|&&|\|\||<<=|>>=|<=|>=|\+=|-=|&=|\|=|\^=|\*=|<<|>>|\.\.|[-+*/%^!&|=<>.,;:(){}\[\]?#@$])
""", re.X | re.S)


def tokenize(src):
    out = []
    i = 0
    while i < len(src):
        m = TOK.match(src, i)
        if not m:
            raise Unsupported('cannot tokenize at %r' % src[i:i + 30])
        i = m.end()
        if m.lastgroup == 'ws':
            continue
        out.append((m.lastgroup, m.group(m.lastgroup)))
    return out


# ------------------------------------------------------------------ parser

class P:
    def __init__(self, toks):
        self.t = toks
        self.i = 0
        self.no_struct = 0      # > 0 while parsing the condition of `if` / scrutinee of `match`

    def peek(self, k=0):
        return self.t[self.i + k][1] if self.i + k < len(self.t) else None

    def kind(self, k=0):
        return self.t[self.i + k][0] if self.i + k < len(self.t) else None

    def next(self):
        v = self.t[self.i][1]
        self.i += 1
        return v

    def eat(self, s):
        if self.peek() != s:
            raise Unsupported('expected %r, found %r (token %d)' % (s, self.peek(), self.i))
        self.i += 1

    def opt(self, s):
        if self.peek() == s:
            self.i += 1
            return True
        return False

    # --- skipping
    def skip_generics(self):
        """at `<`: skip to the matching `>` (`->` is one token, `>>` closes two)"""
        assert self.peek() == '<'
        d = 0
        while True:
            t = self.next()
            if t == '<':
                d += 1
            elif t == '>':
                d -= 1
            elif t == '>>':
                d -= 2
            if d <= 0:
                return

    def skip_type(self, stops):
        d = 0
        while True:
            t = self.peek()
            if t is None:
                raise Unsupported('eof in type')
            if d == 0 and t in stops:
                return
            if t in ('<', '(', '['):
                d += 1
            elif t in ('>', ')', ']'):
                d -= 1
            elif t == '>>':
                d -= 2
            self.i += 1

    def skip_vis(self):
        # after `pub`: optional `(crate)` / `(super)` / `(in path)`
        if self.peek() == '(':
            while self.next() != ')':
                pass

    def skip_attr(self):
        # `#[...]` or `#![...]`
        self.eat('#')
        self.opt('!')
        self.eat('[')
        d = 1
        while d:
            t = self.next()
            if t == '[':
                d += 1
            elif t == ']':
                d -= 1

    def skip_braced(self):
        self.eat('{')
        d = 1
        while d:
            t = self.next()
            if t == '{':
                d += 1
            elif t == '}':
                d -= 1

    # --- items
    def items(self, out, until=None):
        """collect struct / enum / impl / fn items; everything else is skipped"""
        while self.peek() is not None and self.peek() != until:
            t = self.peek()
            if t == '#':
                # `#[cfg(test)]`: the rest of the file is the test module
                j = self.i
                self.skip_attr()
                txt = ''.join(x[1] for x in self.t[j:self.i])
                if txt == '#[cfg(test)]':
                    return
                continue
            if t == 'pub':
                self.next()
                self.skip_vis()
                continue
            if t in ('const', 'unsafe', 'async') and self.peek(1) == 'fn':
                self.next()
                continue
            if t == 'struct':
                self.next()
                name = self.next()
                if self.peek() == '<':
                    self.skip_generics()
                if self.peek() == 'where':
                    self.skip_type(['{', ';'])
                fields = []
                if self.opt(';'):
                    pass
                elif self.peek() == '(':
                    self.skip_type([';'])
                    self.eat(';')
                else:
                    self.eat('{')
                    while not self.opt('}'):
                        if self.peek() == '#':
                            self.skip_attr()
                            continue
                        if self.peek() == 'pub':
                            self.next()
                            self.skip_vis()
                        f = self.next()
                        self.eat(':')
                        j = self.i
                        self.skip_type([',', '}'])
                        ty = [x[1] for x in self.t[j:self.i]]
                        self.opt(',')
                        fields.append((f, ty))
                out['struct'][name] = fields
                continue
            if t == 'enum':
                self.next()
                name = self.next()
                if self.peek() == '<':
                    self.skip_generics()
                if self.peek() == 'where':
                    self.skip_type(['{'])
                self.eat('{')
                vs = []
                while not self.opt('}'):
                    if self.peek() == '#':
                        self.skip_attr()
                        continue
                    v = self.next()
                    payload = None
                    if self.peek() == '(':
                        self.next()
                        j = self.i
                        self.skip_type([')'])
                        payload = [x[1] for x in self.t[j:self.i]]
                        self.eat(')')
                    if self.opt('='):
                        self.skip_type([',', '}'])
                    self.opt(',')
                    vs.append((v, payload))
                out['enum'][name] = vs
                continue
            if t == 'impl':
                self.next()
                if self.peek() == '<':
                    self.skip_generics()
                j = self.i
                self.skip_type(['{', 'where'])
                head = [x[1] for x in self.t[j:self.i]]
                if self.peek() == 'where':
                    self.skip_type(['{'])
                if 'for' in head:
                    self.skip_braced()
                    continue
                target = head[0]
                self.eat('{')
                sub = {'struct': {}, 'enum': {}, 'fn': {}, 'impl': {}}
                self.items(sub, until='}')
                self.eat('}')
                out['impl'].setdefault(target, {}).update(sub['fn'])
                out.setdefault('sigs', {}).setdefault(target, {}).update(sub.get('sig', {}))
                continue
            if t == 'fn':
                self.next()
                name = self.next()
                if self.peek() == '<':
                    self.skip_generics()
                self.eat('(')
                params = []
                ptypes = []
                while not self.opt(')'):
                    if self.peek() in ('&', 'mut'):
                        self.next()
                        continue
                    if self.kind() == 'life':
                        self.next()
                        continue
                    p = self.next()
                    ty = []
                    if self.opt(':'):
                        j = self.i
                        self.skip_type([',', ')'])
                        ty = [x[1] for x in self.t[j:self.i]]
                    self.opt(',')
                    params.append(p)
                    ptypes.append((p, ty))
                if self.opt('->'):
                    self.skip_type(['{', 'where', ';'])
                if self.peek() == 'where':
                    self.skip_type(['{', ';'])
                if self.opt(';'):
                    continue
                j = self.i
                self.skip_braced()
                out['fn'][name] = (params, self.t[j:self.i])
                out.setdefault('sig', {})[name] = ptypes
                continue
            if t in ('mod', 'use', 'macro_rules', 'const', 'type', 'static', 'trait', 'extern'):
                # skip to `;` or over a braced body
                while self.peek() not in (';', '{', None):
                    self.next()
                if self.peek() == '{':
                    self.skip_braced()
                else:
                    self.opt(';')
                continue
            if self.kind() == 'id' and self.peek(1) == '!' and self.peek(2) == '{':
                # item-level macro invocation (bitflags! { .. }, cfg_register! { .. })
                self.next()
                self.next()
                self.skip_braced()
                continue
            # anything else (doc attributes are comments already): skip a token
            self.next()

    # --- blocks and expressions -> AST tuples
    def block(self):
        self.eat('{')
        stmts = []
        while not self.opt('}'):
            if self.opt(';'):
                continue
            if self.peek() == 'let':
                self.next()
                self.opt('mut')
                pat = self.pattern()
                if self.opt(':'):
                    self.skip_type(['=', ';'])
                if self.opt(';'):
                    stmts.append(('let', pat, None))
                    continue
                self.eat('=')
                e = self.expr()
                self.eat(';')
                stmts.append(('let', pat, e))
                continue
            if self.peek() == 'return':
                self.next()
                e = None if self.peek() == ';' else self.expr()
                self.opt(';')
                stmts.append(('return', e))
                continue
            if self.peek() == 'while':
                self.next()
                self.no_struct += 1
                c = self.expr()
                self.no_struct -= 1
                stmts.append(('while', c, self.block()))
                continue
            e = self.expr()
            if self.opt('='):
                r = self.expr()
                self.opt(';')
                stmts.append(('assign', e, r))
                continue
            if self.peek() in ('+=', '-=', '&=', '|=', '^=', '*=', '<<=', '>>='):
                op = self.next()[:-1]
                r = self.expr()
                self.opt(';')
                stmts.append(('assign', e, ('bin', op, e, r)))
                continue
            if self.opt(';'):
                stmts.append(('expr', e))
            elif self.peek() == '}':
                stmts.append(('tail', e))
            elif e[0] in ('if', 'match', 'block'):
                stmts.append(('expr', e))
            else:
                raise Unsupported('statement not understood near token %d (%r)' % (self.i, self.peek()))
        return ('block', stmts)

    def pattern(self):
        t = self.peek()
        if t == '&':
            self.next()
            self.opt('mut')
            return self.pattern()
        if t == '_':
            self.next()
            return ('wild',)
        if t == '(':
            self.next()
            ps = []
            while not self.opt(')'):
                ps.append(self.pattern())
                self.opt(',')
            return ('ptuple', ps)
        if t in ('true', 'false'):
            self.next()
            return ('plit', t)
        if self.kind() == 'num':
            return ('plit', self.next())
        if self.kind() == 'id':
            path = [self.next()]
            while self.opt('::'):
                path.append(self.next())
            if self.peek() == '(':
                self.next()
                ps = []
                while not self.opt(')'):
                    ps.append(self.pattern())
                    self.opt(',')
                return ('pvariant', path, ps)
            if len(path) == 1 and path[0][0].islower():
                return ('bind', path[0])
            return ('pvariant', path, None)
        raise Unsupported('pattern not understood: %r' % t)

    PREC = {'||': 1, '&&': 2, '==': 3, '!=': 3, '<': 3, '>': 3, '<=': 3, '>=': 3, '|': 4, '^': 5, '&': 6, '<<': 7, '>>': 7, '+': 8, '-': 8, '*': 9, '/': 9}

    def expr(self, minp=1):
        lhs = self.unary()
        if self.peek() == '..' and minp <= 1 and lhs[0] != 'range':
            self.next()
            hi = None if self.peek() in (']', ')', ',', ';') else self.expr(2)
            return ('range', lhs, hi)
        while True:
            op = self.peek()
            p = self.PREC.get(op)
            if p is None or p < minp:
                return lhs
            self.next()
            rhs = self.expr(p + 1)
            lhs = ('bin', op, lhs, rhs)
            if self.peek() == '..' and minp <= 1:
                self.next()
                hi = None if self.peek() in (']', ')', ',', ';') else self.expr(2)
                lhs = ('range', lhs, hi)
            while self.peek() == 'as':
                self.next()
                self.skip_type([',', ')', ';', '}', ']', '||', '&&', '==', '!=', '+', '-', '*', '/', '|', '&', '^', '<<', '>>', '?', '.', '{'])
                lhs = ('cast', lhs)

    def unary(self):
        t = self.peek()
        if t == '..':
            self.next()
            hi = None if self.peek() in (']', ')', ',', ';') else self.expr(2)
            return ('range', None, hi)
        if t == '!':
            self.next()
            return ('not', self.unary())
        if t == '&':
            self.next()
            self.opt('mut')
            return self.unary()
        if t == '*':
            self.next()
            return self.unary()
        e = self.postfix(self.primary())
        while self.peek() == 'as':
            self.next()
            self.skip_type([',', ')', ';', '}', ']', '||', '&&', '==', '!=', '+', '-', '*', '/', '|', '&', '^', '<<', '>>', '?', '.', '{', '<', '>'])
            e = ('cast', e)
        return e

    def postfix(self, e):
        while True:
            if self.peek() == '[':
                self.next()
                i = self.expr()
                self.eat(']')
                e = ('index', e, i)
                continue
            if self.peek() == '.':
                self.next()
                name = self.next()
                if self.peek() == '(':
                    e = ('mcall', e, name, self.args())
                else:
                    e = ('field', e, name)
            elif self.peek() == '?':
                self.next()
                e = ('try', e)
            else:
                return e

    def args(self):
        self.eat('(')
        a = []
        while not self.opt(')'):
            a.append(self.expr())
            self.opt(',')
        return a

    def primary(self):
        t = self.peek()
        k = self.kind()
        if t == '(':
            self.next()
            es = []
            trailing = False
            saved, self.no_struct = self.no_struct, 0
            while not self.opt(')'):
                es.append(self.expr())
                trailing = self.opt(',')
            self.no_struct = saved
            if len(es) == 1 and not trailing:
                return es[0]
            return ('tuple', es)
        if t == '{':
            return self.block()
        if t == '[':
            self.next()
            first = self.expr()
            if self.opt(';'):
                n = self.expr()
                self.eat(']')
                return ('arrayrep', first, n)
            es = [first]
            while self.opt(','):
                if self.peek() == ']':
                    break
                es.append(self.expr())
            self.eat(']')
            return ('array', es)
        if t == 'if':
            self.next()
            self.no_struct += 1
            c = self.expr()
            self.no_struct -= 1
            th = self.block()
            el = None
            if self.opt('else'):
                el = ('block', [('tail', self.primary())]) if self.peek() == 'if' else self.block()
            return ('if', c, th, el)
        if t == 'match':
            self.next()
            self.no_struct += 1
            scrut = self.expr()
            self.no_struct -= 1
            self.eat('{')
            arms = []
            while not self.opt('}'):
                pats = [self.pattern()]
                while self.opt('|'):
                    pats.append(self.pattern())
                self.eat('=>')
                body = self.expr()
                if self.opt('='):
                    # `pat => place = value,` : an assignment as the arm's body
                    body = ('block', [('assign', body, self.expr())])
                self.opt(',')
                arms.append((pats, body))
            return ('match', scrut, arms)
        if k == 'num':
            return ('num', self.next())
        if t in ('true', 'false'):
            self.next()
            return ('lit', t)
        if t == '|' or t == '||':
            # closure: |params| body
            if self.next() == '|':
                while self.next() != '|':
                    pass
            return ('closure', self.expr())
        if k == 'id':
            path = [self.next()]
            while self.peek() == '::':
                self.next()
                if self.peek() == '<':
                    self.skip_generics()
                    continue
                path.append(self.next())
            if self.peek() == '!':
                self.next()
                if path == ['matches']:
                    self.eat('(')
                    e = self.expr()
                    self.eat(',')
                    pats = [self.pattern()]
                    while self.opt('|'):
                        pats.append(self.pattern())
                    self.eat(')')
                    return ('matches', e, pats)
                raise Unsupported('macro %s!' % path[0])
            if self.peek() == '(':
                return ('call', path, self.args())
            if self.peek() == '{' and not self.no_struct and path[-1][0].isupper() and self.kind(1) == 'id' and self.peek(2) in (',', ':', '}'):
                self.next()
                fields = []
                while not self.opt('}'):
                    f = self.next()
                    v = self.expr() if self.opt(':') else ('path', [f])
                    self.opt(',')
                    fields.append((f, v))
                return ('structlit', path, fields)
            return ('path', path)
        raise Unsupported('expression not understood at token %d: %r' % (self.i, t))


# ------------------------------------------------------------------ values

class Byte:   # a register value (bitflags type `ty`), `e` : Lean term of type Byte
    def __init__(self, ty, e):
        self.ty, self.e = ty, e


class U8:
    def __init__(self, e):
        self.e = e


class Bool:
    def __init__(self, e):
        self.e = e


class Enum:   # plain enum value: tree = ('c', variant) | ('s', lean) | ('ite', cond, t, e)
    def __init__(self, ty, tree):
        self.ty, self.tree = ty, tree


class Tup:
    def __init__(self, items):
        self.items = items


class Ref:    # reference to a configuration struct living in the store
    def __init__(self, ty, path):
        self.ty, self.path = ty, path


class Var:    # data-carrying enum value
    def __init__(self, ty, variant, payload):
        self.ty, self.variant, self.payload = ty, variant, payload


class Iface:
    pass


class Res:
    def __init__(self, kind, payload=None):
        self.kind, self.payload = kind, payload


class Unit:
    pass


class CondRes:     # `if c { Err(e) } else { Ok(..) }` as a value: a if c else b, both Res
    def __init__(self, c, a, b):
        self.c, self.a, self.b = c, a, b


class Opaque:      # a value the plan does not depend on (decoded results, arithmetic on data bytes)
    pass


class Arr:         # a byte buffer of known (Lean term) length; `empty`: True / False if known
    def __init__(self, n, empty=None):
        self.n = n
        self.empty = empty


class Num:         # a length (Lean term of type Nat)
    def __init__(self, e):
        self.e = e


class RegName:     # a read-only register named in a read_register call
    def __init__(self, name, addr):
        self.name, self.addr = name, addr


class Timer:
    pass


class ConfigDefault:
    pass


class PropagationError(Exception):
    pass


class Hal:         # an embedded-hal peripheral owned by a transport: 'spi' | 'csb' | 'i2c'
    def __init__(self, kind):
        self.kind = kind


class HalRes:      # the Result of one raw HAL operation under the fault vector being explored
    def __init__(self, failed, kind, k):
        self.failed, self.kind, self.k = failed, kind, k


class RegParam:    # the `register` parameter of write_register / read_register
    pass


class EarlyRet(Exception):
    def __init__(self, v):
        self.v = v


def b_not(e):
    if e == 'true':
        return 'false'
    if e == 'false':
        return 'true'
    if e.startswith('!') and balanced_atom(e[1:]):
        return e[1:]
    return '!' + paren(e)


def balanced_atom(s):
    if re.fullmatch(r'[\w.]+', s):
        return True
    if not (s.startswith('(') and s.endswith(')')):
        return False
    d = 0
    for i, ch in enumerate(s):
        if ch == '(':
            d += 1
        elif ch == ')':
            d -= 1
            if d == 0 and i != len(s) - 1:
                return False
    return True


def paren(e):
    return e if balanced_atom(e) else '(' + e + ')'


def b_and(a, b):
    if a == 'false' or b == 'false':
        return 'false'
    if a == 'true':
        return b
    if b == 'true':
        return a
    return '(%s && %s)' % (a, b)


def b_or(a, b):
    if a == 'true' or b == 'true':
        return 'true'
    if a == 'false':
        return b
    if b == 'false':
        return a
    return '(%s || %s)' % (a, b)


def ite(c, a, b):
    if c == 'true':
        return a
    if c == 'false':
        return b
    if a == b:
        return a
    return '(if %s then %s else %s)' % (c, a, b)


def b_ite(c, a, b):
    if a == b:
        return a
    if a == 'true' and b == 'false':
        return c
    if a == 'false' and b == 'true':
        return b_not(c)
    if a == 'true':
        return b_or(c, b)
    if b == 'false':
        return b_and(c, a)
    if a == 'false':
        return b_and(b_not(c), b)
    if b == 'true':
        return b_or(b_not(c), a)
    return ite(c, a, b)


# ------------------------------------------------------------------ the interpreter

class Interp:
    def __init__(self, items, regaddr, maps):
        self.items = items
        self.regaddr = regaddr          # register type -> address
        self.maps = maps
        self.store = {}
        self.writes = []                # (guard, addr, value)
        self.guards = []
        self.pending = None             # (addr, value, where) of the last write, not yet checked as recorded
        self.chain = []                 # early returns of the top-level function: (cond, result, n_writes)
        self.depth = 0
        self.lets = []                  # (name, Lean term) of merged register values, in order
        self.hal = None                 # transport mode: the fault vector (list of bools) being explored
        self.hal_ops = []
        self.api = False                # lib.rs mode: values the plan does not depend on may be opaque
        self.acts = []                  # (guard, Lean term of the Act) in api mode
        self.readregs = {}
        self.regdefault = {}
        self.reset_since = False
        self.last_write = None          # index into acts of the last write whose effect is still open

    # ---- store
    def struct_ref(self, ty, path, leaf):
        """allocate the struct `ty` at `path`; `leaf(regty, addr)` gives the initial leaf"""
        for f, fty in self.items['struct'][ty]:
            t = fty[-1] if fty else None
            if t in self.regaddr:
                self.store[path + (f,)] = Byte(t, leaf(t, self.regaddr[t]))
            elif t in self.items['struct']:
                self.struct_ref(t, path + (f,), leaf)
            else:
                raise Unsupported('field %s.%s of unknown type %s' % (ty, f, t))
        return Ref(ty, path)

    def get_field(self, ref, f):
        for fn, fty in self.items['struct'].get(ref.ty, []):
            if fn == f:
                t = fty[-1]
                if t in self.items['struct'] and (ref.path + (f,)) not in self.store:
                    return Ref(t, ref.path + (f,))
                return self.store[ref.path + (f,)]
        raise Unsupported('no field %s in %s' % (f, ref.ty))

    def guard(self):
        g = 'true'
        for x in self.guards:
            g = b_and(g, x)
        return g

    # ---- commit discipline
    def check_pending(self, where):
        if self.pending is None:
            return
        addr, val, path = self.pending
        cur = self.store.get(path)
        if cur is None or not isinstance(cur, Byte) or cur.e != val:
            raise CommitError('the write of %s to register 0x%02X is not recorded in the configuration before %s '
                              '(recorded there: %s)' % (val, addr, where, cur.e if isinstance(cur, Byte) else cur))
        self.pending = None

    def lean_byte(self, e, env):
        """a byte expression of a transport function -> Lean term"""
        k = e[0]
        if k == 'num':
            return lean_num(e[1])
        if k == 'cast':
            return self.lean_byte(e[1], env)
        if k == 'mcall' and not e[3]:
            r = self.eval(e[1], env)
            if isinstance(r, RegParam) and e[2] == 'addr':
                return 'BitVec.ofNat 8 a'
            if isinstance(r, RegParam) and e[2] == 'to_byte':
                return 'v'
        if k == 'bin' and e[1] in ('|', '&', '^'):
            return '(%s %s %s)' % (self.lean_byte(e[2], env), {'|': '|||', '&': '&&&', '^': '^^^'}[e[1]], self.lean_byte(e[3], env))
        if k == 'bin' and e[1] == '<<' and e[2][0] == 'num' and e[3][0] == 'num':
            return '0x%02X#8' % ((int(e[2][1], 0) << int(e[3][1], 0)) & 0xFF)
        if k == 'path' and len(e[1]) == 1 and isinstance(env.get(e[1][0]), U8):
            return env[e[1][0]].e
        raise Unsupported('byte expression of a transport function')

    def lean_bytes(self, e, env):
        """a byte slice argument -> (Lean list term, length term)"""
        if e[0] == 'array':
            return '[' + ', '.join(self.lean_byte(x, env) for x in e[1]) + ']', str(len(e[1]))
        v = self.eval(e, env)
        if isinstance(v, Arr):
            return 'List.replicate %s 0#8' % v.n, v.n
        raise Unsupported('byte slice argument of a HAL operation')

    def hal_op(self, dev, name, args, env):
        if self.hal is None:
            raise Unsupported('HAL operation outside the transport translation')
        if dev.kind == 'csb' and name in ('set_low', 'set_high') and not args:
            raw = '.csLow' if name == 'set_low' else '.csHigh'
        elif dev.kind == 'spi' and name in ('write', 'transfer') and len(args) == 1:
            raw = '.%s (%s)' % ('spiWrite' if name == 'write' else 'spiTransfer', self.lean_bytes(args[0], env)[0])
        elif dev.kind == 'i2c' and name == 'write' and len(args) == 2 and args[0] == ('path', ['ADDR']):
            raw = '.i2cWrite dev (%s)' % self.lean_bytes(args[1], env)[0]
        elif dev.kind == 'i2c' and name == 'write_read' and len(args) == 3 and args[0] == ('path', ['ADDR']):
            raw = '.i2cWriteRead dev (%s) (%s)' % (self.lean_bytes(args[1], env)[0], self.lean_bytes(args[2], env)[1])
        else:
            raise HardUnsupported('HAL operation %s.%s' % (dev.kind, name))
        k = len(self.hal_ops)
        self.hal_ops.append(raw)
        failed = self.hal[k] if k < len(self.hal) else False
        return HalRes(failed, None, k)

    def close_write(self, where):
        """settle the effect of the last write on the recorded configuration before `where`"""
        self.check_pending(where)
        if self.last_write is not None:
            self.acts[self.last_write][2] = '.reset' if self.reset_since else '.none'
            self.last_write = None
        elif self.reset_since:
            raise CommitError('the recorded configuration is replaced by the defaults at a point that is not right after '
                              'an acknowledged command write (before %s)' % where)
        self.reset_since = False

    def shadow_path_of(self, ty):
        """the path inside the device configuration of the (unique) leaf of register type ty"""
        hits = [p for p, v in self.store.items() if p[0] == 'dev' and isinstance(v, Byte) and v.ty == ty]
        # (a value of type ty temporarily stored elsewhere does not matter: leaves keep their type)
        hits = [p for p in hits if self.leaf_type(p) == ty]
        if len(hits) != 1:
            raise Unsupported('register type %s is recorded at %d places' % (ty, len(hits)))
        return hits[0]

    def leaf_type(self, path):
        ty = 'Config'
        for f in path[1:]:
            for fn, fty in self.items['struct'][ty]:
                if fn == f:
                    ty = fty[-1]
                    break
        return ty

    # ---- evaluation
    def run_fn(self, owner, name, selfv, args):
        fns = self.items['impl'].get(owner, {}) if owner else self.items['fn']
        if name not in fns:
            raise Unsupported('no method %s::%s' % (owner, name))
        params, toks = fns[name]
        p = P(toks)
        body = p.block()
        env = {}
        ps = list(params)
        if ps and ps[0] == 'self':
            env['self'] = selfv
            ps = ps[1:]
        if len(ps) != len(args):
            raise Unsupported('arity of %s::%s' % (owner, name))
        for k, v in zip(ps, args):
            env[k] = v
        n_before = len(self.acts) + len(self.writes) + len(self.hal_ops)
        self.depth += 1
        try:
            r = self.exec_block(body, env, top=False)
        finally:
            self.depth -= 1
        if isinstance(r, tuple) and r and r[0] == 'ret':
            r = r[1]
        if len(self.acts) + len(self.writes) + len(self.hal_ops) != n_before and isinstance(r, Res) and r.kind == 'ok':
            # it contains `?` on bus operations: its own Result carries their failures
            r = Res('bus', r.payload)
        return r

    def exec_block(self, blk, env, top):
        """-> value of the block, or ('ret', value) if it returned"""
        val = Unit()
        stmts = blk[1]
        for idx, st in enumerate(stmts):
            k = st[0]
            if k == 'while' or (k == 'let' and st[2] is None):
                raise HardUnsupported('loop / deferred initialisation')
            if k == 'let':
                v = self.eval(st[2], env)
                if isinstance(v, Res) and v.kind == 'bus':
                    raise PropagationError('the result of a bus operation is bound to a variable instead of being propagated with `?`')
                self.bind(st[1], v, env)
            elif k == 'assign':
                v = self.eval(st[2], env)
                self.assign(st[1], v, env)
            elif k == 'return':
                v = self.eval(st[1], env) if st[1] is not None else Unit()
                return ('ret', v)
            elif k in ('expr', 'tail'):
                e = st[1]
                if top and e[0] == 'if' and e[3] is None and self.is_return_block(e[2]) and not self.guards:
                    # `if c { return X; }` at the top level of write(): an arm of the result chain
                    self.check_pending('the early return')
                    c = self.eval(e[1], env)
                    if not isinstance(c, Bool):
                        raise Unsupported('condition is not a bool')
                    snap = self.snapshot(env)
                    nw = len(self.writes)
                    r = self.exec_block(e[2], env, top=False)
                    if len(self.writes) != nw:
                        raise Unsupported('bus write inside an early-return block')
                    self.restore(snap, env)
                    self.chain.append((c.e, r[1], len(self.writes), len(self.acts)))
                    continue
                v = self.eval(e, env)
                if isinstance(v, tuple) and v and v[0] == 'ret':
                    if self.guards:
                        raise Unsupported('return inside a conditional')
                    return v
                if k == 'expr' and isinstance(v, Res) and v.kind == 'bus':
                    raise PropagationError('the result of a bus operation is discarded')
                if k == 'tail':
                    val = v
            else:
                raise Unsupported('statement ' + k)
        return val

    @staticmethod
    def is_return_block(blk):
        return blk[0] == 'block' and len(blk[1]) >= 1 and blk[1][-1][0] == 'return'

    def snapshot(self, env):
        return (dict(self.store), dict(env), self.pending)

    def restore(self, snap, env):
        self.store = dict(snap[0])
        env.clear()
        env.update(snap[1])
        self.pending = snap[2]

    def bind(self, pat, v, env):
        if pat[0] == 'bind':
            env[pat[1]] = v
        elif pat[0] == 'wild':
            pass
        elif pat[0] == 'ptuple':
            if not isinstance(v, Tup) or len(v.items) != len(pat[1]):
                raise Unsupported('tuple pattern')
            for p, x in zip(pat[1], v.items):
                self.bind(p, x, env)
        else:
            raise Unsupported('let pattern')

    def lvalue(self, e, env):
        """-> ('env', name) | ('store', path)"""
        if e[0] == 'path' and len(e[1]) == 1:
            return ('env', e[1][0])
        if e[0] == 'field':
            base = self.eval(e[1], env)
            if isinstance(base, Ref):
                return ('store', base.path + (e[2],))
        raise HardUnsupported('assignment target')

    def assign(self, target, v, env):
        if isinstance(v, ConfigDefault):
            base = self.eval(target, env)
            if not (isinstance(base, Ref) and base.ty == 'Config' and base.path[0] == 'dev'):
                raise Unsupported('Config::default() assigned to something else than the recorded configuration')
            for pth, x in list(self.store.items()):
                if pth[0] == 'dev' and isinstance(x, Byte):
                    self.store[pth] = Byte(x.ty, 'shadowDefault 0x%02X' % self.regaddr[self.leaf_type(pth)])
            self.reset_since = True
            return
        lv = self.lvalue(target, env)
        if lv[0] == 'env':
            if lv[1] not in env:
                raise Unsupported('assignment to unknown local ' + lv[1])
            old = env[lv[1]]
            if isinstance(old, (Ref, Iface, Hal, Timer, Var)) and type(v) is not type(old):
                raise HardUnsupported('%s is overwritten with a value the translator cannot follow' % lv[1])
            env[lv[1]] = v
        else:
            if lv[1] not in self.store:
                raise Unsupported('assignment to a non-leaf')
            old = self.store[lv[1]]
            if not isinstance(v, Byte) or v.ty != old.ty:
                raise HardUnsupported('a configuration leaf is assigned a value the translator cannot follow')
            self.store[lv[1]] = v

    def merge(self, c, sa, ea, pa, sb, eb, pb, env):
        """state after `if c {A} else {B}`"""
        st = {}
        for k in set(sa) | set(sb):
            if k in sa and k in sb:
                st[k] = self.merge_val(c, sa[k], sb[k])
        self.store = st
        env.clear()
        for k in ea:
            if k in eb:
                env[k] = self.merge_val(c, ea[k], eb[k])
        if pa is not None or pb is not None:
            raise CommitError('a write is still unrecorded at the end of a conditional block')
        self.pending = None

    def merge_val(self, c, a, b):
        if a is b:
            return a
        if isinstance(a, Byte) and isinstance(b, Byte) and a.ty == b.ty:
            e = ite(c, a.e, b.e)
            if e not in (a.e, b.e):
                # a merged register value gets a name (SSA): nested conditionals stay linear in size
                name = 't%d' % (len(self.lets) + 1)
                self.lets.append((name, e[1:-1]))
                e = name
            return Byte(a.ty, e)
        if isinstance(a, U8) and isinstance(b, U8):
            return U8(ite(c, a.e, b.e))
        if isinstance(a, Bool) and isinstance(b, Bool):
            return Bool(b_ite(c, a.e, b.e))
        if isinstance(a, Enum) and isinstance(b, Enum) and a.ty == b.ty:
            return Enum(a.ty, a.tree if a.tree == b.tree else ('ite', c, a.tree, b.tree))
        if isinstance(a, Tup) and isinstance(b, Tup) and len(a.items) == len(b.items):
            return Tup([self.merge_val(c, x, y) for x, y in zip(a.items, b.items)])
        if isinstance(a, Ref) and isinstance(b, Ref) and a.path == b.path:
            return a
        if isinstance(a, Unit) and isinstance(b, Unit):
            return a
        if isinstance(a, Res) and isinstance(b, Res) and 'err' in (a.kind, b.kind) and 'bus' not in (a.kind, b.kind):
            return CondRes(c, a, b)
        if self.api and (isinstance(a, (Opaque, Unit)) and isinstance(b, (Opaque, Unit))):
            return Opaque()
        if self.api and isinstance(a, (Opaque, Res, Unit)) and isinstance(b, (Opaque, Res, Unit)) and \
                not any(isinstance(x, Res) and x.kind in ('err', 'bus') for x in (a, b)):
            return Opaque()
        if isinstance(a, Iface) and isinstance(b, Iface):
            return a
        if isinstance(a, Var) and isinstance(b, Var) and a.variant == b.variant:
            return a
        if isinstance(a, Res) and isinstance(b, Res) and a.kind == b.kind == 'ok':
            return a
        raise Unsupported('cannot merge values of the two branches of a conditional')

    def eval_if(self, e, env):
        c = self.eval(e[1], env)
        if self.api and isinstance(c, Opaque):
            # the plan must not depend on it: both branches are run and must be free of effects
            n_acts = len(self.acts) + len(self.hal_ops)
            snap = self.snapshot(env)
            try:
                r1 = self.exec_block(e[2], env, False)
                r2 = None
                if e[3]:
                    self.restore(snap, env)
                    r2 = self.exec_block(e[3], env, False)
            except EarlyRet:
                raise HardUnsupported('an early return depends on data read from the device / on the register accessed')
            if any(isinstance(r, tuple) and r and r[0] == 'ret' for r in (r1, r2)):
                raise HardUnsupported('an early return depends on data read from the device / on the register accessed')
            if len(self.acts) + len(self.hal_ops) != n_acts or self.changed(snap, env):
                raise Unsupported('bus traffic or recorded configuration depends on data read from the device')
            self.restore(snap, env)
            return Opaque()
        if not isinstance(c, Bool):
            raise Unsupported('condition is not a bool')
        if c.e == 'true':
            return self.exec_block(e[2], env, False)
        if c.e == 'false':
            return self.exec_block(e[3], env, False) if e[3] else Unit()
        self.check_pending('a conditional')
        snap = self.snapshot(env)
        self.guards.append(c.e)
        ra = self.exec_block(e[2], env, False)
        self.check_pending('the end of the conditional block')
        self.guards.pop()
        sa, ea, pa = self.snapshot(env)
        self.restore(snap, env)
        rb = Unit()
        if e[3]:
            self.guards.append(b_not(c.e))
            rb = self.exec_block(e[3], env, False)
            self.check_pending('the end of the conditional block')
            self.guards.pop()
        sb, eb, pb = self.snapshot(env)
        for r in (ra, rb):
            if isinstance(r, tuple) and r and r[0] == 'ret':
                raise Unsupported('return inside a conditional')
        self.merge(c.e, sa, ea, pa, sb, eb, pb, env)
        return self.merge_val(c.e, ra, rb)

    def match_pat(self, pat, v, env):
        """-> Bool condition lean string under which pat matches v (binding into env)"""
        k = pat[0]
        if k == 'wild':
            return 'true'
        if k == 'bind':
            env[pat[1]] = v
            return 'true'
        if k == 'plit':
            if isinstance(v, Bool) and pat[1] in ('true', 'false'):
                return v.e if pat[1] == 'true' else b_not(v.e)
            raise Unsupported('literal pattern')
        if k == 'ptuple':
            if not isinstance(v, Tup) or len(v.items) != len(pat[1]):
                raise Unsupported('tuple pattern')
            c = 'true'
            for p, x in zip(pat[1], v.items):
                c = b_and(c, self.match_pat(p, x, env))
            return c
        if k == 'pvariant':
            name = pat[1][-1]
            if isinstance(v, Var):
                if v.variant != name:
                    return 'false'
                if pat[2]:
                    if len(pat[2]) != 1:
                        raise Unsupported('variant payload pattern')
                    return self.match_pat(pat[2][0], v.payload, env)
                return 'true'
            if isinstance(v, Enum):
                return self.enum_is(v.ty, v.tree, name)
            raise Unsupported('variant pattern on %s' % type(v).__name__)
        raise Unsupported('pattern ' + k)

    def enum_is(self, ty, tree, variant):
        if tree[0] == 'c':
            return 'true' if tree[1] == variant else 'false'
        if tree[0] == 's':
            return '(%s == %s)' % (tree[1], self.lean_variant(ty, variant))
        return b_ite(tree[1], self.enum_is(ty, tree[2], variant), self.enum_is(ty, tree[3], variant))

    def lean_variant(self, ty, variant):
        m = self.maps['enums'].get(ty)
        if not m or variant not in m[1]:
            raise Unsupported('enum variant %s::%s has no Lean counterpart' % (ty, variant))
        return '%s.%s' % (m[0], m[1][variant])

    def eval_match(self, e, env):
        v = self.eval(e[1], env)
        remaining = 'true'
        result = None
        first = True
        for pats, body in e[2]:
            env2 = dict(env)
            c = 'false'
            for p in pats:
                c = b_or(c, self.match_pat(p, v, env2))
            c_here = b_and(remaining, c)
            if c_here == 'false':
                continue
            if c == 'true' or b_and(remaining, b_not(c)) == 'false':
                # statically the (last reachable) arm
                if remaining != 'true' and result is not None:
                    # symbolic chain: this is the else-branch
                    r = self.eval_arm(body, env2, env, None)
                    result = self.merge_val_chain(result, r)
                    return self.finish_chain(result)
                r = self.eval_arm(body, env2, env, None)
                if result is None:
                    return r
                result = self.merge_val_chain(result, r)
                return self.finish_chain(result)
            # symbolic arm: only pure arms are supported (no writes, no state change)
            nw = len(self.writes)
            snap = self.snapshot(env)
            r = self.eval_arm(body, env2, env, c_here)
            if len(self.writes) != nw or self.changed(snap, env):
                raise Unsupported('match on a symbolic value with effects in its arms')
            result = (result or []) + [(c, r)]
            remaining = b_and(remaining, b_not(c))
        if result is None:
            raise Unsupported('match without a reachable arm')
        # no statically-last arm: the last symbolic arm serves as the default
        last = result.pop()
        result.append(('else', last[1]))
        return self.finish_chain(result)

    def eval_arm(self, body, env2, env, cond):
        r = self.eval(body, env2)
        # propagate assignments to outer locals
        for k in env:
            if k in env2:
                env[k] = env2[k]
        return r

    def changed(self, snap, env):
        if set(snap[0]) != set(self.store) or any(snap[0][k] is not self.store[k] for k in snap[0]):
            return True
        return False

    def merge_val_chain(self, chain, last):
        return chain + [('else', last)]

    def finish_chain(self, chain):
        assert chain[-1][0] == 'else'
        acc = chain[-1][1]
        for c, r in reversed(chain[:-1]):
            acc = self.merge_val(c, r, acc)
        return acc

    def eval(self, e, env):
        if not self.api:
            return self.eval_strict(e, env)
        n_acts, n_w = len(self.acts), len(self.writes)
        snap = (dict(self.store), dict(env))
        try:
            return self.eval_strict(e, env)
        except HardUnsupported:
            raise
        except Unsupported:
            # only an expression that is certainly free of effects may be left opaque: no bus or timer
            # call, no call of a function defined in the crate, no assignment anywhere inside it
            if len(self.acts) != n_acts or len(self.writes) != n_w or self.risky(e):
                raise
            self.store = snap[0]
            env.clear()
            env.update(snap[1])
            return Opaque()

    def known_fns(self):
        if not hasattr(self, '_known'):
            k = {'read_register', 'write_register', 'delay_ms', 'write', 'transfer', 'write_read', 'set_low', 'set_high'}
            k.update(self.items['fn'].keys())
            for fns in self.items['impl'].values():
                k.update(fns.keys())
            # accessors of the configuration structs are interpreted, never skipped; constructors of data are harmless
            self._known = k - {'new', 'default', 'from', 'into', 'clone'}
        return self._known

    def risky(self, e):
        if not isinstance(e, tuple) or not e:
            return False
        k = e[0]
        if k in ('assign', 'return', 'let') and k != 'let':
            return True
        if k == 'mcall' and e[2] in self.known_fns():
            return True
        if k == 'call' and e[1][-1] in self.known_fns():
            return True
        for sub in e[1:]:
            if isinstance(sub, tuple) and self.risky(sub):
                return True
            if isinstance(sub, list):
                for x in sub:
                    if isinstance(x, tuple) and (self.risky(x) or any(isinstance(y, tuple) and self.risky(y) for y in x)):
                        return True
                    if isinstance(x, list) and any(isinstance(y, tuple) and self.risky(y) for y in x):
                        return True
        return False

    def eval_strict(self, e, env):
        k = e[0]
        if k == 'index' and e[2][0] == 'range':
            base = self.eval(e[1], env)
            lo = self.eval(e[2][1], env) if e[2][1] is not None else None
            hi = self.eval(e[2][2], env) if e[2][2] is not None else None
            if isinstance(base, Arr):
                def nat(v):
                    if isinstance(v, Num):
                        return v.e
                    if isinstance(v, U8):
                        return str(int(v.e[2:4], 16)) if v.e.startswith('0x') else None
                    return None
                lo_t = '0' if lo is None else nat(lo)
                hi_t = base.n if hi is None else nat(hi)
                if lo_t is None or hi_t is None:
                    raise HardUnsupported('slice bounds')
                if lo_t == '0':
                    return Arr('(min %s %s)' % (hi_t, base.n) if hi is not None else base.n)
                return Arr('(min %s %s - %s)' % (hi_t, base.n, lo_t))
            raise HardUnsupported('slice of something that is not a buffer')
        if k in ('index', 'cast', 'array'):
            for sub in (e[1:] if k != 'array' else e[1]):
                if isinstance(sub, tuple):
                    self.eval(sub, env)
            return Opaque()
        if k == 'arrayrep':
            n = self.eval(e[2], env)
            if isinstance(n, U8):
                return Arr(str(int(n.e[2:4], 16)))
            raise Unsupported('array length')
        if k == 'structlit':
            for _, v in e[2]:
                self.eval(v, env)
            if e[1][-1] in ('I2CInterface', 'SPIInterface'):
                return Iface()
            return Opaque()
        if k == 'block':
            env2 = dict(env)
            r = self.exec_block(e, env2, False)
            for n in env:
                env[n] = env2[n]
            return r
        if k == 'if':
            return self.eval_if(e, env)
        if k == 'match':
            return self.eval_match(e, env)
        if k == 'lit':
            return Bool(e[1])
        if k == 'num':
            if '.' in e[1]:
                return Opaque()
            return U8(lean_num(e[1]))
        if k == 'tuple':
            return Tup([self.eval(x, env) for x in e[1]])
        if k == 'not':
            v = self.eval(e[1], env)
            if isinstance(v, Bool):
                return Bool(b_not(v.e))
            raise Unsupported('`!` on a non-bool')
        if k == 'bin':
            return self.eval_bin(e, env)
        if k == 'matches':
            v = self.eval(e[1], env)
            c = 'false'
            for p in e[2]:
                c = b_or(c, self.match_pat(p, v, dict(env)))
            return Bool(c)
        if k == 'path':
            p = e[1]
            if len(p) == 1:
                if p[0] in env:
                    return env[p[0]]
                if p[0] in self.readregs:
                    return RegName(p[0], self.readregs[p[0]])
                raise Unsupported('unknown name ' + p[0])
            if len(p) == 2 and p[0] == 'Command':
                return Enum('Command', ('c', p[1]))
            if len(p) == 2 and (p[0], p[1]) in self.maps.get('masks', {}):
                return Byte(p[0], '0x%02X#8' % self.maps['masks'][(p[0], p[1])])
            if len(p) == 2 and p[0] in self.items['enum']:
                return Enum(p[0], ('c', p[1]))
            if len(p) == 2 and p[0] in self.maps['enums']:
                return Enum(p[0], ('c', p[1]))
            if len(p) >= 2 and p[-2] == 'ConfigError':
                return Enum('ConfigError', ('c', p[-1]))
            if len(p) >= 2 and p[-2] in self.maps['enums']:
                return Enum(p[-2], ('c', p[-1]))
            raise Unsupported('path ' + '::'.join(p))
        if k == 'field':
            base = self.eval(e[1], env)
            if isinstance(base, Ref):
                return self.get_field(base, e[2])
            if isinstance(base, Tup) and e[2].isdigit():
                return base.items[int(e[2])]
            raise Unsupported('field access .%s on %s' % (e[2], type(base).__name__))
        if k == 'try':
            v = self.eval(e[1], env)
            if isinstance(v, HalRes):
                if v.failed:
                    raise EarlyRet(v)
                return Unit()
            if isinstance(v, Res) and v.kind in ('ok', 'bus'):
                return v.payload if v.payload is not None else Unit()
            if isinstance(v, CondRes) and self.depth == 0 and not self.guards:
                # `helper()?` where the helper returns Err under a condition on the recorded configuration:
                # an arm of the result chain of the function being translated
                err, ok, cond = (v.a, v.b, v.c) if v.a.kind == 'err' else (v.b, v.a, b_not(v.c))
                if ok.kind != 'ok':
                    raise HardUnsupported('conditional result with two errors')
                self.check_pending('the early return')
                self.chain.append((cond, err, len(self.writes), len(self.acts)))
                return ok.payload if ok.payload is not None else Unit()
            raise HardUnsupported('`?` on something that is neither a bus operation nor a conditional configuration error')
        if k == 'call':
            p = e[1]
            args = [self.eval(a, env) for a in e[2]]
            if p == ['Ok']:
                return Res('ok', args[0] if args else None)
            if p == ['Err']:
                return Res('err', args[0])
            if len(p) == 1 and p[0] in self.items['fn']:
                return self.run_fn(None, p[0], None, args)
            if p == ['Config', 'default'] and not args:
                return ConfigDefault()
            if len(p) == 2 and p[1] == 'default' and p[0] in self.regdefault and not args:
                return Byte(p[0], '0x%02X#8' % self.regdefault[p[0]])
            if len(p) == 2 and p[1] == 'from_bits_truncate' and p[0] in self.regaddr:
                if isinstance(args[0], U8):
                    return Byte(p[0], 'trunc (DS.definedMask 0x%02X) %s' % (self.regaddr[p[0]], paren(args[0].e)))
            if len(p) == 2 and p[0] in ('Self', 'BMA400') and p[1] in self.items['impl'].get('BMA400', {}) and self.api:
                return self.run_fn('BMA400', p[1], None, args)
            if p[-1] in self.known_fns():
                raise HardUnsupported('call of the crate function ' + '::'.join(p))
            if self.api:
                return Opaque()     # the arguments have been evaluated (with their bus traffic); the value is data
            raise Unsupported('call ' + '::'.join(p))
        if k == 'mcall':
            return self.eval_mcall(e, env)
        raise Unsupported('expression ' + k)

    def eval_bin(self, e, env):
        op = e[1]
        a = self.eval(e[2], env)
        if op in ('&&', '||') and isinstance(a, Bool):
            # Rust short-circuits; the operands here are pure, so both are evaluated
            nw = len(self.writes)
            b = self.eval(e[3], env)
            if len(self.writes) != nw or not isinstance(b, Bool):
                raise Unsupported('effect in a boolean operand')
            return Bool(b_and(a.e, b.e) if op == '&&' else b_or(a.e, b.e))
        b = self.eval(e[3], env)
        if op in ('==', '!=', '>', '<', '>=', '<=') and isinstance(a, Num) and isinstance(b, U8) and b.e == '0x00#8' \
                and getattr(a, 'empty', None) is not None:
            truth = {'==': a.empty, '!=': not a.empty, '>': not a.empty, '<': False, '>=': True, '<=': a.empty}[op]
            return Bool('true' if truth else 'false')
        if op in ('==', '!='):
            if isinstance(a, U8) and isinstance(b, U8):
                if a.e == b.e:
                    return Bool('true' if op == '==' else 'false')
                return Bool('(%s %s %s)' % (a.e, op, b.e))
            if isinstance(a, Bool) and isinstance(b, Bool):
                return Bool('(%s %s %s)' % (a.e, op, b.e))
            raise Unsupported('comparison of %s and %s' % (type(a).__name__, type(b).__name__))
        if op == '^' and isinstance(a, Byte) and isinstance(b, Byte) and a.ty == b.ty:
            return Byte(a.ty, '(%s ^^^ %s)' % (a.e, b.e))
        if self.api:
            return Opaque()
        raise Unsupported('operator %s on %s, %s' % (op, type(a).__name__, type(b).__name__))

    def eval_mcall(self, e, env):
        name = e[2]
        recv = self.eval(e[1], env)
        if isinstance(recv, Hal):
            return self.hal_op(recv, name, e[3], env)
        if isinstance(recv, HalRes):
            if name == 'map_err' and len(e[3]) == 1 and e[3][0][0] == 'path':
                kind = {'IOError': 'io', 'ChipSelectPinError': 'pin'}.get(e[3][0][1][-1])
                if kind is None:
                    raise Unsupported('map_err to ' + e[3][0][1][-1])
                return HalRes(recv.failed, kind if recv.failed else recv.kind, recv.k)
            if name == 'map' and len(e[3]) == 1:
                return recv
            if name == 'is_ok' and not e[3]:
                return Bool('false' if recv.failed else 'true')
            if name == 'is_err' and not e[3]:
                return Bool('true' if recv.failed else 'false')
            if name in ('and', 'and_then') and len(e[3]) == 1:
                other = self.eval(e[3][0], env) if name == 'and' else None
                if name == 'and_then':
                    if recv.failed:
                        return recv
                    other = self.eval(e[3][0][1], env) if e[3][0][0] == 'closure' else None
                if not isinstance(other, HalRes):
                    raise Unsupported('Result::%s with something that is not a HAL result' % name)
                return other if not recv.failed else recv
            if name == 'or' and len(e[3]) == 1:
                other = self.eval(e[3][0], env)
                if not isinstance(other, HalRes):
                    raise Unsupported('Result::or')
                return recv if not recv.failed else other
            if name in ('ok', 'err', 'unwrap_or_default', 'unwrap_or') :
                for a_ in e[3]:
                    self.eval(a_, env)
                return Opaque()
            raise HardUnsupported('method .%s on the result of a HAL operation' % name)
        if isinstance(recv, Timer):
            if name != 'delay_ms' or len(e[3]) != 1:
                raise Unsupported('timer method ' + name)
            v = self.eval(e[3][0], env)
            if not isinstance(v, U8):
                raise Unsupported('delay argument')
            self.close_write('a delay')
            self.acts.append((self.guard(), '.delay %d' % int(v.e[2:4], 16)))
            return Unit()
        if isinstance(recv, Iface):
            if name == 'read_register' and len(e[3]) == 2 and self.api:
                r = self.eval(e[3][0], env)
                b = self.eval(e[3][1], env)
                if not isinstance(r, RegName) or not isinstance(b, Arr):
                    raise Unsupported('read_register arguments')
                self.close_write('the next bus read')
                self.acts.append((self.guard(), '.rd 0x%02X %s' % (r.addr, b.n)))
                return Res('bus', None)
            if name != 'write_register' or len(e[3]) != 1:
                raise HardUnsupported('interface method ' + name)
            v = self.eval(e[3][0], env)
            if self.api and isinstance(v, Enum) and v.ty == 'Command' and v.tree[0] == 'c':
                self.close_write('the next bus write')
                self.acts.append([self.guard(), '.wr 0x7E R.cmd_%s' % v.tree[1], None])
                self.last_write = len(self.acts) - 1
                self.reset_since = False
                return Res('bus', None)
            if not isinstance(v, Byte) or v.ty not in self.regaddr:
                raise Unsupported('write_register of something that is not a configuration register')
            self.close_write('the next bus write')
            addr = self.regaddr[v.ty]
            self.writes.append((self.guard(), addr, v.e))
            hits = [p for p, x in self.store.items() if p[0] == 'dev' and isinstance(x, Byte) and self.leaf_type(p) == v.ty]
            if hits:
                self.pending = (addr, v.e, self.shadow_path_of(v.ty))
                self.acts.append([self.guard(), '.wr 0x%02X %s' % (addr, paren(v.e)), '.commit'])
            else:
                # a register the driver keeps no record of (SELF_TEST, IF_CONF)
                if not self.api:
                    raise Unsupported('write of a register without a configuration leaf')
                self.acts.append([self.guard(), '.wr 0x%02X %s' % (addr, paren(v.e)), None])
                self.last_write = len(self.acts) - 1
                self.reset_since = False
            return Res('bus', None)
        args = [self.eval(a, env) for a in e[3]]
        if name == 'clone' and not args and isinstance(recv, Ref) and recv.ty == 'Config':
            self.nclone = getattr(self, 'nclone', 0) + 1
            root = ('saved%d' % self.nclone,)
            for pth, x in list(self.store.items()):
                if pth[:len(recv.path)] == recv.path and isinstance(x, Byte):
                    self.store[root + pth[len(recv.path):]] = x
            return Ref('Config', root)
        if name in ('into', 'clone', 'borrow') and not args:
            return recv
        if isinstance(recv, Res) and recv.kind == 'bus' and name in ('map', 'map_err') and len(e[3]) == 1:
            return recv
        if isinstance(recv, Res) and recv.kind == 'bus':
            raise PropagationError('the result of a bus operation is used by .%s() instead of being propagated with `?`' % name)
        if isinstance(recv, Byte):
            return self.reg_method(recv, name, args)
        if isinstance(recv, Ref):
            return self.run_fn(recv.ty, name, recv, args)
        if isinstance(recv, Var):
            return self.run_fn(recv.ty, name, recv, args)
        if isinstance(recv, Arr) and name == 'len' and not args:
            r = Num(recv.n)
            r.empty = recv.empty
            return r
        if isinstance(recv, Arr) and name == 'is_empty' and not args:
            if recv.empty is not None:
                return Bool('true' if recv.empty else 'false')
            return Bool('(%s == 0)' % recv.n)
        if isinstance(recv, Num) and name in ('min', 'max') and len(args) == 1:
            a = args[0]
            t = a.e if isinstance(a, Num) else (str(int(a.e[2:4], 16)) if isinstance(a, U8) and a.e.startswith('0x') else
                                              a.e[len('(BitVec.ofNat 8 '):-1] if isinstance(a, U8) else None)
            if t is None:
                raise HardUnsupported('argument of a length computation')
            return Num('(%s %s %s)' % (name, recv.e, t))
        if self.api and isinstance(recv, (Opaque, Arr, U8, Bool, Enum, Tup, Num)) and name not in self.known_fns():
            return Opaque()
        if name in self.known_fns():
            raise HardUnsupported('method .%s of the crate on %s' % (name, type(recv).__name__))
        raise Unsupported('method .%s on %s' % (name, type(recv).__name__))

    def reg_method(self, r, name, args):
        m = self.maps
        key = (r.ty, name)
        if name == 'bits' and not args:
            return U8(r.e)
        if len(args) == 1 and isinstance(args[0], Byte) and args[0].ty == r.ty:
            o = args[0].e
            if name == 'union':
                return Byte(r.ty, 'uni %s %s' % (paren(r.e), paren(o)))
            if name == 'difference':
                return Byte(r.ty, 'clr %s %s' % (paren(r.e), paren(o)))
            if name == 'intersection':
                return Byte(r.ty, '(%s &&& %s)' % (paren(r.e), paren(o)))
            if name == 'intersects':
                return Bool('has %s %s' % (paren(r.e), paren(o)))
            if name == 'contains':
                return Bool('((%s &&& %s) == %s)' % (paren(r.e), paren(o), paren(o)))
        if name == 'is_empty' and not args:
            return Bool('(%s == 0x00#8)' % paren(r.e))
        if key in m['flagenc'] and len(args) == 1 and isinstance(args[0], Bool):
            mask = m['flagenc'][key]
            a = args[0].e
            if a == 'false':
                return Byte(r.ty, 'clr %s %s' % (paren(r.e), mask))
            if a == 'true':
                return Byte(r.ty, 'uni %s %s' % (paren(r.e), mask))
            return Byte(r.ty, 'flag %s %s %s' % (paren(r.e), mask, paren(a)))
        if key in m['flagdec'] and not args:
            return Bool('has %s %s' % (paren(r.e), m['flagdec'][key]))
        if key in m['enumdec'] and not args:
            fn, rty = m['enumdec'][key]
            return Enum(rty, ('s', '%s %s' % (fn, paren(r.e))))
        if key in m['enumenc'] and len(args) == 1 and isinstance(args[0], Enum) and args[0].tree[0] == 'c':
            fn, partial, rty = m['enumenc'][key]
            if partial:
                return Byte(r.ty, '(%s %s %s).getD %s' % (fn, paren(r.e), self.lean_variant(rty, args[0].tree[1]), paren(r.e)))
            return Byte(r.ty, '%s %s %s' % (fn, paren(r.e), self.lean_variant(rty, args[0].tree[1])))
        raise Unsupported('register method %s::%s' % key)


def lean_num(s):
    s = re.sub(r'(u8|u16|i16|usize|i32|u32)$', '', s).replace('_', '')
    v = int(s[2:], 16) if s.startswith('0x') else int(s[2:], 2) if s.startswith('0b') else int(s)
    if v > 255:
        return '(BitVec.ofNat 8 %d)' % v   # only ever compared as data; plans never depend on it
    if s.startswith('0x'):
        return '0x%02X#8' % int(s[2:], 16)
    if s.startswith('0b'):
        return '0x%02X#8' % int(s[2:], 2)
    return '0x%02X#8' % int(s)


# ------------------------------------------------------------------ name maps (from the committed Lean files)

def load_maps(leandir, srcdir):
    enc = open(os.path.join(leandir, 'Thm', 'Encoders.lean')).read()
    maps = {'flagenc': {}, 'flagdec': {}, 'enumdec': {}, 'enumenc': {}, 'enums': {}, 'masks': load_masks(srcdir)}
    for m in re.finditer(r'isFlag (R\.\w+) Enc\.([A-Za-z0-9]+)_(with_\w+)', enc):
        maps['flagenc'][(m.group(2), m.group(3))] = m.group(1)
    dm = re.search(r'theorem dec_flags :\s*\[(.*?)\]\s*=\s*\[(.*?)\]', enc, re.S)
    names = re.findall(r'Enc\.([A-Za-z0-9]+)_get_(\w+)', dm.group(1))
    masks = re.findall(r'\((R\.\w+)\)\.toNat', dm.group(2))
    assert len(names) == len(masks)
    for (ty, mth), mk in zip(names, masks):
        maps['flagdec'][(ty, mth)] = mk
    # Rust enum name <-> Lean type, variants by declaration order
    rust_enums = {}
    for f in ('types.rs', 'lib.rs'):
        s = re.sub(r'//[^\n]*', '', open(os.path.join(srcdir, f)).read())
        for m in re.finditer(r'pub enum (\w+)\s*\{(.*?)\n\}', s, re.S):
            vs = [v for v in re.findall(r'^\s*([A-Z]\w*)\s*(?:\([^)]*\))?\s*(?:=\s*[^,]+)?,?\s*$', re.sub(r'#\[[^\]]*\]', '', m.group(2)), re.M)]
            rust_enums[m.group(1)] = vs
    basic = open(os.path.join(leandir, 'Basic.lean')).read()
    lean_enums = {}
    for m in re.finditer(r'^inductive (\w+)((?:\s*\|\s*\w+)+)\s*deriving', basic, re.M):
        lean_enums[m.group(1)] = re.findall(r'\|\s*(\w+)', m.group(2))
    pair = {'DataSource': 'DataSource', 'OutputDataRate': 'ODR', 'InterruptPins': 'IntPins', 'PowerMode': 'PowerMode',
            'Scale': 'Scale', 'OversampleRate': 'OSR', 'Filter1Bandwidth': 'Filt1Bw', 'AutoLPTimeoutTrigger': 'AutoLpTrig',
            'WakeupIntRefMode': 'WkupRefMode', 'OrientIntRefMode': 'OrientRefMode', 'ActChgObsPeriod': 'ObsPeriod',
            'TapSensitivity': 'TapSens', 'Axis': 'Axis', 'MinTapDuration': 'MinTapDur', 'DoubleTapDuration': 'DTapDur',
            'MaxTapDuration': 'MaxTapDur', 'GenIntRefMode': 'GenRefMode', 'Hysteresis': 'Hyst',
            'GenIntCriterionMode': 'Criterion', 'GenIntLogicMode': 'Logic'}
    for r, l in pair.items():
        if r in rust_enums and l in lean_enums and len(rust_enums[r]) == len(lean_enums[l]):
            maps['enums'][r] = (l, dict(zip(rust_enums[r], lean_enums[l])))
    lean2rust = {l: r for r, l in pair.items()}
    for m in re.finditer(r'(R\.\w+) b == decode(?:If|Table) \[(\w+)\.\w+.*?Enc\.([A-Za-z0-9]+)_get_(\w+) b', enc):
        lty = m.group(2)
        if lty in lean2rust:
            maps['enumdec'][(m.group(3), m.group(4))] = (m.group(1), lean2rust[lty])
    for m in re.finditer(r'theorem enc_([A-Za-z0-9]+)_(with_\w+) : agrees \(α := (\w+)\) \[[^\]]*\] \(fun b v => (some )?\(?(R\.\w+) b v\)?\)', enc):
        lty = m.group(3)
        if lty in lean2rust:
            maps['enumenc'][(m.group(1), m.group(2))] = (m.group(5), m.group(4) is None, lean2rust[lty])
    return maps


def load_masks(srcdir):
    """(register type, constant) -> mask value, from the cfg_register! items of registers.rs"""
    src = re.sub(r'//[^\n]*', '', open(os.path.join(srcdir, 'registers.rs')).read())
    out = {}
    for m in re.finditer(r'cfg_register!\s*\{\s*(\w+)\s*:\s*0x[0-9A-Fa-f]+\s*=\s*0x[0-9A-Fa-f]+\s*\{(.*?)\}\s*\}', src, re.S):
        consts = {}
        for c in re.finditer(r'const\s+(\w+)\s*=\s*([^;]+);', m.group(2)):
            expr = c.group(2).strip().replace('_', '')
            try:
                if re.fullmatch(r'0b[01]+', expr):
                    v = int(expr[2:], 2)
                elif re.fullmatch(r'0x[0-9A-Fa-f]+', expr):
                    v = int(expr[2:], 16)
                else:
                    v = 0
                    for part in c.group(2).split('|'):
                        v |= consts[re.fullmatch(r'\s*Self::(\w+)\.bits\s*', part).group(1)]
            except Exception:
                continue
            consts[c.group(1)] = v
            out[(m.group(1), c.group(1))] = v
    return out


def load_regaddr(srcdir):
    src = re.sub(r'//[^\n]*', '', open(os.path.join(srcdir, 'registers.rs')).read())
    out = {}
    for m in re.finditer(r'cfg_register!\s*\{\s*(\w+)\s*:\s*(0x[0-9A-Fa-f]+)\s*=', src):
        out[m.group(1)] = int(m.group(2), 16)
    return out


# ------------------------------------------------------------------ driver

BUILDERS = [
    # (lean name, file, builder type, block struct / variant, field of Config)
    ('acc', 'accel_config.rs', 'AccConfigBuilder', 'AccConfig', 'acc_config', None),
    ('int', 'int_config.rs', 'IntConfigBuilder', 'IntConfig', 'int_config', None),
    ('pin', 'int_pin_config.rs', 'IntPinConfigBuilder', 'IntPinConfig', 'int_pin_config', None),
    ('fifo', 'fifo_config.rs', 'FifoConfigBuilder', 'FifoConfig', 'fifo_config', None),
    ('alp', 'auto_lp_config.rs', 'AutoLpConfigBuilder', 'AutoLpConfig', 'auto_lp_config', None),
    ('awk', 'auto_wkup_config.rs', 'AutoWakeupConfigBuilder', 'AutoWakeupConfig', 'auto_wkup_config', None),
    ('wkup', 'wkup_int_config.rs', 'WakeupIntConfigBuilder', 'WakeupIntConfig', 'wkup_int_config', None),
    ('ori', 'orientch_config.rs', 'OrientChgConfigBuilder', 'OrientChgConfig', 'orientch_config', None),
    ('gen1', 'gen_int_config.rs', 'GenIntConfigBuilder', 'Gen1IntConfig', 'gen1int_config', 'Gen1Int'),
    ('gen2', 'gen_int_config.rs', 'GenIntConfigBuilder', 'Gen2IntConfig', 'gen2int_config', 'Gen2Int'),
    ('act', 'actchg_config.rs', 'ActChgConfigBuilder', 'ActChgConfig', 'actchg_config', None),
    ('tap', 'tap_config.rs', 'TapConfigBuilder', 'TapConfig', 'tap_config', None),
]


def parse_all(srcdir):
    items = {'struct': {}, 'enum': {}, 'fn': {}, 'impl': {}}
    files = ['config.rs'] + sorted('config/' + f for f in os.listdir(os.path.join(srcdir, 'config')) if f.endswith('.rs'))
    for f in files:
        toks = tokenize(open(os.path.join(srcdir, f)).read())
        P(toks).items(items)
    return items


def writes_term(ws):
    t = '[]'
    for g, a, v in reversed(ws):
        t = 'wIf %s 0x%02X %s ++ %s' % (paren(g), a, paren(v), t)
    return t


def lean_result(r, ws):
    if isinstance(r, Res) and r.kind == 'ok':
        return '.ok (%s)' % writes_term(ws)
    if isinstance(r, Res) and r.kind == 'err' and isinstance(r.payload, Enum) and r.payload.ty == 'ConfigError':
        if ws:
            raise Unsupported('configuration error returned after bus writes')
        name = {'Filt1InterruptInvalidODR': 'filt1Odr', 'TapIntEnabledInvalidODR': 'tapOdr',
                'FifoReadWhilePwrDisable': 'fifoPwr'}.get(r.payload.tree[1])
        if not name:
            raise Unsupported('unknown ConfigError variant')
        return '.error .%s' % name
    raise Unsupported('result of write() is neither Ok(()) nor Err(ConfigError)')


def translate_builder(items, regaddr, maps, spec):
    lname, _, bty, blockty, cfgfield, variant = spec
    it = Interp(items, regaddr, maps)
    dev_cfg = it.struct_ref('Config', ('dev',), lambda t, a: 'sh 0x%02X' % a)
    blk = it.struct_ref(blockty, ('rq',), lambda t, a: 'rq 0x%02X' % a)
    cfgv = Var('GenIntConfig', variant, blk) if variant else blk
    # the builder object: struct { config, device: BMA400 { config, interface } }
    items['struct']['__Dev'] = []
    builder = {'config': cfgv}

    class Builder(Ref):
        pass
    # special-case field access on the builder / device through tiny shims
    selfv = Ref('__Builder', ('self',))
    it.items['struct']['__Builder'] = [('config', ['__cfg']), ('device', ['__Device'])]
    it.items['struct']['__Device'] = [('config', ['Config']), ('interface', ['__Iface'])]
    it.store[('self', 'config')] = cfgv
    it.store[('self', 'device')] = Ref('__Device', ('self', 'device'))
    it.store[('self', 'device', 'config')] = dev_cfg
    it.store[('self', 'device', 'interface')] = Iface()
    # methods of the builder type (write and its private helpers) are looked up under '__Builder'
    it.items['impl']['__Builder'] = items['impl'].get(bty, {})
    params, toks = items['impl'][bty]['write']
    body = P(toks).block()
    env = {'self': selfv}
    r = it.exec_block(body, env, top=True)
    it.check_pending('the end of write()')
    if isinstance(r, tuple) and r and r[0] == 'ret':
        r = r[1]
    out = lean_result(r, it.writes)
    for c, rr, nw, _na in reversed(it.chain):
        out = 'if %s then %s else\n  %s' % (c, lean_result(rr, it.writes[:nw]), out)
    # only the lets the result depends on (the recorded configuration after the writes is merged too)
    used = set()
    text = out
    for name, e in reversed(it.lets):
        if re.search(r'\b%s\b' % name, text):
            used.add(name)
            text += ' ' + e
    lets = ''.join('let %s : Byte := %s\n  ' % l for l in it.lets if l[0] in used)
    return 'def %s (sh rq : Regs) : Except CfgErr (List W) :=\n  %s%s' % (lname, lets, out), len(it.writes)


def translate_selftest(items, regaddr, maps, which):
    """Config::setup_self_test / cleanup_self_test: the list of writes (all unconditional)"""
    it = Interp(items, regaddr, maps)
    me = it.struct_ref('Config', ('dev',), lambda t, a: 'sh 0x%02X' % a)
    env = {'self': me, 'interface': Iface()}
    if which == 'cleanup_self_test':
        # `saved` is a second configuration; allocate it outside 'dev' so that shadow_path_of ignores it
        env['saved'] = it.struct_ref('Config', ('saved',), lambda t, a: 'saved 0x%02X' % a)
    params, toks = items['impl']['Config'][which]
    body = P(toks).block()
    r = it.exec_block(body, env, top=True)
    it.check_pending('the end of ' + which)
    if isinstance(r, tuple) and r and r[0] == 'ret':
        r = r[1]
    if it.chain or not (isinstance(r, Res) and r.kind == 'ok') or any(g != 'true' for g, _, _ in it.writes):
        raise Unsupported(which + ' is not a straight line of writes')
    ws = ', '.join('⟨0x%02X, %s⟩' % (a, v) for _, a, v in it.writes)
    if which == 'cleanup_self_test':
        return 'def selfTestCleanup (saved : Regs) : List W :=\n  [%s]' % ws, len(it.writes)
    return 'def selfTestSetup (sh : Regs) : List W :=\n  [%s]' % ws, len(it.writes)


API = [  # (Lean name, Rust fn, extra Lean binder, parameters)
    ('get_id', 'get_id'), ('get_cmd_error', 'get_cmd_error'), ('get_status', 'get_status'),
    ('get_unscaled_data', 'get_unscaled_data'), ('get_data', 'get_data'), ('get_sensor_clock', 'get_sensor_clock'),
    ('get_reset_status', 'get_reset_status'), ('get_int_status0', 'get_int_status0'), ('get_int_status1', 'get_int_status1'),
    ('get_int_status2', 'get_int_status2'), ('get_fifo_len', 'get_fifo_len'), ('read_fifo_frames', 'read_fifo_frames'),
    ('flush_fifo', 'flush_fifo'), ('get_step_count', 'get_step_count'), ('clear_step_count', 'clear_step_count'),
    ('get_step_activity', 'get_step_activity'), ('get_raw_temp', 'get_raw_temp'), ('get_temp_celsius', 'get_temp_celsius'),
    ('perform_self_test', 'perform_self_test'), ('soft_reset', 'soft_reset'),
    ('new_i2c', 'new_i2c'), ('new_spi', 'new_spi'), ('new_spi_3wire', 'new_spi_3wire'),
]


def acts_term(acts):
    """list of acts; an access that is attempted only under a condition on the recorded configuration is
    kept as `if c then [act] else []` (the model's plans have none: the equality proof then fails)"""
    parts, cur = [], []
    for a in acts:
        t = a[1] + ((' ' + a[2]) if len(a) == 3 else '')
        if a[0] == 'true':
            cur.append(t)
        else:
            if cur:
                parts.append('[' + ', '.join(cur) + ']')
                cur = []
            parts.append('(if %s then [%s] else [])' % (a[0], t))
    if cur or not parts:
        parts.append('[' + ', '.join(cur) + ']')
    return ' ++ '.join(parts)


def api_result(r, acts):
    if isinstance(r, Res) and r.kind == 'err' and isinstance(r.payload, Enum) and r.payload.ty == 'ConfigError':
        if acts:
            raise Unsupported('configuration error returned after bus traffic')
        name = {'Filt1InterruptInvalidODR': 'filt1Odr', 'TapIntEnabledInvalidODR': 'tapOdr',
                'FifoReadWhilePwrDisable': 'fifoPwr'}.get(r.payload.tree[1])
        if not name:
            raise Unsupported('unknown ConfigError variant')
        return '⟨some (.cfg .%s), []⟩' % name
    return '⟨none, %s⟩' % acts_term(acts)


def translate_api(items, regaddr, regdefault, readregs, maps, lname, fname):
    it = Interp(items, regaddr, maps)
    it.api = True
    it.readregs = readregs
    it.regdefault = regdefault
    dev_cfg = it.struct_ref('Config', ('dev',), lambda t, a: 'sh 0x%02X' % a)
    it.items['struct']['BMA400'] = [('interface', ['__Iface']), ('config', ['Config'])]
    it.store[('self', 'interface')] = Iface()
    it.store[('self', 'config')] = dev_cfg
    selfv = Ref('BMA400', ('self',))
    params, toks = items['impl']['BMA400'][fname]
    body = P(toks).block()
    env = {}
    binder = ''
    for p_ in params:
        if p_ == 'self':
            env['self'] = selfv
        elif p_ == 'timer':
            env[p_] = Timer()
        elif p_ == 'buffer':
            env[p_] = Arr('n')
            binder = ' (n : Nat)'
        else:
            env[p_] = Opaque()
    r = it.exec_block(body, env, top=True)
    it.close_write('the end of ' + fname)
    if isinstance(r, tuple) and r and r[0] == 'ret':
        r = r[1]
    out = api_result(r, it.acts)
    for c, rr, nw, na in reversed(it.chain):
        out = 'if %s then %s else\n  %s' % (c, api_result(rr, it.acts[:na]), out)
    if it.lets:
        raise Unsupported('the plan of an API function depends on merged register values')
    return 'def %s (sh : Regs)%s : Plan :=\n  %s' % (lname, binder, out), len(it.acts)


TRANSPORT = [('i2c_write', 'i2c.rs', 'I2CInterface', 'write_register'), ('i2c_read', 'i2c.rs', 'I2CInterface', 'read_register'),
             ('spi_write', 'spi.rs', 'SPIInterface', 'write_register'), ('spi_read', 'spi.rs', 'SPIInterface', 'read_register')]


def parse_trait_impls(srcdir, fname, items):
    """`impl<..> Trait for Type<..> { fn .. }` blocks of a transport file -> items['impl'][Type]"""
    toks = tokenize(open(os.path.join(srcdir, fname)).read())
    p = P(toks)
    while p.peek() is not None:
        if p.peek() == '#':
            j = p.i
            p.skip_attr()
            if ''.join(x[1] for x in p.t[j:p.i]) == '#[cfg(test)]':
                break
            continue
        if p.peek() != 'impl':
            p.next()
            continue
        p.next()
        if p.peek() == '<':
            p.skip_generics()
        j = p.i
        p.skip_type(['{', 'where'])
        head = [x[1] for x in p.t[j:p.i]]
        if p.peek() == 'where':
            p.skip_type(['{'])
        if 'for' not in head:
            p.skip_braced()
            continue
        target = head[head.index('for') + 1]
        p.eat('{')
        sub = {'struct': {}, 'enum': {}, 'fn': {}, 'impl': {}}
        p.items(sub, until='}')
        p.eat('}')
        items['impl'].setdefault(target, {}).update(sub['fn'])


def run_transport(items, regaddr, maps, owner, fname, vec, empty=False):
    it = Interp(items, regaddr, maps)
    it.api = True
    it.hal = vec
    fields = {'I2CInterface': ['i2c'], 'SPIInterface': ['spi', 'csb']}[owner]
    declared = [f for f, _ in items['struct'].get(owner, [])]
    if declared != fields:
        raise Unsupported('%s has fields %s' % (owner, declared))
    for f in fields:
        it.store[('self', f)] = Hal(f)
    selfv = Ref(owner, ('self',))
    params, toks = items['impl'][owner][fname]
    body = P(toks).block()
    env = {}
    for p_ in params:
        env[p_] = selfv if p_ == 'self' else RegParam() if p_ == 'register' else (Arr('0', True) if empty else Arr('n', False)) if p_ == 'buffer' else Opaque()
    try:
        r = it.exec_block(body, env, top=False)
        if isinstance(r, tuple) and r and r[0] == 'ret':
            r = r[1]
    except EarlyRet as ex:
        r = ex.v
    if isinstance(r, Res) and r.kind == 'ok':
        res = 'none'
    elif isinstance(r, HalRes):
        if not r.failed:
            res = 'none'
        elif r.kind in ('io', 'pin'):
            res = 'some (%s, %d)' % ('true' if r.kind == 'pin' else 'false', r.k)
        else:
            raise Unsupported('a HAL error is returned without being wrapped in IOError / ChipSelectPinError')
    else:
        raise Unsupported('result of a transport function')
    return it.hal_ops, res


def main_transport(srcdir, leandir):
    items = {'struct': {}, 'enum': {}, 'fn': {}, 'impl': {}}
    for f in ('i2c.rs', 'spi.rs'):
        P(tokenize(open(os.path.join(srcdir, f)).read())).items(items)
        parse_trait_impls(srcdir, f, items)
    regaddr, regdefault, readregs = load_regtable(srcdir)
    maps = {'flagenc': {}, 'flagdec': {}, 'enumdec': {}, 'enumenc': {}, 'enums': {}}
    defs = []
    variants = []
    for lname, f, owner, fname in TRANSPORT:
        variants.append((lname, f, owner, fname, False))
        if fname == 'read_register':
            # the same function for an EMPTY buffer (`buffer.is_empty()`, `buffer.len() == 0` are then true)
            variants.append((lname + '_empty', f, owner, fname, True))
    for lname, f, owner, fname, empty in variants:
        ops0, _ = run_transport(copy.deepcopy(items), regaddr, maps, owner, fname, [], empty)
        n = len(ops0)
        if n == 0 or n > 6:
            raise Unsupported('%s::%s performs %d HAL operations' % (owner, fname, n))
        if empty:
            n = max(n, {'I2CInterface': 1, 'SPIInterface': 4}[owner])   # at least the schedule bits of the theorem
        rows = []
        for bits in range(2 ** n):
            vec = [bool((bits >> i) & 1) for i in range(n)]
            ops, res = run_transport(copy.deepcopy(items), regaddr, maps, owner, fname, vec, empty)
            rows.append('    ([%s], [%s], %s)' % (', '.join('true' if b else 'false' for b in vec), ', '.join(ops), res))
        defs.append('/-- %s::%s of src/%s: for every pattern of failing HAL operations (operation k fails iff the k-th\n'
                    '    entry is true), the operations attempted in order and the result (none = Ok, some (pin?, k) = the error\n'
                    '    of operation k as ChipSelectPinError / IOError) -/\n'
                    'def %s (dev a n : Nat) (v : Byte) : List (List Bool × List Raw × Option (Bool × Nat)) :=\n  [\n%s ]'
                    % (owner, fname, f, lname, ',\n'.join(rows)))
    print('/- GENERATED by tools/gen_builders.py --transport from src/i2c.rs and src/spi.rs on every check run.')
    print('   Do not edit.  The two transports, executed under EVERY pattern of failing raw HAL operations. -/')
    print('import Bma400.Driver')
    print('set_option linter.unusedVariables false')
    print('namespace Bma400')
    print('namespace Generated')
    print('namespace Frames')
    print()
    print('\n\n'.join(defs))
    print()
    print('end Frames')
    print('end Generated')
    print('end Bma400')


# (builder, Rust setter) -> constructor of the model's setter type (Builders.lean); only setters whose
# arguments are bools / plain enums are translated (numeric ones are tied by the differential check)
SETTER_CTOR = {
    'acc': {'with_power_mode': 'powerMode', 'with_osr_lp': 'osrLp', 'with_filt1_bw': 'filt1Bw', 'with_odr': 'odr',
            'with_osr': 'osr', 'with_scale': 'scale', 'with_reg_dta_src': 'regDtaSrc'},
    'int': {'with_dta_rdy_int': 'dtaRdy', 'with_fwm_int': 'fwm', 'with_ffull_int': 'ffull', 'with_gen2_int': 'gen2',
            'with_gen1_int': 'gen1', 'with_orientch_int': 'orientch', 'with_latch_int': 'latch', 'with_actch_int': 'actch',
            'with_d_tap_int': 'dTap', 'with_s_tap_int': 'sTap', 'with_step_int': 'step'},
    'pin': {'with_drdy': 'drdy', 'with_fifo_wm': 'fifoWm', 'with_ffull': 'ffull', 'with_ieng_ovrrn': 'iengOvrrn',
            'with_gen2': 'gen2', 'with_gen1': 'gen1', 'with_orientch': 'orientch', 'with_wkup': 'wkup', 'with_actch': 'actch',
            'with_tap': 'tap', 'with_step': 'step'},
    'fifo': {'with_read_disabled': 'readDisabled', 'with_axes': 'axes', 'with_8bit_mode': 'eightBit', 'with_src': 'src',
             'with_send_time_on_empty': 'sendTimeOnEmpty', 'with_stop_on_full': 'stopOnFull', 'with_auto_flush': 'autoFlush'},
    'alp': {'with_auto_lp_trigger': 'trigger', 'with_gen1_int_trigger': 'gen1Trig', 'with_drdy_trigger': 'drdyTrig'},
    'awk': {'with_periodic_wakeup': 'periodic', 'with_activity_int': 'activityInt'},
    'wkup': {'with_ref_mode': 'refMode', 'with_axes': 'axes'},
    'ori': {'with_axes': 'axes', 'with_src': 'src', 'with_ref_mode': 'refMode'},
    'gen1': {'with_axes': 'axes', 'with_src': 'src', 'with_ref_mode': 'refMode', 'with_hysteresis': 'hysteresis',
             'with_criterion_mode': 'criterion', 'with_logic_mode': 'logic'},
    'act': {'with_axes': 'axes', 'with_src': 'src', 'with_obs_period': 'obsPeriod'},
    'tap': {'with_axis': 'axis', 'with_sensitivity': 'sensitivity', 'with_min_duration_btn_taps': 'minDur',
            'with_max_double_tap_window': 'dtapDur', 'with_max_tap_duration': 'maxDur'},
}
SETTER_CTOR['gen2'] = SETTER_CTOR['gen1']
SETTER_TYPE = {'acc': 'AccSetter', 'int': 'IntSetter', 'pin': 'PinSetter', 'fifo': 'FifoSetter', 'alp': 'AlpSetter',
               'awk': 'AwkSetter', 'wkup': 'WkupSetter', 'ori': 'OriSetter', 'gen1': 'GenSetter', 'gen2': 'GenSetter',
               'act': 'ActSetter', 'tap': 'TapSetter'}


def run_setter(items, regaddr, maps, spec, method, args):
    lname, _, bty, blockty, cfgfield, variant = spec
    it = Interp(items, regaddr, maps)
    dev_cfg = it.struct_ref('Config', ('dev',), lambda t, a: 'sh 0x%02X' % a)
    blk = it.struct_ref(blockty, ('rq',), lambda t, a: 'r 0x%02X' % a)
    cfgv = Var('GenIntConfig', variant, blk) if variant else blk
    it.items['struct']['__Builder'] = [('config', ['__cfg']), ('device', ['__Device'])]
    it.items['struct']['__Device'] = [('config', ['Config']), ('interface', ['__Iface'])]
    it.store[('self', 'config')] = cfgv
    it.store[('self', 'device')] = Ref('__Device', ('self', 'device'))
    it.store[('self', 'device', 'config')] = dev_cfg
    it.store[('self', 'device', 'interface')] = Iface()
    it.items['impl']['__Builder'] = items['impl'].get(bty, {})
    before = {p_: v.e for p_, v in it.store.items() if p_[0] == 'rq' and isinstance(v, Byte)}
    selfv = Ref('__Builder', ('self',))
    r = it.run_fn('__Builder', method, selfv, args)
    if not (isinstance(r, Ref) and r.path == ('self',)):
        raise Unsupported('%s::%s does not return the builder' % (bty, method))
    if it.writes or it.acts or it.lets:
        raise Unsupported('%s::%s has bus traffic / merged values' % (bty, method))
    for p_, v in it.store.items():
        if p_[0] == 'dev' and isinstance(v, Byte) and not v.e.startswith('sh 0x'):
            raise HardUnsupported('%s::%s changes the recorded configuration' % (bty, method))
    out = 'r'
    for p_ in sorted(before, key=lambda q: regaddr[it.store[q].ty]):
        v = it.store[p_]
        if v.e != before[p_]:
            out = '(%s).set 0x%02X (%s)' % (out, regaddr[v.ty], v.e)
    return out


def main_setters(srcdir, leandir):
    items = parse_all(srcdir)
    regaddr = load_regaddr(srcdir)
    maps = load_maps(leandir, srcdir)
    defs, thms = [], []
    for spec in BUILDERS:
        lname, bty = spec[0], spec[2]
        for method, ctor in SETTER_CTOR[lname].items():
            sig = items.get('sigs', {}).get(bty, {}).get(method)
            if sig is None:
                raise Unsupported('setter %s::%s not found' % (bty, method))
            ptys = [t for n, t in sig if n != 'self']
            binders, args, enum_pos = [], [], None
            for k, t in enumerate(ptys):
                tn = t[-1] if t else ''
                if tn == 'bool':
                    binders.append('(x%d : Bool)' % k)
                    args.append(Bool('x%d' % k))
                elif tn in maps['enums'] and enum_pos is None:
                    enum_pos = k
                    args.append(None)
                else:
                    raise Unsupported('argument type %s of %s::%s' % (tn, bty, method))
            name = '%s_%s' % (lname, method)
            if enum_pos is None:
                body = run_setter(copy.deepcopy(items), regaddr, maps, spec, method, args)
                defs.append('def %s (sh r : Regs) %s : Regs :=\n  %s' % (name, ' '.join(binders), body))
            else:
                rty = ptys[enum_pos][-1]
                lty, vmap = maps['enums'][rty]
                arms = []
                for rv, lv in vmap.items():
                    a2 = list(args)
                    a2[enum_pos] = Enum(rty, ('c', rv))
                    arms.append('  | .%s => %s' % (lv, run_setter(copy.deepcopy(items), regaddr, maps, spec, method, a2)))
                defs.append('def %s (sh r : Regs) %s : %s → Regs\n%s' % (name, ' '.join(binders), lty, '\n'.join(arms)))
            thms.append((lname, method, ctor, len(ptys), enum_pos))
    print('/- GENERATED by tools/gen_builders.py --setters from src/config/*.rs on every check run.  Do not edit.')
    print('   The effect of every builder SETTER with bool / enum arguments on the builder\'s copy `r` (`sh`: the recorded')
    print('   configuration, which no setter may read or change), by symbolic execution; enum arguments are enumerated. -/')
    print('import Bma400.Builders')
    print('set_option linter.unusedVariables false')
    print('namespace Bma400')
    print('namespace Generated')
    print('namespace Set')
    print('open R')
    print()
    print('\n\n'.join(defs))
    print()
    print('def count : Nat := %d' % len(defs))
    print()
    print('end Set')
    print('end Generated')
    print('end Bma400')
    return thms


def load_regtable(srcdir):
    src = re.sub(r'//[^\n]*', '', open(os.path.join(srcdir, 'registers.rs')).read())
    addr, dflt, rd = {}, {}, {}
    for m in re.finditer(r'cfg_register!\s*\{\s*(\w+)\s*:\s*(0x[0-9A-Fa-f]+)\s*=\s*(0x[0-9A-Fa-f]+)', src):
        addr[m.group(1)] = int(m.group(2), 16)
        dflt[m.group(1)] = int(m.group(3), 16)
    for m in re.finditer(r'r_register!\(\s*(\w+)\s*:\s*(0x[0-9A-Fa-f]+)\s*\)', src):
        rd[m.group(1)] = int(m.group(2), 16)
    return addr, dflt, rd


def main_api(srcdir, leandir):
    items = parse_all(srcdir)
    for f in ('lib.rs', 'i2c.rs', 'spi.rs'):
        P(tokenize(open(os.path.join(srcdir, f)).read())).items(items)
    regaddr, regdefault, readregs = load_regtable(srcdir)
    maps = load_maps(leandir, srcdir)
    defs, counts = [], []
    for lname, fname in API:
        d, n = translate_api(copy.deepcopy(items), regaddr, regdefault, readregs, maps, lname, fname)
        defs.append('/-- BMA400::%s -/\n%s' % (fname, d))
        counts.append(n)
    print('/- GENERATED by tools/gen_builders.py --api from src/lib.rs, src/i2c.rs, src/spi.rs (with src/config.rs inlined)')
    print('   on every check run.  Do not edit.  The PLAN of every API function: its guard and the register-level')
    print('   accesses it makes, in order (`?` after every access: the interpreter stops at the first failure). -/')
    print('import Bma400.Driver')
    print('set_option linter.unusedVariables false')
    print('namespace Bma400')
    print('namespace Generated')
    print('namespace Api')
    print('open R')
    print()
    print('\n\n'.join(defs))
    print()
    print('def actCounts : List Nat := [%s]' % ', '.join(str(c) for c in counts))
    print()
    print('end Api')
    print('end Generated')
    print('end Bma400')


def main():
    if len(sys.argv) > 3 and sys.argv[3] in ('--setters', '--setters-theorems'):
        try:
            if sys.argv[3] == '--setters':
                main_setters(sys.argv[1], sys.argv[2])
                return
            import io, contextlib
            buf = io.StringIO()
            with contextlib.redirect_stdout(buf):
                thms = main_setters(sys.argv[1], sys.argv[2])
            for lname, method, ctor, n, epos in thms:
                xs = ['x%d' % k for k in range(n) if k != epos]
                vs = ['x%d' % k if k != epos else 'v' for k in range(n)]
                gen_args = ' '.join(xs + (['v'] if epos is not None else []))
                bind = ' '.join('(%s : Bool)' % x for x in xs)
                ty = SETTER_TYPE[lname]
                ap = ('GenSetter.apply .g1' if lname == 'gen1' else 'GenSetter.apply .g2' if lname == 'gen2' else ty + '.apply')
                vb = ' (v)' if epos is not None else ''
                print('theorem set_%s_%s (sh r : Regs) %s%s :\n    %s r (.%s %s) = Set.%s_%s sh r %s := by\n  %s Set.%s_%s'
                      % (lname, method, bind, vb, ap, ctor, ' '.join(vs), lname, method, gen_args,
                         'setter_cases v' if epos is not None else 'setter_tac', lname, method))
            return
        except (Unsupported,) as ex:
            sys.stderr.write('outside the translatable subset: %s\n' % ex)
            sys.exit(1)
        except Exception as ex:
            sys.stderr.write('outside the translatable subset: %s: %s\n' % (type(ex).__name__, ex))
            sys.exit(1)
    if len(sys.argv) > 3 and sys.argv[3] == '--transport':
        try:
            return main_transport(sys.argv[1], sys.argv[2])
        except Unsupported as ex:
            sys.stderr.write('outside the translatable subset: %s\n' % ex)
            sys.exit(1)
        except Exception as ex:
            sys.stderr.write('outside the translatable subset: %s: %s\n' % (type(ex).__name__, ex))
            sys.exit(1)
    if len(sys.argv) > 3 and sys.argv[3] == '--api':
        try:
            return main_api(sys.argv[1], sys.argv[2])
        except CommitError as ex:
            sys.stderr.write('commit discipline: %s\n' % ex)
            sys.exit(3)
        except PropagationError as ex:
            sys.stderr.write('error propagation: %s\n' % ex)
            sys.exit(4)
        except Unsupported as ex:
            sys.stderr.write('outside the translatable subset: %s\n' % ex)
            sys.exit(1)
        except Exception as ex:
            sys.stderr.write('outside the translatable subset: %s: %s\n' % (type(ex).__name__, ex))
            sys.exit(1)
    srcdir, leandir = sys.argv[1], sys.argv[2]
    try:
        items = parse_all(srcdir)
        regaddr = load_regaddr(srcdir)
        maps = load_maps(leandir, srcdir)
        defs = []
        counts = []
        for spec in BUILDERS:
            d, n = translate_builder(copy.deepcopy(items), regaddr, maps, spec)
            defs.append('/-- %s::write() of src/config/%s%s -/\n%s' % (spec[2], spec[1], (' (' + spec[5] + ')') if spec[5] else '', d))
            counts.append(n)
        for which in ('setup_self_test', 'cleanup_self_test'):
            d, n = translate_selftest(copy.deepcopy(items), regaddr, maps, which)
            defs.append('/-- Config::%s of src/config.rs -/\n%s' % (which, d))
            counts.append(n)
    except CommitError as ex:
        sys.stderr.write('commit discipline: %s\n' % ex)
        sys.exit(3)
    except PropagationError as ex:
        sys.stderr.write('error propagation: %s\n' % ex)
        sys.exit(4)
    except Unsupported as ex:
        sys.stderr.write('outside the translatable subset: %s\n' % ex)
        sys.exit(1)
    except Exception as ex:   # anything the translator did not foresee is a source it cannot read
        sys.stderr.write('outside the translatable subset: %s: %s\n' % (type(ex).__name__, ex))
        sys.exit(1)
    print('/- GENERATED by tools/gen_builders.py from src/config.rs and src/config/*.rs on every check run.')
    print('   Do not edit.  Symbolic execution of the builders\' write() functions: `sh` is the recorded')
    print('   configuration at the call, `rq` the builder\'s copy after its setters. -/')
    print('import Bma400.Builders')
    print('import Bma400.Datasheet')
    print('namespace Bma400')
    print('namespace Generated')
    print('namespace Bld')
    print('open R')
    print()
    print('\n\n'.join(defs))
    print()
    print('/-- number of write sites per translated function -/')
    print('def writeSites : List Nat := [%s]' % ', '.join(str(c) for c in counts))
    print()
    print('end Bld')
    print('end Generated')
    print('end Bma400')


if __name__ == '__main__':
    main()
