#!/usr/bin/env python3
"""Translator T7: the FIFO frame header and iterator of src/types.rs -> Lean tables
(Bma400/GeneratedFifo.lean), by CONCRETE execution of the Rust source (parsed with the parser of
gen_builders.py) on every point of two finite domains:

  * `Header::from_bits_truncate(b)` followed by `frame_type()`, `resolution_is_12bit()`,
    `has_data()`, `num_payload_bytes()` (with its `while n != 0 { n &= n - 1; .. }` loop),
    `has_x_data()`, `has_y_data()`, `has_z_data()` for ALL 256 header bytes b;
  * `FifoFrames::next()` with the cursor at offset 3 of a buffer that has `rem` bytes left
    (rem = 0 .. 8, more than the longest frame) whose byte under the cursor is b, for all 256 b:
    what is yielded (start, stop of the slice) and where the cursor goes.

usage: gen_fifo.py <repo/src>        exit 1: source outside the subset (soft)
"""
import re, sys, os
sys.path.insert(0, os.path.dirname(os.path.abspath(__file__)))
import gen_builders as gb
from gen_builders import Unsupported, P, tokenize


class Ret(Exception):
    def __init__(self, v):
        self.v = v


class Hdr:
    def __init__(self, bits):
        self.bits = bits & 0xFF


class Obj:
    def __init__(self, ty, fields):
        self.ty, self.fields = ty, fields


class CE:
    """concrete evaluator for the handful of functions of types.rs this translator runs"""

    def __init__(self, items, consts):
        self.items = items
        self.consts = consts            # Header::NAME -> value
        self.allbits = 0
        for v in consts.values():
            self.allbits |= v
        self.steps = 0

    def call(self, owner, name, selfv, args):
        fns = self.items['impl'].get(owner, {})
        if name not in fns:
            raise Unsupported('no function %s::%s' % (owner, name))
        params, toks = fns[name]
        body = P(toks).block()
        env = {}
        ps = list(params)
        if ps and ps[0] == 'self':
            env['self'] = selfv
            ps = ps[1:]
        if len(ps) != len(args):
            raise Unsupported('arity of %s::%s' % (owner, name))
        env.update(zip(ps, args))
        try:
            return self.block(body, env)
        except Ret as r:
            return r.v

    def block(self, blk, env):
        val = None
        for st in blk[1]:
            self.steps += 1
            if self.steps > 200000:
                raise Unsupported('the function does not terminate on some input')
            k = st[0]
            if k == 'let':
                if st[2] is None:
                    self.bind(st[1], None, env, declare=True)
                else:
                    self.bind(st[1], self.ev(st[2], env), env)
            elif k == 'assign':
                self.assign(st[1], self.ev(st[2], env), env)
            elif k == 'return':
                raise Ret(self.ev(st[1], env) if st[1] is not None else None)
            elif k == 'while':
                while self.truth(self.ev(st[1], env)):
                    self.steps += 1
                    if self.steps > 200000:
                        raise Unsupported('the function does not terminate on some input')
                    self.block(st[2], env)
            elif k in ('expr', 'tail'):
                v = self.ev(st[1], env)
                if k == 'tail':
                    val = v
            else:
                raise Unsupported('statement ' + k)
        return val

    @staticmethod
    def truth(v):
        if not isinstance(v, bool):
            raise Unsupported('condition is not a bool')
        return v

    def bind(self, pat, v, env, declare=False):
        if pat[0] == 'bind':
            env[pat[1]] = v
        elif pat[0] == 'wild':
            pass
        elif pat[0] == 'ptuple':
            if declare:
                for p in pat[1]:
                    self.bind(p, None, env, True)
                return
            if not isinstance(v, tuple) or len(v) != len(pat[1]):
                raise Unsupported('tuple pattern')
            for p, x in zip(pat[1], v):
                self.bind(p, x, env)
        else:
            raise Unsupported('let pattern')

    def assign(self, target, v, env):
        if target[0] == 'path' and len(target[1]) == 1:
            env[target[1][0]] = v
            return
        if target[0] == 'field':
            base = self.ev(target[1], env)
            if isinstance(base, Obj) and target[2] in base.fields:
                base.fields[target[2]] = v
                return
        raise Unsupported('assignment target')

    def matches(self, pat, v, env):
        k = pat[0]
        if k == 'wild':
            return True
        if k == 'bind':
            env[pat[1]] = v
            return True
        if k == 'plit':
            if pat[1] in ('true', 'false'):
                return v is (pat[1] == 'true')
            return isinstance(v, int) and not isinstance(v, bool) and v == int(re.sub(r'(u8|usize|u16|i16)$', '', pat[1]).replace('_', ''), 0)
        if k == 'pvariant':
            if isinstance(v, tuple) and v and v[0] == 'enum':
                return v[2] == pat[1][-1] and (len(pat[1]) < 2 or pat[1][-2] in (v[1], 'Self'))
            if isinstance(v, tuple) and v and v[0] in ('some', 'none'):
                if pat[1][-1] == 'None':
                    return v[0] == 'none'
                if pat[1][-1] == 'Some' and v[0] == 'some':
                    return self.matches(pat[2][0], v[1], env) if pat[2] else True
                return False
            raise Unsupported('variant pattern')
        if k == 'ptuple':
            return isinstance(v, tuple) and len(v) == len(pat[1]) and all(self.matches(p, x, env) for p, x in zip(pat[1], v))
        raise Unsupported('pattern ' + k)

    def ev(self, e, env):
        k = e[0]
        if k == 'num':
            s = re.sub(r'(u8|u16|i16|usize|i32|u32)$', '', e[1]).replace('_', '')
            return int(s, 0)
        if k == 'lit':
            return e[1] == 'true'
        if k == 'block':
            return self.block(e, dict(env)) if False else self.block(e, env)
        if k == 'if':
            if self.truth(self.ev(e[1], env)):
                return self.block(e[2], env)
            return self.block(e[3], env) if e[3] else None
        if k == 'match':
            v = self.ev(e[1], env)
            for pats, body in e[2]:
                for p in pats:
                    if self.matches(p, v, env):
                        return self.ev(body, env)
            raise Unsupported('no arm matches')
        if k == 'matches':
            v = self.ev(e[1], env)
            return any(self.matches(p, v, dict(env)) for p in e[2])
        if k == 'not':
            v = self.ev(e[1], env)
            if isinstance(v, bool):
                return not v
            if isinstance(v, int):
                return (~v) & 0xFF
            raise Unsupported('`!` operand')
        if k == 'cast':
            return self.ev(e[1], env)
        if k == 'tuple':
            return tuple(self.ev(x, env) for x in e[1])
        if k == 'path':
            p = e[1]
            if len(p) == 1:
                if p[0] in env:
                    return env[p[0]]
                if p[0] == 'None':
                    return ('none',)
                raise Unsupported('unknown name ' + p[0])
            if len(p) == 2 and p[0] in ('Self', 'Header') and p[1] in self.consts:
                return Hdr(self.consts[p[1]])
            if len(p) == 2 and p[0] in self.items['enum']:
                return ('enum', p[0], p[1])
            raise Unsupported('path ' + '::'.join(p))
        if k == 'field':
            base = self.ev(e[1], env)
            if isinstance(base, Obj) and e[2] in base.fields:
                return base.fields[e[2]]
            if isinstance(base, Hdr) and e[2] == 'bits':
                return base.bits
            raise Unsupported('field .' + e[2])
        if k == 'index':
            base = self.ev(e[1], env)
            if not isinstance(base, list):
                raise Unsupported('index of a non-slice')
            if e[2][0] == 'range':
                lo = self.ev(e[2][1], env) if e[2][1] is not None else 0
                hi = self.ev(e[2][2], env) if e[2][2] is not None else len(base)
                if not (0 <= lo <= hi <= len(base)):
                    raise Ret(('panic', 'slice %d..%d of %d' % (lo, hi, len(base))))
                return ('slice', lo, hi)
            i = self.ev(e[2], env)
            if not (0 <= i < len(base)):
                raise Ret(('panic', 'index %d of %d' % (i, len(base))))
            return base[i]
        if k == 'bin':
            op = e[1]
            a = self.ev(e[2], env)
            if op == '&&':
                return self.truth(a) and self.truth(self.ev(e[3], env))
            if op == '||':
                return self.truth(a) or self.truth(self.ev(e[3], env))
            b = self.ev(e[3], env)
            if isinstance(a, Hdr) and isinstance(b, Hdr) and op in ('|', '&', '^'):
                return Hdr({'|': a.bits | b.bits, '&': a.bits & b.bits, '^': a.bits ^ b.bits}[op])
            if isinstance(a, bool) or isinstance(b, bool) or not isinstance(a, int) or not isinstance(b, int):
                if op in ('==', '!='):
                    return (a == b) == (op == '==')
                raise Unsupported('operator %s' % op)
            if op in ('==', '!=', '<', '>', '<=', '>='):
                return {'==': a == b, '!=': a != b, '<': a < b, '>': a > b, '<=': a <= b, '>=': a >= b}[op]
            r = {'+': a + b, '-': a - b, '*': a * b, '&': a & b, '|': a | b, '^': a ^ b, '<<': a << b, '>>': a >> b}.get(op)
            if r is None:
                raise Unsupported('operator ' + op)
            if r < 0:
                raise Ret(('panic', 'arithmetic underflow'))
            return r
        if k == 'call':
            p = e[1]
            args = [self.ev(a, env) for a in e[2]]
            if p == ['Some']:
                return ('some', args[0])
            if len(p) == 2 and p[0] in ('Header', 'Self') and p[1] == 'from_bits_truncate':
                return Hdr(args[0] & self.allbits)
            raise Unsupported('call ' + '::'.join(p))
        if k == 'structlit':
            return Obj(e[1][-1], {f: self.ev(v, env) for f, v in e[2]})
        if k == 'mcall':
            recv = self.ev(e[1], env)
            name = e[2]
            args = [self.ev(a, env) for a in e[3]]
            if isinstance(recv, Hdr):
                if name == 'bits' and not args:
                    return recv.bits
                if args and isinstance(args[0], Hdr):
                    o = args[0].bits
                    if name == 'contains':
                        return (recv.bits & o) == o
                    if name == 'intersects':
                        return (recv.bits & o) != 0
                    if name == 'intersection':
                        return Hdr(recv.bits & o)
                    if name == 'union':
                        return Hdr(recv.bits | o)
                    if name == 'difference':
                        return Hdr(recv.bits & ~o)
                if name == 'is_empty' and not args:
                    return recv.bits == 0
                if name in self.items['impl'].get('Header', {}):
                    return self.call('Header', name, recv, args)
                raise Unsupported('Header method ' + name)
            if isinstance(recv, list):
                if name == 'len' and not args:
                    return len(recv)
                if name == 'is_empty' and not args:
                    return len(recv) == 0
                raise Unsupported('slice method ' + name)
            if isinstance(recv, int) and not isinstance(recv, bool):
                if name == 'count_ones' and not args:
                    return bin(recv).count('1')
                if name in ('min', 'max') and len(args) == 1:
                    return min(recv, args[0]) if name == 'min' else max(recv, args[0])
                raise Unsupported('integer method ' + name)
            raise Unsupported('method .' + name)
        raise Unsupported('expression ' + k)


def load(srcdir):
    src = open(os.path.join(srcdir, 'types.rs')).read()
    items = {'struct': {}, 'enum': {}, 'fn': {}, 'impl': {}}
    P(tokenize(src)).items(items)
    gb.parse_trait_impls(srcdir, 'types.rs', items)
    m = re.search(r'bitflags!\s*\{\s*struct\s+Header\s*:\s*u8\s*\{(.*?)\}\s*\}', re.sub(r'//[^\n]*', '', src), re.S)
    if not m:
        raise Unsupported('bitflags! Header not found')
    consts = {}
    for c in re.finditer(r'const\s+(\w+)\s*=\s*([^;]+);', m.group(1)):
        expr = c.group(2).strip()
        if re.fullmatch(r'0b[01_]+|0x[0-9A-Fa-f_]+', expr):
            consts[c.group(1)] = int(expr.replace('_', ''), 0)
        else:
            v = 0
            for part in expr.split('|'):
                pm = re.fullmatch(r'\s*Self::(\w+)\.bits\s*', part)
                if not pm or pm.group(1) not in consts:
                    raise Unsupported('Header constant ' + c.group(1))
                v |= consts[pm.group(1)]
            consts[c.group(1)] = v
    return items, consts


def main():
    try:
        items, consts = load(sys.argv[1])
        ft = {'Data': 0, 'Time': 1, 'Control': 2}
        rows = []
        for b in range(256):
            ce = CE(items, consts)
            h = Hdr(b & ce.allbits)
            t = ce.call('Header', 'frame_type', h, [])
            vals = [ce.call('Header', n, Hdr(h.bits), []) for n in
                    ('resolution_is_12bit', 'has_data', 'num_payload_bytes', 'has_x_data', 'has_y_data', 'has_z_data')]
            if not (isinstance(t, tuple) and t[0] == 'enum' and t[2] in ft) or not isinstance(vals[2], int):
                raise Unsupported('Header methods return unexpected values')
            rows.append('(%d, %d, %s, %s, %d, %s, %s, %s)' % (b, ft[t[2]], *[str(v).lower() if isinstance(v, bool) else v for v in vals]))
        nrows = []
        for b in range(256):
            for rem in range(0, 9):
                ce = CE(items, consts)
                buf = [0, 0, 0] + ([b] + [0] * (rem - 1) if rem >= 1 else [])
                it = Obj('FifoFrames', {'index': 3, 'bytes': buf})
                r = ce.call('FifoFrames', 'next', it, [])
                idx = it.fields['index']
                if isinstance(r, tuple) and r and r[0] == 'panic':
                    y = 'none'
                    idx = 999          # a panic is never the model's behaviour
                elif isinstance(r, tuple) and r[0] == 'none':
                    y = 'none'
                elif isinstance(r, tuple) and r[0] == 'some' and isinstance(r[1], Obj) and isinstance(r[1].fields.get('slice'), tuple):
                    y = 'some (%d, %d)' % (r[1].fields['slice'][1], r[1].fields['slice'][2])
                else:
                    raise Unsupported('next() returns an unexpected value')
                nrows.append('(%d, %d, %s, %d)' % (b, rem, y, idx))
    except Unsupported as ex:
        sys.stderr.write('outside the translatable subset: %s\n' % ex)
        sys.exit(1)
    except Exception as ex:
        sys.stderr.write('outside the translatable subset: %s: %s\n' % (type(ex).__name__, ex))
        sys.exit(1)
    print('/- GENERATED by tools/gen_fifo.py from src/types.rs on every check run.  Do not edit.')
    print('   Concrete execution of the Header methods on all 256 header bytes, and of FifoFrames::next()')
    print('   on all 256 bytes under the cursor x 0..8 bytes left in the buffer. -/')
    print('namespace Bma400')
    print('namespace Generated')
    print('namespace FifoT')
    print()
    print('/-- (byte, frame type 0 data / 1 time / 2 control, 12 bit, has data, payload bytes, x, y, z) -/')
    print('def header : List (Nat × Nat × Bool × Bool × Nat × Bool × Bool × Bool) :=')
    print('  [' + ',\n   '.join(rows) + ']')
    print()
    print('/-- (byte under the cursor, bytes left, yielded slice (start, stop), cursor afterwards); cursor starts at 3 -/')
    print('def next : List (Nat × Nat × Option (Nat × Nat) × Nat) :=')
    out = []
    for i in range(0, len(nrows), 9):
        out.append(', '.join(nrows[i:i + 9]))
    print('  [' + ',\n   '.join(out) + ']')
    print()
    print('end FifoT')
    print('end Generated')
    print('end Bma400')


if __name__ == '__main__':
    main()
