#!/usr/bin/env python3
"""apply each behaviour-preserving patch (benign/<id>/patch.diff) to /repo, run ALL checks, undo;
print which checks raise an alarm (every alarm here is a false alarm unless the patch is not
really behaviour preserving)"""
import sys, os, subprocess, json, glob
ROOT = os.path.dirname(os.path.dirname(os.path.abspath(__file__)))
REPO = os.environ.get('VERIF_REPO', '/repo')
dirs = sys.argv[1:] or sorted(glob.glob(ROOT + '/benign/*/'))
ALL = ['C%02d' % i for i in range(1, 21)]
for d in dirs:
    d = d.rstrip('/')
    patch = os.path.join(d, 'patch.diff')
    name = os.path.basename(d)
    assert subprocess.run(['git', '-C', REPO, 'status', '--porcelain', '--untracked-files=no'], capture_output=True, text=True).stdout.strip() == '', 'repo dirty'
    r = subprocess.run(['git', '-C', REPO, 'apply', patch])
    if r.returncode != 0:
        print(name, 'PATCH DOES NOT APPLY'); continue
    try:
        res = {}
        for p in os.environ.get('PROPS', '').split() or ALL:
            out = subprocess.run(['./check', p], cwd=ROOT, capture_output=True, text=True).stdout
            v = [l for l in out.split('\n') if l.startswith('VIOLATION')]
            if v:
                res[p] = 'no-failing-input' if 'no-failing-input-found' in v[0] else 'WITH INPUT ' + v[0].split('replay=')[1]
            elif 'check machinery broken' in out:
                res[p] = 'machinery broken'
        print(name, json.dumps(res), flush=True)
    finally:
        subprocess.run(['git', '-C', REPO, 'checkout', '--', '.'])
        subprocess.run('git -C ' + ROOT + ' checkout -- evidence lean/Bma400/Generated.lean lean/Bma400/GeneratedEnc.lean lean/Bma400/GeneratedBld.lean lean/Bma400/GeneratedApi.lean lean/Bma400/GeneratedFrames.lean lean/Bma400/GeneratedFifo.lean lean/Bma400/GeneratedSet.lean', shell=True)
