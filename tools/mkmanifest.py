#!/usr/bin/env python3
"""Writes /verif/MANIFEST.json from tools/theorems.json (which properties have registered
theorems) and the per-property texts below."""
import json, os
ROOT = os.path.dirname(os.path.dirname(os.path.abspath(__file__)))
T = json.load(open(os.path.join(ROOT, 'tools', 'theorems.json')))

COMMON_NOTE = ('Trusted: Lean 4.33 kernel (axioms propext/Classical.choice/Quot.sound only, audited with #print axioms on every run; '
               'no sorry/native_decide/bv_decide); Datasheet.lean/Spec.lean/Fifo.lean as the specification; the Rust harness and its simulated '
               'chip (mirrored in Lean); the hand-written model agrees with the crate on every generated case of this run but is not '
               'extracted from the Rust, so inputs outside the enumerated/sampled streams rest on the correspondence.')

TEXT = {
 'C01': ('Lean theorems over the model of every builder write(): from any state in which the recorded configuration equals the device, an accepted request leaves exactly the datasheet-level target on the block and every other register unchanged (all requests, all setter lists, all states); lifted to all histories by Thm/Reach (the invariants hold in every state reachable by any history of calls under any data-fault schedules; config_reachable states C01 for the concrete call over either transport). Tied to the crate by differential runs (preamble-built states x random requests, long histories) and by evaluating the same predicate P.C01 on the crate\'s own register dumps.', '4 C01'),
 'C02': ('Lean theorem: for every setter and every argument the model encoder equals the datasheet field semantics (mask/code table written independently) for all 256 prior byte values, touches only its field, sets no reserved bit; unsupported sources map to the documented substitute (the partial register-level encoders are shown total at the API). The model encoders are additionally proved equal to a TRANSLATION of all 130 with_* encoders of src/registers.rs regenerated on every run (tools/gen_encoders.py, Thm/Encoders). Tie: every setter x every argument x several register backgrounds through the real builders, byte on the simulated chip compared with the datasheet decoding.', '4 C02'),
 'C03': ('Lean theorems: Measurement::to_i16 equals the 12-bit sign extension for all 65 536 byte pairs, scaling is multiplication by 1/2/4/8 without i16 overflow, both getters are one 6-byte burst at 0x04, and the range used equals the device range in every coherent state. Tie: boundary + random (thorough: all 65 536) byte pairs per axis x 4 ranges, and histories with rejected / failed requests, self tests and resets.', '4 C03'),
 'C04': ('Lean theorem by induction over an arbitrary list of well-formed frames: iterating the encoded stream (followed by nothing, the empty marker, or any strict prefix of a frame) yields exactly the views of the encoded frames, for all 4096 sample values, all axis subsets, both resolutions. Tie: per-frame exhaustive value sweeps, all sequences over a kind alphabet, long random streams with every truncation point; the Lean encoder is cross-checked against the generator\'s encoder on every case.', '4 C04'),
 'C05': ('Lean theorems for every byte list (no length bound): next() advances the cursor by at least one byte while inside the buffer, yields only in-bounds non-overlapping increasing sub-slices of header-implied length, every accessor index is inside the yielded slice, iteration is over within len+1 calls. Tie: all buffers of length <= 2 over all byte values, all buffers up to length 4/5 over a boundary alphabet, random buffers up to 1024 bytes, each accessor under catch_unwind.', '4 C05'),
 'C06': ('Lean theorems: the ODR/interrupt invariant on the device is preserved by every configuration call with every outcome (including calls cut short by a bus error, which only remove enables) and by self tests and resets at every prefix (Thm/Reach.plan_prefix_inv, reach_step); a request is rejected iff the ideal post-state violates the invariant, with the matching error, and a rejected request emits nothing and changes nothing. Tie: exhaustive 7 ODR x 2^5 enables x 2^3 sources pre-states x request classes.', '4 C06'),
 'C07': ('Lean theorem over every builder script from every coherent state: at each write to a parameter register of gen1/gen2/activity-change/tap/orientation/wake-up/FIFO-watermark, that interrupt is disabled in the device state at that instant (prefix-closed, so also under any fault schedule). Tie: P.C07 evaluated on the crate\'s journals against the simulated chip\'s own enable bits.', '4 C07'),
 'C08': ('Lean theorem over every builder script from every coherent state: no read; own-block registers written at most once, only with the requested value and only if the device differs; outside the block only enable registers, each written first with a strict sub-value and last with its original value. Tie: P.C08 on the crate\'s journals.', '4 C08'),
 'C09': ('Lean arithmetic theorems (omega / kernel evaluation) for all argument values: watermark min(v,1024) in 11 bits, timeout/period min(v,4095) in 12 bits, sample count clamp-1, 12-bit references clamp + two\'s complement, 8-bit references, durations verbatim; reassembly across the register pair; co-resident bits preserved; the masks and patterns of the numeric encoders are translated from src/registers.rs on every run (Thm/Encoders). Tie: boundary + random (thorough: all 65 536) argument values against several co-resident backgrounds.', '4 C09'),
 'C10': ('Lean theorems about the self-test action list from every coherent state and for all sensor responses: set-up state at first excitation, order with >= 50 ms (DelayMs arguments) before each data read, verdict iff thresholds exceeded (no i16 overflow), device and shadow restored in both cases. Partial: settling time is the argument passed to DelayMs, not elapsed time.', '4 C10'),
 'C11': ('Lean theorems: soft_reset is [write 0x7E 0xB6, read 0x0D]; after Ok the recorded configuration is the default whatever the prior state; the driver state is exactly the recorded configuration, so any follow-up program behaves as on a fresh driver; from every reachable state (Thm/Programs.reset_reachable, C11_program). Tie: twin runs (history; reset; program) vs (fresh; program) compared on the crate itself.', '4 C11'),
 'C12': ('Lean theorem by induction over an arbitrary list of bus actions, any fault schedule: every raw I2C operation is write(dev,[reg,val]) or write_read(dev,[reg],n) to the build-time address; exact decoding for fault-free runs; burst length per operation. Tie: P.C12 evaluated on the raw embedded-hal calls of every public operation in two builds of the crate (default address 0x14 and the i2c-alt feature 0x15, which the test suite never builds).', '4 C12'),
 'C13': ('Lean theorem by induction over an arbitrary list of bus actions, any fault schedule (pin and data faults): the SPI journal is a sequence of well-formed chip-select windows of the BMA400 protocol, nothing is clocked while chip-select is high, a successful call ends released; constructors begin with the throw-away read, 3-wire writes 0x7C<-0x01. Tie: P.C13 on a single ordered journal of pin edges and transfers from the real crate. Partial: electrical timing is outside any model.', '4 C13'),
 'C14': ('Lean theorem: for every action list, fault-free, the I2C and the SPI run decode to the same register-level accesses, return the same bytes and leave the same device and recorded configuration (both refine one abstract executor); lifted to every program of calls by induction (Thm/Programs.C14_program). Tie: the same random programs over both simulated transports on the real crate, compared with each other.', '4 C14'),
 'C15': ('Lean theorem by induction over an arbitrary list of bus actions, both transports, EVERY fault schedule (not only single faults): the call returns exactly the first failed raw operation (IOError for data, ChipSelectPinError for pin, carrying its index), never Ok, and nothing but the chip-select release follows it. Tie: every operation x every fault position on the real crate with tagged errors, catch_unwind per case.', '4 C15'),
 'C16': ('Lean theorem: "recorded configuration = device" is an invariant of every API call under every schedule of data-operation failures (a failed write is not applied), so every later accepted request satisfies C01/C08 verbatim (Thm/Reach.exec_prefix: a faulted run is the abstract run of a prefix; Thm/Programs.C16_recovery: the whole sentence for any history). Pin-release failures (ChipSelectPinError) are outside the property ("bus error") and excluded, stated. Tie: every operation x every data-fault position, then recovery requests; shadow dump (hook) vs chip.', '4 C16'),
 'C17': ('Lean theorems for all register contents: each getter is one burst read at the datasheet address/length and returns the datasheet decoding (flags for all 256 values, FIFO length for all 65 536 pairs and 24-bit counters for all 2^24 by arithmetic, temperature exact as 2t); reserved 2-bit code 3 left free. Tie: exhaustive 256 values per single-byte register in three lane patterns + random register files.', '4 C17'),
 'C18': ('Lean theorems: every constructor succeeds iff the id byte is 0x90 (all 256 values) else ChipIdReadFailed, SPI constructors read twice, 3-wire writes 0x7C<-0x01; the default recorded configuration equals the datasheet reset table, which the translator-generated table from registers.rs is proved equal to. Tie: 256 ids x 3 constructors, first requests per block.', '4 C18'),
 'C19': ('Lean theorems: read_fifo_frames is refused without bus traffic iff bit 0 of recorded 0x29 is set, else one burst of exactly the buffer length at 0x14, for every length; with coherence the guard equals the device bit; flush/clear send 0xB0/0xB1; reset clears the flag. Tie: histories over power on/off, other FIFO setters, faults, self tests, resets followed by reads.', '4 C19'),
 'C20': ('Lean theorem by induction over an arbitrary list of bus actions and every schedule of SPI data failures: chip-select is high when the call returns. Tie: P.C20 on the crate\'s journal plus the simulated chip\'s own chip-select level, every data-fault position of every operation, followed by further accesses that must have their normal effect.', '4 C20'),
}

checks = []
na = []
for i in range(1, 21):
    p = 'C%02d' % i
    if p in T and T[p]['theorems']:
        text, ref = TEXT[p]
        checks.append({
            'property_id': p,
            'quick_cmd': './check %s --tier quick' % p,
            'thorough_cmd': './check %s --tier thorough' % p,
            'evidence_file': 'evidence/%s.json' % p,
            'replay_cmd_template': './check %s --replay {path}' % p,
            'engine': 'lean4-model+differential-harness',
            'level_claimed': {'category': 'proof', 'text': text, 'design_ref': 'DESIGN.md section ' + ref},
            'level_note': COMMON_NOTE,
            'technique': 'machine-checked proof in Lean 4 about a hand-written model; model tied to the crate by a differential correspondence check and by evaluating the theorem\'s own predicate on the crate\'s observations',
        })
    else:
        na.append({'property_id': p, 'reason': 'check exists and runs (correspondence + predicate on the crate), but its Lean theorems are not yet registered in this revision; not claimed until they are'})

m = {
    'version': 1,
    'setup_cmd': './check --setup',
    'hooks': {
        'guard': 'bma400_verif',
        'enable': 'RUSTFLAGS="--cfg bma400_verif" (set in harness/.cargo/config.toml); exposes BMA400::verif_shadow() and Frame::verif_slice()',
        'baseline_off_cmd': 'cd /repo && cargo test --workspace --no-fail-fast --offline',
        'source_commits': ['04b9dd4', '9286bfa'],
        'add_only': True,
    },
    'engines': [
        {'name': 'lean4-model+differential-harness', 'path': 'lean/ (model, theorems, judge), harness/ (Rust), check, tools/',
         'serves_properties': [c['property_id'] for c in checks],
         'kind_free_text': 'Lean 4 model of the driver with per-property theorems; Rust harness drives the real crate against a simulated chip; check compares model and crate and evaluates the Lean predicates on the crate\'s observations'},
    ],
    'checks': checks,
    'not_applicable': na,
    'notes': 'See DESIGN.md. Genuine defects found and repaired in /repo are listed in known_findings.txt ("fixed:" entries suppress nothing).',
}
json.dump(m, open(os.path.join(ROOT, 'MANIFEST.json'), 'w'), indent=1)
print('claimed:', [c['property_id'] for c in checks])
