#!/bin/bash
# confirm a seeded change in a scratch worktree: suite passes with it, demo fails with it and passes without
# usage: confirm_seeded.sh <seeded dir> ; prints one line of JSON
set -u
D=$1
WT=/tmp/wt_confirm_$$
git -C /repo worktree add -q --detach $WT HEAD
cp $D/demo.rs $WT/tests/zz_demo.rs
cd $WT
base=$(cargo test --offline --target-dir $WT/target --test zz_demo 2>&1 | grep -E "^test result" | head -1)
git apply $D/patch.diff; ap=$?
suite=$(cargo test --offline --target-dir $WT/target --lib --test i2c --test spi 2>&1 | grep -E "^test result" | tr '\n' ' ')
doc=$(cargo test --offline --target-dir $WT/target --doc 2>&1 | grep -E "^test result" | head -1)
demo=$(cargo test --offline --target-dir $WT/target --test zz_demo 2>&1 | grep -E "^test result" | head -1)
cd /
git -C /repo worktree remove --force $WT
echo "{\"dir\": \"$D\", \"applied\": $ap, \"demo_without\": \"$base\", \"suite_with\": \"$suite\", \"doc_with\": \"$doc\", \"demo_with\": \"$demo\"}"
