#!/bin/bash
# regression of the checks against the seeded / benign corpora on a COPY of the repository
#   VERIF_REPO=<copy of /repo> bash tools/regress.sh seeded|benign [dirs...]
# (run from a snapshot of /verif, e.g. `vp run --with-repo -- bash -c 'VERIF_REPO=$VP_RUN_REPO bash tools/regress.sh seeded'`)
set -u
cd "$(dirname "$0")/.."
export VERIF_REPO=${VERIF_REPO:-/repo}
if [ "$VERIF_REPO" != "/repo" ]; then
  sed -i "s|path = \"/repo\"|path = \"$VERIF_REPO\"|" harness/Cargo.toml
  git -C "$VERIF_REPO" init -q 2>/dev/null; git -C "$VERIF_REPO" add -A >/dev/null 2>&1; git -C "$VERIF_REPO" -c user.email=x -c user.name=x commit -qm snap >/dev/null 2>&1
fi
./check --setup >/dev/null 2>&1 || { echo "setup failed"; exit 2; }
kind=$1; shift
if [ "$kind" = seeded ]; then
  dirs=${@:-$(ls -d $PWD/seeded/*/)}
  python3 tools/try_seeded.py $dirs
else
  dirs=${@:-$(ls -d $PWD/benign/*/)}
  python3 tools/try_benign.py $dirs
fi
