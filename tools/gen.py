"""Case generators for the correspondence / judge streams.

A case is one text line (format: lean/Bma400/Proto.lean).  Everything random
derives from one `random.Random(seed)` so that a stream replays exactly.
"""
import random
import os

# quick-tier multiplier of the random stream sizes (the exhaustive streams ignore it)
QS = int(os.environ.get('VERIF_QSCALE', '3'))

B3 = ['b', 'b', 'b']
SETTERS = {
    'acc': [('pm', ['e3']), ('osrlp', ['e4']), ('bw', ['e2']), ('odr', ['e7']), ('osr', ['e4']),
            ('scale', ['e4']), ('src', ['e3'])],
    'int': [(n, ['b']) for n in 'drdy fwm ffull gen2 gen1 orient latch actch dtap stap step'.split()],
    'pin': [(n, ['e4']) for n in 'drdy fwm ffull ovrrn gen2 gen1 orient wkup actch tap step'.split()]
           + [('int1', ['e4']), ('int2', ['e4'])],
    'fifo': [('rddis', ['b']), ('axes', B3), ('8bit', ['b']), ('src', ['e3']), ('time', ['b']),
             ('stop', ['b']), ('flush', ['b']), ('wm', ['u16'])],
    'alp': [('timeout', ['u16']), ('trig', ['e3']), ('gen1', ['b']), ('drdy', ['b'])],
    'awk': [('period', ['u16']), ('periodic', ['b']), ('actint', ['b'])],
    'wkup': [('ref', ['e3']), ('n', ['u8']), ('axes', B3), ('thr', ['u8']), ('refacc', ['i8'] * 3)],
    'ori': [('axes', B3), ('src', ['e3']), ('ref', ['e3']), ('thr', ['u8']), ('dur', ['u8']),
            ('refacc', ['i16'] * 3)],
    'gen1': [('axes', B3), ('src', ['e3']), ('ref', ['e4']), ('hyst', ['e4']), ('crit', ['e2']),
             ('logic', ['e2']), ('thr', ['u8']), ('dur', ['u16']), ('refacc', ['i16'] * 3)],
    'act': [('thr', ['u8']), ('axes', B3), ('src', ['e3']), ('obs', ['e5'])],
    'tap': [('axis', ['e3']), ('sens', ['e8']), ('min', ['e4']), ('dtap', ['e4']), ('max', ['e4'])],
}
SETTERS['gen2'] = SETTERS['gen1']
BUILDERS = list(SETTERS.keys())

BOUND = {
    'u8': [0, 1, 2, 7, 8, 9, 15, 16, 127, 128, 254, 255],
    'u16': [0, 1, 15, 16, 17, 255, 256, 257, 1023, 1024, 1025, 2047, 2048, 4094, 4095, 4096, 4097,
            32767, 32768, 65534, 65535],
    'i8': [-128, -127, -1, 0, 1, 126, 127],
    'i16': [-32768, -32767, -4097, -4096, -2049, -2048, -2047, -257, -256, -255, -1, 0, 1, 255, 256,
            2046, 2047, 2048, 4095, 4096, 32767],
}
RANGE = {'u8': (0, 255), 'u16': (0, 65535), 'i8': (-128, 127), 'i16': (-32768, 32767)}

GETTERS = ['id', 'cmderr', 'status', 'unscaled', 'data', 'clock', 'resetstat', 'is0', 'is1', 'is2',
           'fifolen', 'steps', 'activity', 'rawtemp', 'celsius']


def all_values(ty):
    if ty == 'b':
        return [0, 1]
    if ty[0] == 'e':
        return list(range(int(ty[1:])))
    lo, hi = RANGE[ty]
    return list(range(lo, hi + 1))


def rand_value(rng, ty):
    if ty == 'b':
        return rng.randrange(2)
    if ty[0] == 'e':
        return rng.randrange(int(ty[1:]))
    if rng.random() < 0.5:
        return rng.choice(BOUND[ty])
    lo, hi = RANGE[ty]
    return rng.randint(lo, hi)


def setter_tok(name, args):
    return name + ':' + ','.join(str(a) for a in args)


def rand_setter(rng, builder):
    name, tys = rng.choice(SETTERS[builder])
    return setter_tok(name, [rand_value(rng, t) for t in tys])


def rand_request(rng, builder=None, maxn=4):
    b = builder or rng.choice(BUILDERS)
    r = rng.random()
    n = 0 if r < 0.12 else rng.randint(1, maxn)
    return ' '.join([b] + [rand_setter(rng, b) for _ in range(n)])


def reach_state(rng, rich=True):
    """A preamble of API calls that leaves the driver in a varied, non-default state."""
    ops = []
    mode = rng.choice(['tap', 'filt1', 'other', 'other'])
    odr = {'tap': 4, 'filt1': 3, 'other': rng.choice([0, 1, 2, 5, 6])}[mode]
    ops.append('acc odr:%d scale:%d pm:%d' % (odr, rng.randrange(4), rng.randrange(3)))
    srcs = {}
    for g in ['gen1', 'gen2', 'act']:
        srcs[g] = rng.randrange(2)
        extra = ''
        if rng.random() < 0.6:
            extra = ' ' + rand_setter(rng, g)
        ops.append('%s src:%d%s' % (g, srcs[g], extra))
    if rich:
        for b in rng.sample(['fifo', 'alp', 'awk', 'ori', 'tap', 'pin', 'wkup'], rng.randint(2, 6)):
            ops.append(rand_request(rng, b, 3))
    # wake-up axes (the wake-up interrupt's enable bits)
    if rng.random() < 0.6:
        ops.append('wkup axes:%d,%d,%d' % (rng.randrange(2), rng.randrange(2), rng.randrange(2)))
    if rng.random() < 0.4:
        ops.append('awk actint:1')
    if rng.random() < 0.5:
        ops.append('fifo axes:%d,%d,%d' % (rng.randrange(2), rng.randrange(2), rng.randrange(2)))
    # interrupt enables consistent with the ODR
    en = []
    for n in ['drdy', 'fwm', 'ffull', 'orient', 'latch', 'step']:
        if rng.random() < 0.5:
            en.append('%s:1' % n)
    for g, n in [('gen1', 'gen1'), ('gen2', 'gen2'), ('act', 'actch')]:
        ok = srcs[g] == 1 or mode == 'filt1'
        if ok and rng.random() < 0.7:
            en.append('%s:1' % n)
    if mode == 'tap':
        k = rng.randrange(4)
        if k & 1:
            en.append('stap:1')
        if k & 2:
            en.append('dtap:1')
    rng.shuffle(en)
    if en:
        ops.append('int ' + ' '.join(en))
    if rng.random() < 0.15:
        # an invalid request: must be rejected and change nothing
        ops.append(rng.choice(['int stap:1 gen1:1 actch:1 gen2:1', 'acc odr:%d' % rng.randrange(7),
                               'gen1 src:0', 'act src:0', 'gen2 src:0', 'int dtap:1']))
    if rich and rng.random() < 0.5:
        ops.append(rand_request(rng, 'pin', 4))
    return ops


def rand_low(rng):
    """contents of registers 0x00..0x18 (id first)"""
    low = [0x90] + [rng.randrange(256) for _ in range(24)]
    return ''.join('%02x' % b for b in low)


def hexs(bs):
    return ''.join('%02x' % (b & 0xFF) for b in bs)


def case(cid, ctor, ops, header=''):
    h = '%s %s' % (cid, ctor)
    if header:
        h += ' ' + header
    return ' | '.join([h] + ops)


# ------------------------------------------------------------------ streams

def stream_builders(rng, n, transports=('i2c', 'spi')):
    """preamble + one request under test; fault free"""
    out = []
    for i in range(n):
        ops = reach_state(rng)
        ops.append(rand_request(rng))
        if rng.random() < 0.5:
            ops.append(rand_request(rng))
        out.append(case('b%d' % i, rng.choice(transports), ops))
    return out


def stream_histories(rng, n, length=12):
    """longer random histories of requests, self tests and resets (C01 'any history')"""
    out = []
    for i in range(n):
        ops = reach_state(rng, rich=False)
        for _ in range(rng.randint(3, length)):
            r = rng.random()
            if r < 0.08:
                ops.append('selftest')
            elif r < 0.14:
                ops.append('reset')
            elif r < 0.2:
                ops.extend(reach_state(rng, rich=False)[-2:])
            elif r < 0.27:
                # a call cut short by a bus error is part of the history too
                ops.append(rng.choice(['selftest !%d' % rng.randrange(18), 'reset !%d' % rng.randrange(2),
                                       rand_request(rng) + ' !%d' % rng.randrange(12)]))
            elif r < 0.34:
                ops.append('int drdy:%d fwm:%d ffull:%d orient:%d step:%d latch:%d' % tuple(rng.randrange(2) for _ in range(6)))
            else:
                ops.append(rand_request(rng))
        hdr = 'pos=%s neg=%s' % (hexs(sample6(rng, True)), hexs(sample6(rng, False)))
        out.append(case('h%d' % i, ctor_for(rng, ops), ops, hdr))
    return out


def background_ops(rng, builder, kind):
    """requests that put varied contents into the registers of `builder`'s block"""
    if kind == 0:
        return []
    ops = []
    sets = SETTERS[builder]
    toks = []
    for name, tys in sets:
        if kind == 1:
            args = [(1 if t == 'b' else (int(t[1:]) - 1 if t[0] == 'e' else RANGE[t][1])) for t in tys]
        elif kind == 2:
            args = [(1 if t == 'b' else (int(t[1:]) - 1 if t[0] == 'e' else RANGE[t][0] if t[0] == 'i' else 0xA5 & RANGE[t][1])) for t in tys]
        else:
            args = [rand_value(rng, t) for t in tys]
        toks.append(setter_tok(name, args))
    if builder == 'acc':
        # keep the ODR such that nothing is rejected
        toks = [t for t in toks if not t.startswith('odr')]
    if builder == 'int':
        # enables need matching ODR / sources: make them acceptable
        ops.append('gen1 src:1')
        ops.append('gen2 src:1')
        ops.append('act src:1')
        ops.append('acc odr:4')
    ops.append(' '.join([builder] + toks))
    return ops


def stream_setters(rng, tier):
    """every setter x every argument (numeric: all values for u8/i8, boundary+random for 16 bit
    in quick, all 65536 in thorough) x several register backgrounds; single-setter requests"""
    out = []
    n = 0
    kinds = [0, 1, 2, 3] if tier == 'quick' else [0, 1, 2, 3, 3, 3, 3, 3]
    for b in BUILDERS:
        for name, tys in SETTERS[b]:
            # argument tuples
            if len(tys) == 1:
                t = tys[0]
                if t in ('u16', 'i16') and tier == 'quick':
                    vals = BOUND[t] + [rand_value(rng, t) for _ in range(60)]
                else:
                    vals = all_values(t)
                argsets = [[v] for v in vals]
            else:
                t = tys[0]
                if t == 'b':
                    argsets = [[(k >> 0) & 1, (k >> 1) & 1, (k >> 2) & 1] for k in range(8)]
                else:
                    vals = BOUND[t] + [rand_value(rng, t) for _ in range(QS * 40 if tier == 'quick' else 400)]
                    if t == 'i8' or (tier != 'quick' and t == 'i16'):
                        vals = all_values(t)
                    argsets = []
                    for v in vals:
                        argsets.append([v, rng.choice(BOUND[t]), rng.choice(BOUND[t])])
                        argsets.append([rng.choice(BOUND[t]), v, rng.choice(BOUND[t])])
                        argsets.append([rng.choice(BOUND[t]), rng.choice(BOUND[t]), v])
            big = len(argsets) > 2000
            for kind in (kinds if not big else [0, 3]):
                pre = background_ops(rng, b, kind)
                # many arguments against one background: chain them in one case (each request
                # is judged against the state left by the previous one)
                chunk = 40
                for k in range(0, len(argsets), chunk):
                    ops = list(pre)
                    if b == 'int':
                        pass
                    for a in argsets[k:k + chunk]:
                        ops.append('%s %s' % (b, setter_tok(name, a)))
                    out.append(case('s%d' % n, 'i2c', ops))
                    n += 1
    return out


def stream_setter_pairs(rng, tier):
    """every setter: every ordered pair (previous argument, new argument) for enumerated /
    boolean arguments, boundary pairs for numeric ones - 'every prior content' of the setter's
    own field (an encoder that ORs a code into a field it has not cleared shows only here)"""
    out = []
    n = 0
    for b in BUILDERS:
        pre = []
        if b == 'int':
            pre = ['gen1 src:1', 'gen2 src:1', 'act src:1', 'acc odr:4']
        for name, tys in SETTERS[b]:
            if b == 'acc' and name == 'odr':
                pre2 = []
            else:
                pre2 = pre
            t = tys[0]
            if len(tys) == 1:
                vals = all_values(t) if (t == 'b' or t[0] == 'e') else BOUND[t]
                argsets = [[v] for v in vals]
            elif t == 'b':
                argsets = [[(k >> 0) & 1, (k >> 1) & 1, (k >> 2) & 1] for k in range(8)]
            else:
                bs = BOUND[t][::3]
                argsets = [[v, v, v] for v in bs] + [[bs[0], bs[-1], bs[len(bs) // 2]]]
            for a0 in argsets:
                ops = list(pre2)
                for a1 in argsets:
                    ops.append('%s %s' % (b, setter_tok(name, a0)))
                    ops.append('%s %s' % (b, setter_tok(name, a1)))
                out.append(case('sq%d' % n, 'i2c', ops))
                n += 1
    return out


def stream_setters_after(rng, tier):
    """every setter of every builder after: a rich request on the same block, then a soft reset
    (complete, or with its event read failing), a self test or a command - `every prior content`
    includes the content a reset leaves behind, on the device AND in what the driver records"""
    out = []
    n = 0
    mids = ['reset', 'reset !1', 'selftest', 'flush']
    for b in BUILDERS:
        for name, tys in SETTERS[b]:
            for mid in (mids if tier != 'quick' else [mids[0], rng.choice(mids[1:])]):
                first = ' '.join([b] + [rand_setter(rng, b) for _ in range(rng.randint(3, 6))])
                second = '%s %s' % (b, rand_setter(rng, b)) if rng.random() < 0.3 else \
                    '%s %s' % (b, setter_tok(name, [rand_value(rng, t) for t in tys]))
                pre = ['gen1 src:1', 'gen2 src:1', 'act src:1'] if b == 'int' else []
                out.append(case('sa%d' % n, rng.choice(['i2c', 'i2c', 'spi']), pre + [first, mid, second, b], ''))
                n += 1
    return out


def stream_selftest_faults(rng, tier):
    """every interrupt enabled; self test cut at EVERY raw position (set-up, measurement, each of
    the six restoring writes) or complete; then a parameter change of that interrupt, a no-op
    request and the enables again"""
    out = []
    n = 0
    for name, (pre, reqs) in SINGLE.items():
        odr = {'stap': 4, 'dtap': 4}.get(name, 3)
        for k in list(range(18)) + [None]:
            for rq in rng.sample(reqs, min(len(reqs), 2 if tier == 'quick' else len(reqs))):
                ops = ['acc odr:%d scale:%d osr:%d' % (odr, rng.randrange(4), rng.randrange(4))] + pre
                ops.append('selftest' + ('' if k is None else ' !%d' % k))
                ops.append('data')      # scaled with the range the DEVICE has now (C16, C03)
                ops += [rq, 'int', rq.split(' ')[0], 'data']
                hdr = 'pos=%s neg=%s' % (hexs(sample6(rng, True)), hexs(sample6(rng, False)))
                out.append(case('sf%d' % n, 'i2c', ops, hdr))
                n += 1
    return out


def stream_getters_hist(rng, tier):
    """C17: every getter after configuration histories (a getter must not depend on the
    recorded configuration) and on random register files"""
    out = []
    for i in range(QS * 150 if tier == 'quick' else 3000):
        ops = reach_state(rng, rich=True)
        ops += ['fifo rddis:%d' % rng.randrange(2), 'acc pm:%d' % rng.randrange(3)]
        rng.shuffle(ops)
        gs = list(GETTERS) + ['data', 'unscaled', 'rfifo:7']
        rng.shuffle(gs)
        low = [0x90] + [rng.randrange(256) for _ in range(24)]
        out.append(case('gh%d' % i, rng.choice(['i2c', 'spi']), ops + gs, 'low=' + hexs(low)))
    # a getter returns what the register holds NOW: the registers change between calls (`@rHH=VV`),
    # with resets, self tests and other getters in between (nothing a previous call saw may be served again)
    regs_of = {'id': [0], 'cmderr': [2], 'status': [3], 'unscaled': [4, 5, 6, 7, 8, 9], 'data': [4, 5, 6, 7, 8, 9],
               'clock': [0x0A, 0x0B, 0x0C], 'resetstat': [0x0D], 'is0': [0x0E], 'is1': [0x0F], 'is2': [0x10],
               'rawtemp': [0x11], 'celsius': [0x11], 'fifolen': [0x12, 0x13], 'steps': [0x15, 0x16, 0x17], 'activity': [0x18]}
    for i in range(QS * 150 if tier == 'quick' else 3000):
        ops = []
        for _ in range(rng.randint(4, 12)):
            g = rng.choice([x for x in GETTERS if x in regs_of and x != 'id'] + ['data', 'unscaled'])
            r = rng.random()
            if r < 0.15:
                ops.append(rng.choice(['reset', 'selftest', 'flush', 'rfifo:3', rand_request(rng)]))
            toks = ''.join(' @r%02x=%02x' % (a, rng.choice([0x00, 0x01, 0x03, 0xFF, 0x80, rng.randrange(256)])) for a in regs_of[g]) \
                if rng.random() < 0.7 else ''
            ops.append(g + toks)
        out.append(case('gp%d' % i, rng.choice(['i2c', 'spi']), ops, 'low=' + hexs([0x90] + [rng.randrange(256) for _ in range(24)])))
    return out


def stream_first_requests(rng, tier):
    """C18: first request per block on a fresh driver, every setter x boundary / every
    enumerated argument: exactly the registers that differ from the reset values are written"""
    out = []
    n = 0
    for ctor in ('i2c', 'spi', 'spi3'):
        for b in BUILDERS:
            for name, tys in SETTERS[b]:
                t = tys[0]
                if len(tys) == 1:
                    vals = all_values(t) if (t == 'b' or t[0] == 'e') else BOUND[t] + [rand_value(rng, t) for _ in range(4)]
                    argsets = [[v] for v in vals]
                elif t == 'b':
                    argsets = [[(k >> 0) & 1, (k >> 1) & 1, (k >> 2) & 1] for k in range(8)]
                else:
                    bs = BOUND[t][::4]
                    argsets = [[v, 0, 0] for v in bs] + [[0, v, 0] for v in bs] + [[0, 0, v] for v in bs]
                if ctor != 'i2c':
                    argsets = argsets[::3]
                for a in argsets:
                    out.append(case('fr%d' % n, ctor, ['%s %s' % (b, setter_tok(name, a))]))
                    n += 1
    # first requests made of SEVERAL setters of one builder (an encoder that disturbs a neighbouring
    # field, a setter that forgets what an earlier setter of the same chain put into the copy)
    for b in BUILDERS:
        for i in range(QS * 12 if tier == 'quick' else 400):
            out.append(case('fr%d' % n, rng.choice(['i2c', 'i2c', 'spi', 'spi3']),
                            [' '.join([b] + [rand_setter(rng, b) for _ in range(rng.randint(2, 4))])]))
            n += 1
    # the pin electrical configuration: every ordered pair of (INT1, INT2) settings, both orders
    for c1 in range(4):
        for c2 in range(4):
            out.append(case('fr%d' % n, 'i2c', ['pin int1:%d int2:%d' % (c1, c2)]))
            out.append(case('fr%d' % (n + 1), 'i2c', ['pin int2:%d int1:%d' % (c2, c1)]))
            n += 2
    return out


def stream_getters(rng, tier):
    """single-byte registers: all 256 values; multi-byte: per byte lane exhaustive + random"""
    out = []
    n = 0
    ops = [g for g in GETTERS if g not in ('unscaled', 'data')]
    for v in range(256):
        for other in (0x00, 0xFF, 0xA5):
            low = [0x90] + [v] * 24
            # vary lanes: registers at even/odd offsets get `other`
            for lane in range(3):
                l2 = list(low)
                for a in range(1, 25):
                    if a % 3 != lane:
                        l2[a] = other
                out.append(case('g%d' % n, 'i2c', ops, 'low=' + hexs(l2)))
                n += 1
    for i in range(QS * 300 if tier == 'quick' else 20000):
        out.append(case('g%d' % n, rng.choice(['i2c', 'spi']), ops, 'low=' + rand_low(rng)))
        n += 1
    if tier != 'quick':
        # FIFO length: all 65536 register pairs
        for v in range(65536):
            low = [0x90] + [0] * 24
            low[0x12] = v & 0xFF
            low[0x13] = v >> 8
            out.append(case('g%d' % n, 'i2c', ['fifolen'], 'low=' + hexs(low)))
            n += 1
    return out


def stream_accel(rng, tier):
    """C03: data bytes x range; quick: boundary pairs + random; thorough: all 65536 pairs per axis"""
    out = []
    n = 0
    edge = [0x00, 0x01, 0x07, 0x08, 0x0F, 0x10, 0x7F, 0x80, 0xF0, 0xF7, 0xF8, 0xFF]
    pairs = [(l, m) for l in edge for m in edge]
    if tier == 'quick':
        pairs += [(rng.randrange(256), rng.randrange(256)) for _ in range(600)]
    else:
        pairs = [(l, m) for l in range(256) for m in range(256)]
    others = [(0x00, 0x00), (0xFF, 0x07), (0x00, 0x08)]
    for ax in range(3):
        for (l, m) in pairs:
            o = others[n % 3]
            d = [o[0], o[1]] * 3
            d[2 * ax] = l
            d[2 * ax + 1] = m
            low = [0x90, 0, 0, 0] + d + [0] * 15
            sc = n % 4
            ops = ['unscaled', 'acc scale:%d' % sc, 'data', 'unscaled']
            out.append(case('a%d' % n, 'i2c', ops, 'low=' + hexs(low)))
            n += 1
    # range tracking through histories of accepted / rejected / failed requests, self tests, resets
    for i in range(QS * 400 if tier == 'quick' else 6000):
        ops = []
        for _ in range(rng.randint(2, 10)):
            r = rng.random()
            if r < 0.35:
                ops.append('acc scale:%d' % rng.randrange(4))
            elif r < 0.45:
                ops.append('acc scale:%d odr:%d' % (rng.randrange(4), rng.randrange(7)))
            elif r < 0.5:
                ops.append('acc scale:%d pm:%d !%d' % (rng.randrange(4), rng.randrange(3), rng.randrange(3)))
            elif r < 0.55:
                ops.append('acc scale:%d pm:%d src:%d osr:%d !%d' % (rng.randrange(4), rng.randrange(3), rng.randrange(3),
                                                                   rng.randrange(4), rng.randrange(4)))
            elif r < 0.62:
                ops.append('int stap:%d gen1:%d' % (rng.randrange(2), rng.randrange(2)))
            elif r < 0.68:
                ops.append('selftest')
            elif r < 0.74:
                ops.append('reset')
            elif r < 0.8:
                ops.append('selftest !%d' % rng.randrange(20))
            elif r < 0.86:
                # a reset cut by a bus error: raw index 0 = the command write, 1 = the event read
                ops.append('reset !%d' % rng.randrange(2))
            else:
                ops.append(rand_request(rng))
            ops.append('data')
        hdr = 'low=%s pos=%s neg=%s' % (rand_low(rng), hexs(sample6(rng, True)), hexs(sample6(rng, False)))
        out.append(case('a%d' % n, ctor_for(rng, ops), ops, hdr))
        n += 1
    return out


def ctor_for(rng, ops):
    """histories with injected faults run over I2C: over SPI a fault index may hit a chip-select
    pin operation, after which the chip-select line itself is stuck (out of the properties' scope,
    exercised by C15 only)"""
    if any('!' in o for o in ops):
        return 'i2c'
    return rng.choice(['i2c', 'spi'])


def enc12(v):
    return v & 0xFFF


def sample6(rng, positive):
    """six data bytes; around the self-test thresholds with good probability"""
    if positive:
        vals = [rng.choice([1499, 1500, 1501, 1502, 2047, 800, rng.randint(-2048, 2047)]),
                rng.choice([1199, 1200, 1201, 1202, 2047, 700, rng.randint(-2048, 2047)]),
                rng.choice([249, 250, 251, 252, 2047, 130, rng.randint(-2048, 2047)])]
    else:
        vals = [rng.choice([0, 0, -1, 1, -800, -2048, rng.randint(-2048, 2047)]) for _ in range(3)]
    bs = []
    for v in vals:
        n = enc12(v)
        bs += [n & 0xFF, (n >> 8) | (rng.choice([0, 0xF0, 0xA0]))]
    return bs


# ---- FIFO

def enc_frame(spec):
    k = spec[0]
    if k in ('D12', 'D8'):
        _, x, y, z = spec
        hdr = 0x80 | (0x10 if k == 'D12' else 0) | (2 if x is not None else 0) | (4 if y is not None else 0) | (8 if z is not None else 0)
        out = [hdr]
        for v in (x, y, z):
            if v is None:
                continue
            n = v & 0xFFF
            if k == 'D12':
                out += [n & 0xF, n >> 4]
            else:
                out += [n >> 4]
        return out
    if k == 'C':
        _, a, b, c = spec
        return [0x48, (2 if a else 0) | (4 if b else 0) | (8 if c else 0)]
    if k == 'T':
        t = spec[1]
        return [0xA0, t & 0xFF, (t >> 8) & 0xFF, (t >> 16) & 0xFF]
    raise ValueError(k)


def spec_tok(spec):
    k = spec[0]
    if k in ('D12', 'D8'):
        return '.'.join([k] + ['_' if v is None else str(v) for v in spec[1:]])
    if k == 'C':
        return 'C.%d.%d.%d' % tuple(int(bool(v)) for v in spec[1:])
    return 'T.%d' % spec[1]


def rand_sample(rng):
    return rng.choice([-2048, -2047, -1, 0, 1, 15, 16, 17, 2047, 2046, -16, -17, rng.randint(-2048, 2047)])


def rand_frame(rng):
    r = rng.random()
    if r < 0.65:
        k = rng.choice(['D12', 'D8'])
        m = rng.randint(1, 7)
        return (k,) + tuple(rand_sample(rng) if m & (1 << i) else None for i in range(3))
    if r < 0.82:
        return ('C', rng.randrange(2), rng.randrange(2), rng.randrange(2))
    return ('T', rng.choice([0, 1, 0xFFFFF8, 0xFFFFFF, 0x800000, rng.randrange(1 << 24)]))


def fifo_case(cid, rng, specs, tail, ctor='i2c', pre=None):
    bs = []
    for s in specs:
        bs += enc_frame(s)
    if tail[0] == 'none':
        tb, tt = [], 'none'
    elif tail[0] == 'marker':
        rest = tail[1]
        tb, tt = [0x80, 0x00] + rest, 'marker:' + hexs(rest) if rest else 'marker'
    else:
        f, k = tail[1], tail[2]
        tb, tt = enc_frame(f)[:k], 'cut:%s:%d' % (spec_tok(f), k)
    buf = bs + tb
    hdr = 'q fifo=%s fspec=%s ftail=%s' % (hexs(buf) if buf else '', '/'.join(spec_tok(s) for s in specs) if specs else '-', tt)
    if not buf:
        hdr = 'q fspec=- ftail=none'
    pre = list(pre or [])
    if rng.random() < 0.35:
        # what other calls learned about the device must not limit what a FIFO read parses
        pre += rng.sample(['fifolen', 'status', 'data', 'is0', 'flush', 'steps', 'fifolen'], rng.randint(1, 2))
        hdr += ' low=%s' % rand_low(rng)
    return case(cid, ctor, pre + ['rfifo:%d' % len(buf)], hdr)


def stream_fifo_wf(rng, tier):
    out = []
    n = 0
    # per-frame exhaustive: every axis subset x both resolutions x all 4096 values on one axis
    step = 1 if tier != 'quick' else 37
    for k in ('D12', 'D8'):
        for m in range(1, 8):
            for ax in range(3):
                if not m & (1 << ax):
                    continue
                vals = list(range(-2048, 2048, step)) + [2047, -1, 0, 15, 16, -16, -17]
                for v0 in range(0, len(vals), 64):
                    specs = []
                    for v in vals[v0:v0 + 64]:
                        s = [rand_sample(rng) if m & (1 << i) else None for i in range(3)]
                        s[ax] = v
                        specs.append((k,) + tuple(s))
                    out.append(fifo_case('w%d' % n, rng, specs, ('none',)))
                    n += 1
    # all sequences up to length 3 over a kind alphabet, every tail kind
    alpha = [('D12', 1, None, None), ('D12', -2, 3, -4), ('D8', None, 100, None), ('D8', -2048, 2047, 16),
             ('C', 1, 0, 1), ('T', 0xABCDEF)]
    seqs = [[]]
    for L in range(1, 4 if tier == 'quick' else 5):
        def rec(prefix, L):
            if L == 0:
                seqs.append(list(prefix))
                return
            for a in alpha:
                rec(prefix + [a], L - 1)
        rec([], L)
    for s in seqs:
        tails = [('none',), ('marker', []), ('marker', [0x48, 0x02, 0x92, 0x01])]
        f = rng.choice(alpha)
        L = len(enc_frame(f))
        tails += [('cut', f, k) for k in range(1, L)]
        for t in (tails if tier != 'quick' or len(s) < 3 else [rng.choice(tails)]):
            out.append(fifo_case('w%d' % n, rng, s, t))
            n += 1
    # random long streams, every truncation point of a last frame
    for i in range(QS * 300 if tier == 'quick' else 5000):
        specs = [rand_frame(rng) for _ in range(rng.choice([1, 2, 5, 20, 60, 200, 400, 700]))]
        r = rng.random()
        if r < 0.3:
            t = ('none',)
        elif r < 0.5:
            t = ('marker', [rng.randrange(256) for _ in range(rng.randrange(6))])
        else:
            f = rand_frame(rng)
            t = ('cut', f, rng.randint(1, len(enc_frame(f)) - 1))
        # the parser must not depend on what the driver has recorded about the FIFO configuration
        pre = None
        if i % 2 == 1:
            pre = ['fifo time:%d 8bit:%d axes:%d,%d,%d src:%d stop:%d' % tuple(
                       [rng.randrange(2), rng.randrange(2), rng.randrange(2), rng.randrange(2), rng.randrange(2), rng.randrange(3),
                        rng.randrange(2)]),
                   rand_request(rng, rng.choice(['acc', 'int', 'fifo'])), 'fifo rddis:0']
        out.append(fifo_case('w%d' % n, rng, specs, t, rng.choice(['i2c', 'spi']), pre))
        n += 1
    return out


def stream_fifo_huge(rng, tier):
    """C05 has no length bound: a buffer of more than 65 535 bytes whose frames chain all the way
    (a cursor kept in 16 bits wraps only here).  Judged on the crate only (the list-based Lean
    model needs ~40 s for one such run, the judge ~12 s)."""
    out = []
    for i in range(1 if tier == 'quick' else 3):
        specs, total = [], 0
        while total < 65600 + 500 * i:
            f = rand_frame(rng)
            specs.append(f)
            total += len(enc_frame(f))
        out.append(fifo_case('hg%d' % i, rng, specs, ('none',) if i % 2 == 0 else ('marker', [1, 2, 3])))
    return out


def stream_odr_faults(rng, tier):
    """C06 / C16: an ODR change cut by a bus error at each of its writes, then an enable that is
    legal for only one of the two rates: the validation must use the rate the DEVICE has"""
    out = []
    n = 0
    enables = [('stap', []), ('dtap', []), ('gen1', ['gen1 src:0']), ('gen2', ['gen2 src:0']), ('actch', ['act src:0'])]
    for o1 in (2, 3, 4):
        for o2 in (2, 3, 4):
            if o1 == o2:
                continue
            for en, pre in enables:
                for k in (0, 1, 2):
                    ops = pre + ['acc odr:%d src:%d pm:%d' % (o1, rng.randrange(3), rng.randrange(3)),
                                 'acc odr:%d src:%d pm:%d osr:%d !%d' % (o2, rng.randrange(3), rng.randrange(3), rng.randrange(4), k),
                                 'int %s:1' % en, 'int', 'data']
                    out.append(case('of%d' % n, 'i2c', ops))
                    n += 1
    return out


def stream_fifo_any(rng, tier):
    """arbitrary bytes: all buffers of length <= 2 (quick) over all byte values, all buffers
    <= 6 over a boundary alphabet, random buffers up to 1024 bytes"""
    out = []
    n = 0

    def add(buf, ctor='i2c'):
        nonlocal n
        out.append(case('f%d' % n, ctor, ['rfifo:%d' % len(buf)], 'q fifo=' + hexs(buf) if buf else 'q'))
        n += 1
    add([])
    for a in range(256):
        add([a])
    for a in range(256):
        for b in range(256):
            add([a, b])
    alpha = [0x00, 0x01, 0x80, 0x82, 0x8E, 0x90, 0x9E, 0x9F, 0x48, 0xA0, 0xE0, 0x20, 0xFF, 0x40]
    maxlen = 4 if tier == 'quick' else 5
    def rec(prefix, L):
        if L == 0:
            add(prefix)
            return
        for a in alpha:
            rec(prefix + [a], L - 1)
    for L in range(3, maxlen + 1):
        rec([], L)
    for i in range(QS * 1500 if tier == 'quick' else 30000):
        L = rng.choice([3, 4, 5, 7, 8, 9, 15, 16, 33, 100, 255, 256, 1023, 1024]) if rng.random() < 0.3 else rng.randint(3, 40)
        r = rng.random()
        if r < 0.5:
            buf = [rng.choice(alpha) if rng.random() < 0.6 else rng.randrange(256) for _ in range(L)]
        else:
            buf = [rng.randrange(256) for _ in range(L)]
        add(buf, rng.choice(['i2c', 'spi']))
    return out


def stream_odr_matrix(rng, tier):
    """C06: pre-states over 7 ODR x enables x sources, then every request class that touches
    ODR / an enable / a source, plus unrelated requests"""
    out = []
    n = 0
    reqs = ['acc odr:%d' % o for o in range(7)] + \
           ['int %s:%d' % (e, v) for e in ['gen1', 'gen2', 'actch', 'stap', 'dtap'] for v in (0, 1)] + \
           ['int gen1:1 stap:1', 'int gen1:1 gen2:1 actch:1', 'int stap:1 dtap:1', 'int stap:0 dtap:0 gen1:1',
            'gen1 src:0', 'gen1 src:1', 'gen1 src:2', 'gen2 src:0', 'gen2 src:1', 'act src:0', 'act src:1', 'act src:2',
            'gen1 thr:9', 'gen2 thr:9', 'act thr:9', 'gen1 src:0 thr:7', 'act src:0 thr:3',
            'acc scale:2', 'acc odr:3 scale:1', 'acc odr:4 pm:2', 'fifo wm:5', 'tap sens:3', 'int latch:1', 'int']
    for odr in range(7):
        for srcs in range(8):
            s1, s2, s3 = srcs & 1, (srcs >> 1) & 1, (srcs >> 2) & 1
            for en in range(32):
                pre = ['gen1 src:%d' % s1, 'gen2 src:%d' % s2, 'act src:%d' % s3, 'acc odr:%d' % odr]
                ens = []
                for bit, name in enumerate(['gen1', 'gen2', 'actch', 'stap', 'dtap']):
                    if en & (1 << bit):
                        ens.append('%s:1' % name)
                if ens:
                    pre.append('int ' + ' '.join(ens))
                if tier == 'quick':
                    rs = rng.sample(reqs, 6)
                else:
                    rs = reqs
                # each request judged from the same pre-state: one case per few requests
                for r in rs:
                    out.append(case('o%d' % n, 'i2c', pre + [r]))
                    n += 1
    return out


def stream_odr_orders(rng, tier):
    """C06: the SAME device state reached along different orders of (ODR, data source, enable), then a
    request that must be accepted / rejected from it - a decision taken from something remembered
    along the way instead of from the recorded registers shows only on some orders"""
    out = []
    n = 0
    finals = ['acc odr:%d' % o for o in (2, 3, 4, 5)] + ['int gen1:1', 'int gen2:1', 'int actch:1', 'int stap:1', 'int dtap:1',
                                                        'gen1 src:0', 'gen2 src:0', 'act src:0', 'gen1 src:1', 'act src:1']
    for who, en in (('gen1', 'gen1'), ('gen2', 'gen2'), ('act', 'actch')):
        for odr0 in (3, 4, 1):
            for src_first in (0, 1):
                steps = [
                    # enable on filter 2, move to filter 1 afterwards (or try to), then the final request
                    ['acc odr:%d' % odr0, '%s src:1' % who, 'int %s:1' % en, '%s src:%d' % (who, src_first)],
                    # source first, then ODR, then enable
                    ['%s src:%d' % (who, src_first), 'acc odr:%d' % odr0, 'int %s:1' % en],
                    # enable, disable, change, enable again
                    ['acc odr:%d' % odr0, '%s src:1' % who, 'int %s:1' % en, 'int %s:0' % en, '%s src:%d' % (who, src_first), 'int %s:1' % en],
                    # through a reset / self test in between
                    ['acc odr:%d' % odr0, '%s src:1' % who, 'int %s:1' % en, rng.choice(['selftest', 'reset']),
                     '%s src:%d' % (who, src_first), 'int %s:1' % en],
                ]
                for st in steps:
                    for f in (finals if tier != 'quick' else rng.sample(finals, 5)):
                        out.append(case('oo%d' % n, 'i2c', st + [f, f]))
                        n += 1
    for odr0 in (4, 3):
        for st in (['acc odr:%d' % odr0, 'int stap:1', 'tap sens:2'], ['int stap:1', 'acc odr:%d' % odr0, 'int stap:1'],
                   ['acc odr:4', 'int dtap:1', 'int dtap:0', 'acc odr:%d' % odr0, 'int dtap:1']):
            for f in finals:
                out.append(case('oo%d' % n, 'i2c', st + [f]))
                n += 1
    return out


def stream_selftest(rng, tier):
    out = []
    n = 0
    band = lambda c: [c - 2, c - 1, c, c + 1, c + 2]
    # verdict boundary: differences around each threshold with the others passing / failing
    for ax, thr in enumerate([1500, 1200, 250]):
        for d in band(thr) + [thr + 100, -thr, 0, 4095, -4095]:
            for negv in [0, -100, 50, -2048 if d <= 4095 - 2048 else 0]:
                posv = negv + d
                if not (-2048 <= posv <= 2047 and -2048 <= negv <= 2047):
                    continue
                for others_pass in (True, False):
                    pos = [2000, 2000, 2000] if others_pass else [0, 0, 0]
                    neg = [0, 0, 0]
                    pos[ax], neg[ax] = posv, negv
                    pb, nb = [], []
                    for v in pos:
                        pb += [v & 0xFF, ((v >> 8) & 0xF) | rng.choice([0, 0xF0])]
                    for v in neg:
                        nb += [v & 0xFF, ((v >> 8) & 0xF) | rng.choice([0, 0x50])]
                    pre = reach_state(rng) if rng.random() < 0.7 else []
                    out.append(case('t%d' % n, rng.choice(['i2c', 'spi']), pre + ['selftest', rand_request(rng)],
                                    'pos=%s neg=%s low=%s' % (hexs(pb), hexs(nb), rand_low(rng))))
                    n += 1
    # an aborted test, reconfiguration, a later complete test (which must restore the LATER configuration)
    for i in range(QS * 150 if tier == 'quick' else 3000):
        pre = reach_state(rng)
        mid = ['acc scale:%d osr:%d odr:%d' % (rng.randrange(4), rng.randrange(4), rng.choice([2, 3, 5, 6])),
               'int drdy:%d step:%d' % (rng.randrange(2), rng.randrange(2)), rand_request(rng, 'fifo'), rand_request(rng)]
        rng.shuffle(mid)
        ops = pre + ['selftest !%d' % rng.randrange(13)] + mid[:rng.randint(1, 4)] + ['selftest', 'data']
        if rng.random() < 0.3:
            ops += ['selftest !%d' % rng.randrange(13), 'selftest']
        out.append(case('t%d' % n, 'i2c', ops,
                        'pos=%s neg=%s low=%s' % (hexs(sample6(rng, True)), hexs(sample6(rng, False)), rand_low(rng))))
        n += 1
    # several self tests on ONE driver while the sensor answers differently each time (`@pos=` / `@neg=`:
    # what the device does by itself): every verdict depends on that run's responses only
    good = ([0xFF, 0x07, 0xFF, 0x07, 0xFF, 0x07], [0x00, 0x08, 0x00, 0x08, 0x00, 0x08])      # +2047 / -2048 per axis
    for i in range(QS * 60 if tier == 'quick' else 2000):
        ops = reach_state(rng, rich=False) if rng.random() < 0.5 else []
        for _ in range(rng.randint(2, 4)):
            r = rng.random()
            if r < 0.4:
                p_, n_ = good
            elif r < 0.7:
                p_, n_ = sample6(rng, True), sample6(rng, False)
            else:
                # one axis below its threshold
                p_, n_ = list(good[0]), list(good[1])
                ax = rng.randrange(3)
                p_[2 * ax], p_[2 * ax + 1] = 0, 0
                n_[2 * ax], n_[2 * ax + 1] = 0, 0
            ops.append('selftest @pos=%s @neg=%s' % (hexs(p_), hexs(n_)))
            if rng.random() < 0.3:
                ops.append(rng.choice(['data', 'reset', rand_request(rng), 'unscaled']))
        out.append(case('t%d' % n, rng.choice(['i2c', 'i2c', 'spi']), ops,
                        'pos=%s neg=%s low=%s' % (hexs(sample6(rng, True)), hexs(sample6(rng, False)), rand_low(rng))))
        n += 1
    for i in range(QS * 150 if tier == 'quick' else 5000):
        pre = reach_state(rng)
        out.append(case('t%d' % n, rng.choice(['i2c', 'spi']), pre + ['selftest', 'data', rand_request(rng)],
                        'pos=%s neg=%s low=%s' % (hexs(sample6(rng, True)), hexs(sample6(rng, False)), rand_low(rng))))
        n += 1
    return out


SINGLE = {
    # interrupt -> (enable preamble, [(request changing exactly one parameter register)])
    'gen1': (['gen1 src:1', 'int gen1:1'],
             ['gen1 axes:1,0,0', 'gen1 hyst:1', 'gen1 crit:1', 'gen1 logic:1', 'gen1 thr:1', 'gen1 dur:256', 'gen1 dur:1',
              'gen1 refacc:1,0,0', 'gen1 refacc:256,0,0', 'gen1 refacc:0,1,0', 'gen1 refacc:0,256,0',
              'gen1 refacc:0,0,1', 'gen1 refacc:0,0,256', 'gen1 refacc:0,0,-2048', 'gen1 ref:2']),
    'gen2': (['gen2 src:1', 'int gen2:1'],
             ['gen2 axes:0,0,1', 'gen2 hyst:2', 'gen2 crit:1', 'gen2 logic:1', 'gen2 thr:1', 'gen2 dur:256', 'gen2 dur:1',
              'gen2 refacc:1,0,0', 'gen2 refacc:256,0,0', 'gen2 refacc:0,1,0', 'gen2 refacc:0,256,0',
              'gen2 refacc:0,0,1', 'gen2 refacc:0,0,256', 'gen2 refacc:0,0,512']),
    'actch': (['act src:1', 'int actch:1'], ['act thr:1', 'act axes:1,0,0', 'act obs:1']),
    'stap': (['int stap:1'], ['tap sens:1', 'tap axis:1', 'tap min:1', 'tap dtap:0', 'tap max:0']),
    'dtap': (['int dtap:1'], ['tap sens:1', 'tap axis:1', 'tap min:1', 'tap dtap:0', 'tap max:0']),
    'orient': (['int orient:1'],
               ['ori axes:1,0,0', 'ori src:2', 'ori ref:1', 'ori thr:1', 'ori dur:1', 'ori refacc:1,0,0', 'ori refacc:256,0,0',
                'ori refacc:0,1,0', 'ori refacc:0,256,0', 'ori refacc:0,0,1', 'ori refacc:0,0,256', 'ori refacc:0,0,512',
                'ori refacc:0,0,-2048']),
    'wkup': (['wkup axes:1,0,0'], ['wkup thr:1', 'wkup refacc:1,0,0', 'wkup refacc:0,1,0', 'wkup refacc:0,0,1', 'wkup n:3',
                                  'wkup ref:1', 'wkup axes:0,0,0', 'wkup axes:0,1,0', 'wkup axes:0,0,0 thr:9']),
    'fwm': (['int fwm:1'], ['fifo wm:1', 'fifo wm:256', 'fifo wm:257', 'fifo axes:1,0,0', 'fifo rddis:1', 'fifo wm:5 rddis:1']),
}


def stream_single_param(rng, tier):
    """each interrupt enabled (alone, and together with others), then a request that changes exactly one
    parameter register of it - from reset contents and from a second, non-default content"""
    out = []
    n = 0
    for name, (pre, reqs) in SINGLE.items():
        for r in reqs:
            for variant in range(3):
                ops = list(pre)
                if variant == 1:
                    # non-default background: apply another single change first
                    ops.append(rng.choice(reqs))
                if variant == 2:
                    ops = ['int drdy:1 ffull:1 step:1 latch:1', 'wkup axes:0,1,1'] + ops + ['pin %s' % rand_setter(rng, 'pin')]
                ops.append(r)
                ops.append(r)          # re-applying the same request: nothing may be written
                out.append(case('sp%d' % n, rng.choice(['i2c', 'spi']), ops))
                n += 1
    # pin mapping with each interrupt enabled
    pinmap = {'gen1': 'gen1', 'gen2': 'gen2', 'actch': 'actch', 'stap': 'tap', 'dtap': 'tap', 'orient': 'orient',
              'wkup': 'wkup', 'fwm': 'fwm'}
    for name, (pre, _) in SINGLE.items():
        for pins in range(4):
            for io in (None, 'int1:2', 'int2:3'):
                req = 'pin %s:%d' % (pinmap[name], pins) + (' ' + io if io else '')
                out.append(case('sp%d' % n, 'i2c', ['int drdy:1 step:1'] + pre + [req, req, 'pin']))
                n += 1
    return out


def rand_op(rng):
    r = rng.random()
    if r < 0.55:
        return rand_request(rng)
    if r < 0.8:
        return rng.choice(GETTERS)
    if r < 0.86:
        return 'rfifo:%d' % rng.choice([0, 1, 2, 15, 64, 255, 256, 300, 1030])
    return rng.choice(['flush', 'clrsteps', 'selftest', 'reset'])


def stream_universe(rng, tier, ctors=('i2c', 'i2c', 'i2c', 'spi', 'spi3'), pin_faults=False):
    """ONE stream shared by (almost) all properties: random histories mixing every kind of call -
    requests, repeated requests, enables, getters, data reads, FIFO reads of odd sizes, power-down /
    power-up of the FIFO, commands, self tests, resets - over all three constructors, with bus
    faults on random calls (I2C: any raw position, also two in a row; SPI: the first data operation).
    Each property judges it with its own predicate: a trigger that needs `state x call x fault` in
    a combination no dedicated stream has is still met here."""
    out = []
    sizes = [0, 1, 2, 7, 15, 33, 64, 255, 256, 257, 300, 1024, 1025, 1030]
    for i in range(QS * 400 if tier == 'quick' else 12000):
        ctor = rng.choice(ctors)
        ops = reach_state(rng, rich=rng.random() < 0.5) if rng.random() < 0.7 else []
        last_req = None
        for _ in range(rng.randint(4, 16)):
            r = rng.random()
            if r < 0.40:
                op = last_req = rand_request(rng)
            elif r < 0.46 and last_req:
                op = last_req                                   # the same request again
            elif r < 0.52:
                op = 'int drdy:%d fwm:%d ffull:%d orient:%d step:%d latch:%d' % tuple(rng.randrange(2) for _ in range(6))
            elif r < 0.66:
                op = rng.choice(GETTERS)
            elif r < 0.74:
                op = 'rfifo:%d' % rng.choice(sizes)
            elif r < 0.79:
                op = 'fifo rddis:%d' % rng.randrange(2)
            elif r < 0.84:
                op = rng.choice(['flush', 'clrsteps'])
            elif r < 0.90:
                op = 'selftest'
            elif r < 0.96:
                op = 'reset'
            else:
                op = 'acc scale:%d odr:%d' % (rng.randrange(4), rng.choice([3, 4, 3, 4, 0, 6]))
            if rng.random() < 0.25:
                # the device's status / data / counter registers change by themselves between calls
                op += ''.join(' @r%02x=%02x' % (a, rng.choice([0x00, 0x01, 0xFF, rng.randrange(256)]))
                              for a in rng.sample(range(0x02, 0x19), rng.randint(1, 3)))
            f = rng.random()
            if ctor == 'i2c':
                if f < 0.14:
                    op += ' !%d' % rng.randrange(20 if op.startswith('selftest') else 6)
                elif f < 0.17:
                    k = rng.randrange(8)
                    op += ' !%d,%d' % (k, k + 1)
            elif f < 0.10:
                op += ' !%d' % (rng.randrange(9) if pin_faults else 1)
            ops.append(op)
        hdr = 'low=%s pos=%s neg=%s fifo=%s' % (rand_low(rng), hexs(sample6(rng, True)), hexs(sample6(rng, False)),
                                              hexs([rng.randrange(256) for _ in range(40)]))
        out.append(case('u%d' % i, ctor, ops, hdr))
    return out


def stream_reset(rng, tier):
    """C11: (history; reset; follow-up) and (fresh; follow-up) as twin cases `r<k>a` / `r<k>b`"""
    out = []
    for i in range(QS * 250 if tier == 'quick' else 4000):
        hist = reach_state(rng)
        for _ in range(rng.randint(0, 6)):
            op = rand_op(rng)
            if rng.random() < 0.25 and not op.startswith('rfifo'):
                op += ' !%d' % rng.randrange(8)
            hist.append(op)
        follow = [rand_op(rng) for _ in range(rng.randint(2, 8))]
        ctor = ctor_for(rng, hist)
        hdr = 'low=%s pos=%s neg=%s fifo=%s' % (rand_low(rng), hexs(sample6(rng, True)), hexs(sample6(rng, False)),
                                              hexs([rng.randrange(256) for _ in range(20)]))
        out.append(case('r%da' % i, ctor, hist + ['reset'] + follow, hdr))
        out.append(case('r%db' % i, ctor, follow, hdr))
        if i % 4 == 0:
            # the reset itself hit by a bus error (I2C: raw index 0 = command write, 1 = event read)
            k = rng.randrange(2)
            out.append(case('rf%d' % i, 'i2c', hist + ['reset !%d' % k] + follow[:3], hdr))
    return out


def catalogue_ops(rng):
    ops = list(GETTERS) + ['flush', 'clrsteps', 'rfifo:0', 'rfifo:1', 'rfifo:7', 'rfifo:64', 'rfifo:255', 'rfifo:256', 'rfifo:1024', 'rfifo:1030',
                           'selftest', 'reset']
    return ops


def stream_catalogue(rng, tier, ctors=('i2c', 'spi', 'spi3')):
    """every public operation with every request shape, from rich states"""
    out = []
    n = 0
    for ctor in ctors:
        for i in range(QS * 40 if tier == 'quick' else 600):
            ops = reach_state(rng)
            rest = catalogue_ops(rng) + [rand_request(rng, b) for b in BUILDERS]
            rng.shuffle(rest)
            hdr = 'low=%s pos=%s neg=%s fifo=%s' % (rand_low(rng), hexs(sample6(rng, True)), hexs(sample6(rng, False)),
                                                  hexs([rng.randrange(256) for _ in range(64)]))
            out.append(case('k%d' % n, ctor, ops + rest, hdr))
            n += 1
    return out


def stream_catalogue_faults(rng, tier, ctors):
    """operations cut by a failing raw operation (data or, over SPI, chip-select pin), each
    followed by further fault-free operations: the framing of the LATER calls must not depend
    on an earlier failure"""
    out = []
    n = 0
    for ctor in ctors:
        for i in range(QS * 120 if tier == 'quick' else 3000):
            ops = reach_state(rng, rich=False) if rng.random() < 0.4 else []
            for _ in range(rng.randint(2, 8)):
                op = rand_op(rng)
                if rng.random() < 0.4:
                    op += ' !%d' % rng.randrange(4 if ctor == 'i2c' else 9)
                ops.append(op)
                if rng.random() < 0.5:
                    ops.append(rng.choice(GETTERS))
            hdr = 'low=%s pos=%s neg=%s fifo=%s' % (rand_low(rng), hexs(sample6(rng, True)), hexs(sample6(rng, False)),
                                                  hexs([rng.randrange(256) for _ in range(20)]))
            out.append(case('kf%d' % n, ctor, ops, hdr))
            n += 1
    return out


def stream_reapply(rng, tier, ctors):
    """a request, something in between (reset, self test, command, another request), the SAME
    request again: after a reset every differing register must go over the bus again, whatever
    the transport saw before"""
    out = []
    n = 0
    for ctor in ctors:
        for i in range(QS * 150 if tier == 'quick' else 3000):
            b = rng.choice(BUILDERS)
            rq = rand_request(rng, b, 3)
            if b in ('gen1', 'gen2', 'act'):
                rq = rq if ' src:' in rq else rq + ' src:1'
            mid = rng.choice([['reset'], ['reset'], ['selftest'], ['flush'], [rand_request(rng)], ['reset', 'status'],
                              [rand_request(rng, b, 2), 'reset']])
            ops = [rq] + mid + [rq, rng.choice(GETTERS)]
            hdr = 'low=%s pos=%s neg=%s' % (rand_low(rng), hexs(sample6(rng, True)), hexs(sample6(rng, False)))
            out.append(case('ra%d' % n, ctor, ops, hdr))
            n += 1
    return out


def stream_twin(rng, tier):
    """C14: the same program over I2C (`…a`) and SPI (`…b`)"""
    out = []
    for i in range(QS * 300 if tier == 'quick' else 5000):
        ops = reach_state(rng, rich=rng.random() < 0.5) + [rand_op(rng) for _ in range(rng.randint(1, 14))]
        hdr = 'low=%s pos=%s neg=%s fifo=%s' % (rand_low(rng), hexs(sample6(rng, True)), hexs(sample6(rng, False)),
                                              hexs([rng.randrange(256) for _ in range(20)]))
        out.append(case('x%da' % i, 'i2c', ops, hdr))
        out.append(case('x%db' % i, 'spi', ops, hdr))
    # the same program over I2C and 3-wire SPI (the IF_CONF write of the constructor apart)
    for i in range(QS * 60 if tier == 'quick' else 1500):
        ops = reach_state(rng, rich=False) + [rand_op(rng) for _ in range(rng.randint(1, 10))]
        if rng.random() < 0.6:
            ops.insert(rng.randrange(len(ops) + 1), 'reset')
        hdr = 'low=%s pos=%s neg=%s fifo=%s' % (rand_low(rng), hexs(sample6(rng, True)), hexs(sample6(rng, False)),
                                              hexs([rng.randrange(256) for _ in range(20)]))
        out.append(case('t%da' % i, 'i2c', ops, hdr))
        out.append(case('t%db' % i, 'spi3', ops, hdr))
    # constructors: whatever the throw-away read returns, the chip id is read once more
    for j, (idv, dummy) in enumerate([(0x90, 0x90), (0x90, 0x00), (0x42, 0x90), (0x90, 0x42), (0x00, 0x90)]):
        for k, ctor in enumerate(('spi', 'spi3')):
            out.append(case('c%d_%da' % (j, k), 'i2c', ['id'], 'low=%02x dummy=%02x' % (idv, dummy)))
            out.append(case('c%d_%db' % (j, k), ctor, ['id'], 'low=%02x dummy=%02x' % (idv, dummy)))
    # the chip-id read of the constructor failing on both transports (raw operation 0 on I2C; the data
    # operations of the SECOND access on SPI: the first one is the SPI-only dummy read)
    for j, (ks, idv) in enumerate([(k, i) for k in (5, 6) for i in (0x90, 0x42)]):
        out.append(case('z%da' % j, 'i2c', [], 'low=%02x !0' % idv))
        out.append(case('z%db' % j, 'spi', [], 'low=%02x !%d' % (idv, ks)))
    # the same request before and after a reset / self test / command (a transport must not remember)
    for j, l in enumerate(stream_reapply(rng, tier, ('i2c',))):
        secs = l.split(' | ')
        h = secs[0].split(' ')
        out.append(' | '.join([' '.join(['y%da' % j, 'i2c'] + h[2:])] + secs[1:]))
        out.append(' | '.join([' '.join(['y%db' % j, 'spi'] + h[2:])] + secs[1:]))
    return out


def stream_ctor(rng, tier):
    out = []
    n = 0
    for ctor in ('i2c', 'spi', 'spi3'):
        for idv in range(256):
            low = [idv] + [rng.randrange(256) for _ in range(24)]
            ops = ['id', 'acc', 'acc odr:4 scale:1', 'tap', 'pin int1:1 int2:1', rand_request(rng)] if idv == 0x90 else ['id']
            out.append(case('n%d' % n, ctor, ops, 'low=' + hexs(low)))
            n += 1
            if ctor != 'i2c':
                # the throw-away read (chip still in I2C mode) returns an unrelated byte
                for dummy in (0x90, idv ^ 0xFF, 0x00):
                    out.append(case('n%d' % n, ctor, ['id'], 'low=%s dummy=%02x' % (hexs(low), dummy)))
                    n += 1
    # first request per block from a fresh driver: reset values -> nothing; others -> exactly the differing registers
    firsts = ['acc odr:4 scale:1 osr:0 pm:0 osrlp:0 bw:0 src:0', 'pin int1:1 int2:1', 'tap min:0 dtap:1 max:2 axis:2 sens:0',
              'int', 'fifo wm:0 axes:0,0,0', 'alp timeout:0', 'awk period:0', 'wkup n:1 thr:0', 'ori thr:0',
              'gen1 dur:0', 'gen2 src:0', 'act obs:0']
    for ctor in ('i2c', 'spi', 'spi3'):
        for f in firsts:
            out.append(case('n%d' % n, ctor, [f]))
            n += 1
        for i in range(QS * 60 if tier == 'quick' else 1500):
            out.append(case('n%d' % n, ctor, [rand_request(rng, maxn=6)]))
            n += 1
    return out


def stream_fifo_guard(rng, tier):
    """C19: histories over {power on/off, other FIFO setters, faults, self test, reset} then reads"""
    out = []
    for i in range(QS * 500 if tier == 'quick' else 8000):
        ops = []
        if rng.random() < 0.3:
            ops += reach_state(rng, rich=False)
        for _ in range(rng.randint(1, 7)):
            r = rng.random()
            if r < 0.3:
                ops.append('fifo rddis:%d' % rng.randrange(2))
            elif r < 0.45:
                ops.append('fifo rddis:%d wm:%d axes:1,0,1 !%d' % (rng.randrange(2), rng.randrange(1100), rng.randrange(5)))
            elif r < 0.6:
                ops.append(rand_request(rng, 'fifo'))
            elif r < 0.68:
                ops.append('selftest')
            elif r < 0.74:
                ops.append('selftest !%d' % rng.randrange(18))
            elif r < 0.8:
                ops.append('reset')
            elif r < 0.85:
                ops.append('reset !%d' % rng.randrange(2))
            elif r < 0.9:
                ops.append(rng.choice(['flush', 'clrsteps']))
            else:
                ops.append(rand_request(rng))
            ops.append('rfifo:%d' % rng.choice([0, 1, 2, 15, 33, 33, 255, 256, 257, 1024, 1025, 1030, 2000]))
        hdr = 'pos=%s neg=%s fifo=%s' % (hexs(sample6(rng, True)), hexs(sample6(rng, False)),
                                         hexs([rng.randrange(256) for _ in range(33)]))
        ctor = ctor_for(rng, ops)
        if ctor == 'i2c':
            # a burst that fails is ONE attempted burst and an error, whatever happened before
            ops = [o + ' !0' if (o.startswith('rfifo') and rng.random() < 0.25) else o for o in ops]
        out.append(case('p%d' % i, ctor, ops, hdr))
    # power-down, power-up, then a failing first burst and a second one
    for j, pre in enumerate([[], ['fifo rddis:1'], ['fifo rddis:1', 'fifo rddis:0'], ['fifo rddis:1', 'reset'],
                             ['fifo rddis:1', 'fifo rddis:0 wm:5'], ['fifo rddis:0'], ['fifo rddis:1', 'selftest', 'fifo rddis:0']]):
        for nbytes in (0, 1, 33, 300):
            out.append(case('pq%d_%d' % (j, nbytes), 'i2c', pre + ['rfifo:%d !0' % nbytes, 'rfifo:%d' % nbytes, 'flush !0', 'flush'],
                            'fifo=%s' % hexs([rng.randrange(256) for _ in range(33)])))
    return out


def count_raw(journal_field):
    """number of fallible raw operations in a journal string"""
    return len([t for t in journal_field.split(' ') if t and not (t[0] == 'd' and t[1:].isdigit())])


def raw_kinds(journal_field):
    """'p' (pin) / 'd' (data) for every fallible raw operation of a journal string"""
    return ['p' if t.rstrip('!') in ('L', 'H') else 'd'
            for t in journal_field.split(' ') if t and not (t[0] == 'd' and t[1:].isdigit())]


def stream_faults_from(base_cases, base_obs, rng, tier, recover=True, data_only=False, double=False, double_data=False):
    """C15 / C16 / C20: for the last operation of every base case, one case per raw-operation
    index k failing, followed by recovery requests.  `base_obs` are fault-free observations
    (they tell how many raw operations the operation performs)."""
    out = []
    n = 0
    for cl, ol in zip(base_cases, base_obs):
        secs = cl.split(' | ')
        obs = ol.split(' | ')
        if len(obs) != len(secs) + 1:
            continue
        last = secs[-1]
        nraw = count_raw(obs[-1].split(';')[1])
        ks = list(range(nraw))
        if data_only:
            kinds = raw_kinds(obs[-1].split(';')[1])
            ks = [k for k in ks if kinds[k] == 'd']
        if tier == 'quick' and len(ks) > 12:
            ks = sorted(rng.sample(ks, 12))
        ks = [str(k) for k in ks]
        if double:
            # two failures in one call: a data operation AND the chip-select release after it
            kinds = raw_kinds(obs[-1].split(';')[1])
            dk = [k for k in range(nraw) if kinds[k] == 'd' and k + 1 <= nraw]
            if len(dk) > 4:
                dk = sorted(rng.sample(dk, 4))
            ks += ['%d,%d' % (k, k + 1) for k in dk] + ['%d,%d' % (k, k + 2) for k in dk[:2]]
        if double_data:
            # two consecutive DATA operations failing (a best-effort write after a failed one)
            kinds = raw_kinds(obs[-1].split(';')[1])
            if 'p' not in kinds:
                dk = list(range(nraw))
                if len(dk) > 5:
                    dk = sorted(rng.sample(dk, 5))
                ks += ['%d,%d' % (k, k + 1) for k in dk]
        for k in ks:
            head = secs[0].split(' ')
            head[0] = 'e%d' % n
            ops = secs[1:-1] + [last + ' !%s' % k]
            if recover:
                b = last.split(' ')[0]
                # recovery: retry, re-assert every enable, rewrite the block
                if n % 4 == 3:
                    # the very next call is hit as well (early raw positions)
                    # (over SPI only raw position 1 is a data operation of the first access in every case)
                    ops.append(last + ' !%d' % (1 if (data_only and ' spi' in secs[0]) else rng.choice([0, 1, 1, 2, 2])))
                ops.append(last)
                prev_int = [o for o in secs[1:-1] if o.startswith('int ')]
                if prev_int:
                    ops.append(prev_int[-1])        # the very request that was accepted earlier, again
                ops.append('int drdy:1 fwm:1 ffull:1 orient:1 step:1 latch:1')
                ops.append('data')
                if b in SETTERS:
                    ops.append(rand_request(rng, b))
            out.append(' | '.join([' '.join(head)] + ops))
            n += 1
    return out


def fault_bases(rng, tier, builders_only=False):
    """fault-free base cases whose last operation gets a fault at every position"""
    out = []
    n = 0
    for ctor in ('i2c', 'spi', 'spi3'):
        for i in range((QS * 25 if tier == 'quick' else 300) // (3 if ctor == 'spi3' else 1)):
            for last in [rand_request(rng, b, 5) for b in BUILDERS] + ([] if builders_only else ['selftest', 'reset', 'data', 'rfifo:5', 'rfifo:300', 'flush', 'status',
                                                                      'rfifo:0', 'rfifo:1', rng.choice(GETTERS),
                                                                      'pin int1:%d tap:3 actch:1 step:2 wkup:1 gen1:1 drdy:1 fwm:3' % rng.randrange(4)]):
                ops = reach_state(rng)
                hdr = 'low=%s pos=%s neg=%s' % (rand_low(rng), hexs(sample6(rng, True)), hexs(sample6(rng, False)))
                out.append(case('eb%d' % n, ctor, ops + [last], hdr))
                n += 1
    return out


def stream_ctor_faults(rng):
    out = []
    n = 0
    for ctor, nraw in (('i2c', 1), ('spi', 8), ('spi3', 11)):
        for k in range(nraw):
            out.append(case('ef%d' % n, ctor, [], '!%d' % k))
            n += 1
            # a failing operation AND a wrong chip id: the failure is what must be reported
            for idv in (0x00, 0x42, 0x91):
                out.append(case('ef%d' % n, ctor, [], 'low=%02x !%d' % (idv, k)))
                n += 1
    return out
